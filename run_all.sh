#!/bin/bash
# run_all.sh [quick|thorough] : run every claimed check on /repo's current tree, one after the other; summary on stdout
tier=${1:-quick}
here="$(cd "$(dirname "${BASH_SOURCE[0]}")" && pwd)"
ids=$(python3 -c "import json;print(' '.join(sorted(json.load(open('$here/props/REGISTRY.json'))['claimed'])))")
rc=0
for id in $ids; do
  case " $SKIP " in *" $id "*) continue;; esac
  out=$("$here/check" $id --tier $tier 2>&1); r=$?
  echo "$out" | grep -E "^(OK|VIOLATION|INCONCLUSIVE|KNOWN-FINDING)" | cut -c1-220
  [ $r -ne 0 ] && rc=1
done
exit $rc
