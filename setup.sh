#!/bin/bash
# Builds the dependency caches (Kani target dir, nightly target dir for MIR
# dumps) from files on disk only.  Safe to re-run.  Nothing here is needed for
# correctness: every check rebuilds what is missing, this only moves the cost.
set -u
here="$(cd "$(dirname "${BASH_SOURCE[0]}")" && pwd)"
export CARGO_NET_OFFLINE=true
cd "$here"
python3-vt lib/setup_caches.py
