"""Kani runner: builds the overlay, runs harnesses under CBMC, parses verdicts,
replays counterexamples natively (cargo kani playback) before reporting."""
import os
import re
import resource
import shutil
import subprocess
import time

from vcommon import (ENV, KANI_TARGET, VERIF, WORK, log)

MEM_CAP_GB = int(os.environ.get("VERIF_KANI_MEM_GB", "14"))


def _limits():
    cap = MEM_CAP_GB * (1 << 30)
    # rustc/cargo map a lot of address space; the cap is meant for cbmc, which
    # inherits it.  24 GB headroom on top for the compiler processes is avoided
    # by only ever capping RLIMIT_AS high enough for both.
    resource.setrlimit(resource.RLIMIT_AS, (cap, cap))


def base_cmd():
    return ["cargo", "kani", "--no-default-features",
            "--target-dir", KANI_TARGET, "--lib"]


class HarnessResult:
    def __init__(self, name):
        self.name = name
        self.status = "MISSING"   # SUCCESSFUL / FAILED / TIMEOUT / ERROR / MISSING
        self.checks = 0
        self.failed = 0
        self.covers_total = 0
        self.covers_sat = 0
        self.time = 0.0
        self.failed_checks = []
        self.raw = ""

    def as_sample(self):
        return {"harness": self.name, "status": self.status,
                "checks": self.checks, "covers": "%d/%d" % (self.covers_sat, self.covers_total),
                "cbmc_time_s": round(self.time, 2)}


def parse_output(text, names):
    """Parse regular or terse cargo-kani output into per-harness results."""
    res = {n: HarnessResult(n) for n in names}
    # split into per-thread streams (terse + -j) or one stream
    streams = {}
    cur = None
    for line in text.splitlines():
        m = re.match(r"^Thread (\d+): ?(.*)$", line)
        if m:
            cur = m.group(1)
            streams.setdefault(cur, []).append(m.group(2))
        else:
            streams.setdefault(cur if cur is not None else "-", []).append(line)
    for key, lines in streams.items():
        h = None
        for line in lines:
            m = re.search(r"Checking harness (\S+?)\.\.\.", line)
            if m:
                full = m.group(1)
                short = full.split("::")[-1]
                h = res.get(short)
                if h is None:
                    h = res.setdefault(short, HarnessResult(short))
                h.status = "STARTED"
                continue
            if h is None:
                continue
            h.raw += line + "\n"
            m = re.search(r"\*\* (\d+) of (\d+) failed", line)
            if m:
                h.failed, h.checks = int(m.group(1)), int(m.group(2))
            m = re.search(r"\*\* (\d+) of (\d+) cover properties satisfied", line)
            if m:
                h.covers_sat, h.covers_total = int(m.group(1)), int(m.group(2))
            m = re.search(r"VERIFICATION:- (\w+)", line)
            if m and h.status not in ("ERROR", "TIMEOUT"):
                h.status = m.group(1)
            m = re.search(r"Verification Time: ([\d.]+)s", line)
            if m:
                h.time = float(m.group(1))
            m = re.search(r"Failed Checks: (.*)$", line)
            if m:
                h.failed_checks.append(m.group(1).strip())
            if "timed out" in line.lower() or "TIMEOUT" in line:
                h.status = "TIMEOUT"
            if "Status: ERROR" in line or re.search(r"CBMC failed( with status \d+)?$", line.strip()) or \
                    "out of memory" in line.lower() or "std::bad_alloc" in line:
                h.status = "ERROR"
    for h in res.values():
        if h.status == "STARTED":
            h.status = "ERROR"
        if h.status == "FAILED" and h.failed == 0 and not h.failed_checks:
            # FAILED with no failed check: unwinding/unsupported construct or
            # solver error reported elsewhere; keep FAILED but mark detail
            h.failed_checks.append("(no failed check listed)")
    return res


def compile_error(text):
    return ("error: could not compile" in text or "error[E" in text
            or "Failed to execute cargo" in text)


def run_harnesses(OVERLAY, names, stubbing=False, timeout_s=600, jobs=None,
                  extra_args=(), logname="kani"):
    """Run the given harnesses (short names) in one cargo-kani invocation."""
    os.makedirs(os.path.join(WORK, "logs"), exist_ok=True)
    jobs = jobs or min(len(names), 8)
    cmd = base_cmd()
    for n in names:
        cmd += ["--harness", n]
    cmd += ["-j", str(max(jobs, 2)), "--output-format", "terse",
            "-Z", "unstable-options", "--harness-timeout", "%ds" % timeout_s]
    if stubbing:
        cmd += ["-Z", "stubbing"]
    cmd += list(extra_args)
    t0 = time.time()
    logpath = os.path.join(WORK, "logs", logname + ".log")
    try:
        p = subprocess.run(cmd, cwd=OVERLAY, env=ENV, stdout=subprocess.PIPE,
                           stderr=subprocess.STDOUT, text=True,
                           preexec_fn=_limits,
                           timeout=timeout_s * (1 + len(names) // max(jobs, 1)) + 900)
        out = p.stdout
    except subprocess.TimeoutExpired as e:
        out = (e.stdout or b"").decode() if isinstance(e.stdout, bytes) else (e.stdout or "")
        out += "\nRUNNER TIMEOUT\n"
    with open(logpath, "w") as f:
        f.write(" ".join(cmd) + "\n" + out)
    res = parse_output(out, names)
    return res, out, time.time() - t0, logpath


def run_single_verbose(OVERLAY, name, stubbing=False, timeout_s=900, playback=True):
    """Re-run one harness with regular output and concrete playback."""
    cmd = base_cmd() + ["--harness", name]
    if stubbing:
        cmd += ["-Z", "stubbing"]
    if playback:
        cmd += ["-Z", "concrete-playback", "--concrete-playback=print"]
    try:
        p = subprocess.run(cmd, cwd=OVERLAY, env=ENV, stdout=subprocess.PIPE,
                           stderr=subprocess.STDOUT, text=True,
                           preexec_fn=_limits, timeout=timeout_s)
        out = p.stdout
    except subprocess.TimeoutExpired as e:
        out = (e.stdout or "") if isinstance(e.stdout, str) else ""
        out += "\nRUNNER TIMEOUT\n"
    failed = []
    for m in re.finditer(
            r"Check \d+: (\S+)\n\t - Status: FAILURE\n\t - Description: \"(.*?)\"\n\t - Location: (.*)",
            out):
        failed.append({"check": m.group(1), "description": m.group(2),
                       "location": m.group(3)})
    test = None
    m = re.search(r"```\n(.*?#\[test\].*?)```", out, re.S)
    if m:
        test = m.group(1)
    return out, failed, test


def native_replay(OVERLAY, prop, harness, harness_file_rel, inject_rel, test_src):
    """Compile the generated unit test next to the harness and run it natively.

    harness_file_rel: file under /verif/kani holding the harness.
    inject_rel: the overlay source file whose `mod verif_kani` line points to it.
    Returns (reproduced: bool|None, replay_path, output).
    """
    rdir = os.path.join(VERIF, "replays", prop)
    os.makedirs(rdir, exist_ok=True)
    replay_path = os.path.join(rdir, harness + ".rs")
    with open(os.path.join(VERIF, "kani", harness_file_rel)) as f:
        src = f.read()
    with open(replay_path, "w") as f:
        f.write(src + "\n// ---- concrete playback test generated by Kani ----\n" + test_src)
    # point the overlay's module line at the replay copy
    ov = os.path.join(OVERLAY, inject_rel)
    with open(ov) as f:
        body = f.read()
    orig_path = os.path.join(VERIF, "kani", harness_file_rel)
    patched = body.replace('"%s"' % orig_path, '"%s"' % replay_path)
    m = re.search(r"fn (kani_concrete_playback_\w+)", test_src)
    tname = m.group(1) if m else ""
    outs = []
    reproduced = None
    try:
        with open(ov, "w") as f:
            f.write(patched)
        for prof in ("dev", "release-like"):
            cmd = ["cargo", "kani", "playback", "-Z", "concrete-playback",
                   "--no-default-features", "--lib", "--", tname]
            env = dict(ENV)
            env["CARGO_TARGET_DIR"] = os.path.join(WORK, "playback-target-" + prof)
            if prof == "release-like":
                # `cargo kani playback` has no --release; give the test
                # profile the release profile's code generation settings
                env["CARGO_PROFILE_TEST_OPT_LEVEL"] = "3"
                env["CARGO_PROFILE_TEST_DEBUG_ASSERTIONS"] = "false"
                env["CARGO_PROFILE_TEST_OVERFLOW_CHECKS"] = "false"
                env["CARGO_PROFILE_DEV_OPT_LEVEL"] = "3"
                env["CARGO_PROFILE_DEV_DEBUG_ASSERTIONS"] = "false"
                env["CARGO_PROFILE_DEV_OVERFLOW_CHECKS"] = "false"
            p = subprocess.run(cmd, cwd=OVERLAY, env=env, stdout=subprocess.PIPE,
                               stderr=subprocess.STDOUT, text=True, timeout=1800)
            outs.append(p.stdout)
            if re.search(r"test result: FAILED", p.stdout) or "panicked at" in p.stdout:
                reproduced = True if reproduced in (None, True) else reproduced
            elif re.search(r"test result: ok\. [1-9]", p.stdout):
                reproduced = False if reproduced is None else reproduced
    finally:
        with open(ov, "w") as f:
            f.write(body)
    with open(replay_path + ".log", "w") as f:
        f.write("\n=====\n".join(outs))
    return reproduced, replay_path, "\n".join(outs)
