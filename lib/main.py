"""Driver: ./check <ID> [--tier quick|thorough]"""
import argparse
import importlib
import os
import sys
import traceback

sys.path.insert(0, os.path.dirname(os.path.abspath(__file__)))
sys.path.insert(0, os.path.join(os.path.dirname(os.path.dirname(os.path.abspath(__file__))), "props"))

from vcommon import Result  # noqa: E402


def main():
    ap = argparse.ArgumentParser()
    ap.add_argument("prop")
    ap.add_argument("--tier", default=os.environ.get("VERIF_TIER", "quick"),
                    choices=["quick", "thorough"])
    args = ap.parse_args()
    seed = int(os.environ.get("VERIF_SEED", "0") or 0)
    prop = args.prop.upper()
    res = Result(prop, args.tier, seed)
    try:
        mod = importlib.import_module(prop.lower())
        mod.run(res, args.tier)
    except Exception as e:  # machinery failure is inconclusive, never a pass
        traceback.print_exc()
        res.inconclusive.append("driver exception: %r" % (e,))
    sys.exit(res.finish())


if __name__ == "__main__":
    main()
