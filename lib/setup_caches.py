import os, subprocess, sys
sys.path.insert(0, os.path.dirname(os.path.abspath(__file__)))
from vcommon import ENV, KANI_TARGET, build_overlay, log
import kani
ov, h, ch = build_overlay("setup", [])
log("overlay", ov, h)
p = subprocess.run(kani.base_cmd() + ["--only-codegen"], cwd=ov, env=ENV,
                   stdout=subprocess.PIPE, stderr=subprocess.STDOUT, text=True)
log(p.stdout[-800:])
try:
    import mir
    mir.dump_mir(force=False)
except Exception as e:  # noqa
    log("MIR cache not built:", e)
sys.exit(0)
