"""M engine: symbolic execution of rustc MIR (text dump) with z3.

The MIR is dumped from an overlay copy of /repo's current working tree with the
nightly toolchain (`-Zunpretty=mir`) and cached by the SHA-256 of the source
tree, so an edited tree is always re-dumped.  Functions are parsed into basic
blocks; a path-forking interpreter executes them over a symbolic store.  Calls
without a model havoc their destination and are recorded as *events*; a small
library of models covers std glue (Try::branch, Option/Result helpers, integer
comparisons, Deref, Clone, fmt/log no-ops).  Specs ask questions about the
feasible paths (event order, return value, relations between symbolic values).
"""
import hashlib
import os
import re
import subprocess
import sys
import time

import z3

from vcommon import ENV, MIR_TARGET, REPO, WORK, build_overlay, log

MIR_DIR = os.path.join(WORK, "mir")

INT_TYPES = {
    "u8": (8, False), "u16": (16, False), "u32": (32, False), "u64": (64, False),
    "u128": (128, False), "usize": (64, False),
    "i8": (8, True), "i16": (16, True), "i32": (32, True), "i64": (64, True),
    "i128": (128, True), "isize": (64, True), "char": (32, False),
}

BUILTIN_ENUMS = {
    "Option": ["None", "Some"],
    "Result": ["Ok", "Err"],
    "ControlFlow": ["Continue", "Break"],
    "Poll": ["Ready", "Pending"],
    "Ordering": ["Less", "Equal", "Greater"],
    "Cow": ["Borrowed", "Owned"],
    "IpAddr": ["V4", "V6"],
    "Level": ["Error", "Warn", "Info", "Debug", "Trace"],
    "LevelFilter": ["Off", "Error", "Warn", "Info", "Debug", "Trace"],
    "RecvTimeoutError": ["Timeout", "Disconnected"],
    "TryRecvError": ["Empty", "Disconnected"],
    "Bound": ["Included", "Excluded", "Unbounded"],
}
ORDERING_VALUES = {"Less": -1, "Equal": 0, "Greater": 1}


# --------------------------------------------------------------------------
# MIR dump (cached by source-tree hash)
# --------------------------------------------------------------------------

def dump_mir(force=False):
    from vcommon import overlay_lock
    with overlay_lock("mir"):
        return _dump_mir(force)


def _dump_mir(force=False):
    ov, tree_hash, _ = build_overlay("mir", [])
    os.makedirs(MIR_DIR, exist_ok=True)
    out = os.path.join(MIR_DIR, "lib-%s.mir" % tree_hash[:24])
    if os.path.exists(out) and os.path.getsize(out) > 100000 and not force \
            and not os.environ.get("VERIF_NO_CACHE"):
        return out, tree_hash, 0.0
    t0 = time.time()
    # touching lib.rs forces rustc to run again (cargo would otherwise reuse
    # the previous, output-less, compilation)
    os.utime(os.path.join(ov, "src", "lib.rs"), None)
    cmd = ["cargo", "+nightly", "rustc", "--offline", "--lib", "--no-default-features",
           "--target-dir", MIR_TARGET, "--", "-Zunpretty=mir",
           "-C", "debug-assertions=off", "-C", "overflow-checks=on"]
    env = dict(ENV)
    tmp = out + ".%d.tmp" % os.getpid()
    with open(tmp, "w") as f:
        p = subprocess.run(cmd, cwd=ov, env=env, stdout=f, stderr=subprocess.PIPE, text=True)
    if p.returncode != 0 or os.path.getsize(tmp) < 100000:
        try:
            os.remove(tmp)
        except OSError:
            pass
        raise RuntimeError("MIR dump failed: " + p.stderr[-2000:])
    os.replace(tmp, out)
    # keep only the eight newest dumps
    dumps = sorted((os.path.getmtime(os.path.join(MIR_DIR, f)), f)
                   for f in os.listdir(MIR_DIR) if f.startswith("lib-") and f.endswith(".mir"))
    for _, f in dumps[:-8]:
        os.remove(os.path.join(MIR_DIR, f))
    return out, tree_hash, time.time() - t0


# --------------------------------------------------------------------------
# Text utilities
# --------------------------------------------------------------------------

def split_top(s, sep=","):
    """Split at top-level separators (outside brackets, angle brackets, strings)."""
    out, cur = [], []
    depth = 0
    angle = 0
    i, n = 0, len(s)
    while i < n:
        c = s[i]
        if c == '"':
            j = i + 1
            while j < n and s[j] != '"':
                if s[j] == "\\":
                    j += 1
                j += 1
            cur.append(s[i:j + 1])
            i = j + 1
            continue
        if c == "'" and i + 2 < n and (s[i + 2] == "'" or (s[i + 1] == "\\" and "'" in s[i + 2:i + 8])):
            # char literal
            j = s.index("'", i + 2 if s[i + 1] != "\\" else i + 3)
            cur.append(s[i:j + 1])
            i = j + 1
            continue
        if c in "([{":
            depth += 1
        elif c in ")]}":
            depth -= 1
        elif c == "<":
            angle += 1
        elif c == ">":
            if i > 0 and s[i - 1] == "-":
                pass
            elif angle > 0:
                angle -= 1
        if c == sep and depth == 0 and angle == 0:
            out.append("".join(cur).strip())
            cur = []
        else:
            cur.append(c)
        i += 1
    last = "".join(cur).strip()
    if last:
        out.append(last)
    return out


def strip_generics(name):
    """Remove <...> groups (including ::<...>) from a path for event naming."""
    out = []
    angle = 0
    i = 0
    while i < len(name):
        c = name[i]
        if c == "<":
            angle += 1
        elif c == ">" and not (i > 0 and name[i - 1] == "-"):
            angle -= 1
        elif angle == 0:
            out.append(c)
        i += 1
    s = "".join(out)
    s = s.replace("::::", "::")
    while s.endswith("::"):
        s = s[:-2]
    return s.strip(":")


def event_name(callee):
    """Readable, generics-free name of a callee: `<T as Trait>::m` -> `Trait::m`."""
    c = callee.strip()
    if c.startswith("<"):
        # find the matching '>' of the leading '<'
        d = 0
        for i, ch in enumerate(c):
            if ch == "<":
                d += 1
            elif ch == ">" and not (i > 0 and c[i - 1] == "-"):
                d -= 1
                if d == 0:
                    inner, rest = c[1:i], c[i + 1:]
                    parts = split_as(inner)
                    if parts:
                        tr = strip_generics(parts[1]).split("::")[-1]
                        return tr + "::" + strip_generics(rest)
                    return strip_generics(inner).split("::")[-1] + "::" + strip_generics(rest)
    return strip_generics(c)


def split_as(inner):
    """Split 'T as Trait' at the top-level ' as '."""
    d = 0
    for i, ch in enumerate(inner):
        if ch in "<([{":
            d += 1
        elif ch in ")]}":
            d -= 1
        elif ch == ">" and not (i > 0 and inner[i - 1] == "-"):
            d -= 1
        elif d == 0 and inner[i:i + 4] == " as ":
            return inner[:i], inner[i + 4:]
    return None


def find_call_split(t):
    """For 'callee(args)' return (callee, args_string). Handles <..(..)..>::f(a)."""
    angle = 0
    brace = 0
    i = 0
    n = len(t)
    while i < n:
        c = t[i]
        if c == "<":
            angle += 1
        elif c == ">" and not (i > 0 and t[i - 1] == "-"):
            angle -= 1
        elif c == "{":
            brace += 1
        elif c == "}":
            brace -= 1
        elif c == "(" and angle == 0 and brace == 0:
            # find matching paren
            depth = 0
            j = i
            instr = False
            while j < n:
                d = t[j]
                if instr:
                    if d == "\\":
                        j += 1
                    elif d == '"':
                        instr = False
                elif d == '"':
                    instr = True
                elif d == "(":
                    depth += 1
                elif d == ")":
                    depth -= 1
                    if depth == 0:
                        return t[:i], t[i + 1:j], t[j + 1:]
                j += 1
            return None
        i += 1
    return None


# --------------------------------------------------------------------------
# Parsing
# --------------------------------------------------------------------------

class Body:
    def __init__(self, name, sig_args, ret, text, line):
        self.name = name
        self.args = sig_args          # [(local, type)]
        self.ret = ret
        self.line = line
        self.types = {}
        self.blocks = {}
        self.debug = {}
        self._text = text
        self._parsed = False

    def parse(self):
        if self._parsed:
            return self
        self._parsed = True
        for a, t in self.args:
            self.types[a] = t
        cur = None
        for raw in self._text.split("\n"):
            l = raw.strip()
            if not l:
                continue
            m = re.match(r"^let (?:mut )?(_\d+): (.*);$", l)
            if m and cur is None:
                self.types[m.group(1)] = m.group(2)
                continue
            m = re.match(r"^debug (\S+) => (.*);$", l)
            if m and cur is None:
                self.debug[m.group(1)] = m.group(2)
                continue
            m = re.match(r"^(bb\d+)( \(cleanup\))?: \{$", l)
            if m:
                cur = m.group(1)
                self.blocks[cur] = {"cleanup": bool(m.group(2)), "stmts": []}
                continue
            if l == "}" and cur is not None and raw.startswith("    }"):
                cur = None
                continue
            if cur is not None:
                self.blocks[cur]["stmts"].append(l)
        self._text = None
        return self


class Program:
    def __init__(self, path):
        self.path = path
        self.bodies = {}        # name -> [Body]
        self.by_last = {}       # last segment -> [Body]
        self.closure_by_loc = {}
        self.impl_self = {}     # "src/x.rs:LINE" -> header text
        self.promoted = {}      # index -> [(base name, Body)]
        self._load(path)
        self.enums = dict(BUILTIN_ENUMS)
        self._scrape_enums()

    def _load(self, path):
        src = open(path).read()
        hdr = re.compile(r"^fn (.+?)\((.*)\) -> (.+?) \{$", re.M)
        pos = [(m.start(), m) for m in hdr.finditer(src)]
        for idx, (start, m) in enumerate(pos):
            end = src.find("\n}\n", m.end())
            text = src[m.end():end]
            name = m.group(1)
            args = []
            for a in split_top(m.group(2)):
                mm = re.match(r"^(_\d+): (.*)$", a)
                if mm:
                    args.append((mm.group(1), mm.group(2)))
            b = Body(name, args, m.group(3), text, src.count("\n", 0, start) + 1)
            self.bodies.setdefault(name, []).append(b)
            last = name.split("::")[-1]
            if last.startswith("{closure#") or last.startswith("{coroutine"):
                if args:
                    mm = re.search(r"\{(?:closure|async fn body|async block|async closure|coroutine)[^@]*@([^}]*)\}", args[0][1])
                    if mm:
                        self.closure_by_loc[mm.group(1)] = b
            self.by_last.setdefault(last, []).append(b)
        for m in re.finditer(r"^const (.+?)::promoted\[(\d+)\]: (.+?) = \{$", src, re.M):
            end = src.find("\n}\n", m.end())
            b = Body(m.group(1) + "::promoted[%s]" % m.group(2), [], m.group(3), src[m.end():end], 0)
            self.promoted.setdefault(int(m.group(2)), []).append((m.group(1), b))

    def find_promoted(self, frame_body_name, idx):
        for base, b in self.promoted.get(idx, []):
            if frame_body_name == base or frame_body_name.endswith("::" + base) or base.endswith("::" + frame_body_name):
                return b.parse()
        return None

    def _scrape_enums(self):
        srcdir = os.path.join(REPO, "src")
        for dp, dn, fn in os.walk(srcdir):
            for f in fn:
                if not f.endswith(".rs"):
                    continue
                txt = open(os.path.join(dp, f)).read()
                for m0 in re.finditer(r"\benum\s+(\w+)\b", txt):
                    name = m0.group(1)
                    ob = txt.find("{", m0.end())
                    semi = txt.find(";", m0.end())
                    if ob < 0 or (0 <= semi < ob) or ob - m0.end() > 300:
                        continue

                    class _M:
                        def end(self_inner):
                            return ob + 1
                    m = _M()
                    # find matching brace
                    i = m.end()
                    depth = 1
                    while i < len(txt) and depth:
                        if txt[i] == "{":
                            depth += 1
                        elif txt[i] == "}":
                            depth -= 1
                        i += 1
                    body = txt[m.end():i - 1]
                    body = re.sub(r"//[^\n]*", "", body)
                    body = re.sub(r"#\[[^\]]*\]", "", body)
                    variants = []
                    for part in split_top(body):
                        mm = re.match(r"^(\w+)", part.strip())
                        if mm:
                            variants.append(mm.group(1))
                    if variants and name not in BUILTIN_ENUMS:
                        self.enums[name] = variants

    # ---- lookup ---------------------------------------------------------
    def impl_header(self, body_name):
        m = re.search(r"<impl at (src/[^:]+):(\d+):\d+: \d+:\d+>", body_name)
        if not m:
            return None
        key = "%s:%s" % (m.group(1), m.group(2))
        if key not in self.impl_self:
            try:
                lines = open(os.path.join(REPO, m.group(1))).read().split("\n")
                hdr = " ".join(lines[int(m.group(2)) - 1:int(m.group(2)) + 3])
                hdr = hdr.split("{")[0]
            except Exception:
                hdr = ""
            self.impl_self[key] = hdr
        return self.impl_self[key]

    def self_type(self, body_name):
        h = self.impl_header(body_name)
        if not h:
            return None
        h2 = re.sub(r"^\s*(?:unsafe\s+)?impl\s*(<.*?>)?\s*", "", _strip_angle(h).strip())
        h = _strip_angle(h)
        m = re.match(r"^\s*(?:unsafe\s+)?impl\s+(?:(.+?)\s+for\s+)?([\w:]+)", h)
        if m:
            return m.group(2).split("::")[-1], (m.group(1).split("::")[-1].strip() if m.group(1) else None)
        return None

    def find(self, file=None, self_type=None, method=None, closure=None, trait=None):
        """Find a body by source file of its impl, self type name and method."""
        cands = []
        for b in self.by_last.get(method if closure is None else "{closure#%d}" % closure, []):
            if closure is not None:
                if "::%s::{closure#%d}" % (method, closure) not in b.name:
                    continue
            if file and ("<impl at %s:" % file) not in b.name:
                # free function: module path derived from file
                mod = file[len("src/"):-3].replace("/", "::").replace("::mod", "")
                if not (b.name.startswith(mod + "::") and "<impl" not in b.name):
                    continue
            if self_type or trait:
                st = self.self_type(b.name)
                if not st:
                    continue
                if self_type and st[0] != self_type:
                    continue
                if trait and st[1] != trait:
                    continue
            cands.append(b)
        if len(cands) != 1:
            raise LookupError("find(%r,%r,%r,closure=%r,trait=%r): %d candidates: %s" % (
                file, self_type, method, closure, trait, len(cands), [c.name for c in cands][:6]))
        return cands[0].parse()

    def find_name(self, name):
        """Find a body by its exact MIR item name (e.g. a provided trait method `Trait::method`)."""
        c = self.bodies.get(name, [])
        if len(c) != 1:
            raise LookupError("find_name(%r): %d candidates" % (name, len(c)))
        return c[0].parse()

    def resolve_callee(self, callee):
        """Map a call-site callee path to a Body if it is a crate function."""
        c = callee.strip()
        plain = strip_generics(c)
        # closure types: <{closure@loc} as FnOnce<..>>::call_once
        # trait-qualified: <T as Trait>::m
        m = re.match(r"^<(.+) as (.+)>::(\w+)$", c)
        if m:
            ty = strip_generics(m.group(1)).split("::")[-1].strip("&' ")
            tr = strip_generics(m.group(2)).split("::")[-1]
            meth = m.group(3)
            cands = [b for b in self.by_last.get(meth, [])
                     if self.self_type(b.name) and self.self_type(b.name)[0] == ty
                     and self.self_type(b.name)[1] == tr]
            if len(cands) == 1:
                return cands[0].parse()
            return None
        segs = plain.split("::")
        meth = segs[-1]
        cands = self.by_last.get(meth, [])
        if len(segs) >= 2:
            ty = segs[-2]
            c2 = [b for b in cands if self.self_type(b.name) and self.self_type(b.name)[0] == ty
                  and self.self_type(b.name)[1] is None]
            if len(c2) == 1:
                return c2[0].parse()
            if len(c2) > 1:
                # disambiguate by module prefix
                pre = "::".join(segs[:-2])
                c3 = [b for b in c2 if b.name.startswith(pre)] if pre else c2
                if len(c3) == 1:
                    return c3[0].parse()
                return None
        # free function: exact plain name
        c2 = [b for b in cands if strip_generics(b.name) == plain or
              strip_generics(b.name).endswith("::" + plain)]
        c2 = [b for b in c2 if "<impl" not in b.name]
        if len(c2) == 1:
            return c2[0].parse()
        return None


def _strip_angle(s):
    out = []
    d = 0
    for i, c in enumerate(s):
        if c == "<":
            d += 1
        elif c == ">" and not (i > 0 and s[i - 1] == "-"):
            d -= 1
        elif d == 0:
            out.append(c)
    return "".join(out)


# --------------------------------------------------------------------------
# Values
# --------------------------------------------------------------------------

class Opq:
    """Opaque symbolic object (identity only)."""
    __slots__ = ("id", "ty", "origin")
    _n = [0]

    registry = {}

    def __init__(self, ty="", origin=""):
        Opq._n[0] += 1
        self.id = Opq._n[0]
        self.ty = ty or ""
        self.origin = origin
        Opq.registry[self.id] = self

    def __repr__(self):
        return "Opq#%d<%s>%s" % (self.id, self.ty[:30], ("@" + self.origin) if self.origin else "")


class Ref:
    __slots__ = ("loc", "mut")

    def __init__(self, loc, mut=False):
        self.loc = loc
        self.mut = mut

    def __repr__(self):
        return "Ref(%s)" % (self.loc,)


class Closure:
    __slots__ = ("loc",)

    def __init__(self, loc):
        self.loc = loc

    def __repr__(self):
        return "Closure(%s)" % self.loc


class Str:
    __slots__ = ("s",)

    def __init__(self, s):
        self.s = s

    def __repr__(self):
        return "Str(%r)" % self.s


def is_z(v):
    return isinstance(v, z3.ExprRef)


def generic_args(ty):
    """Top-level generic arguments of a type: 'Result<bool, Failed>' -> ['bool', 'Failed']."""
    ty = (ty or "").strip()
    i = ty.find("<")
    if i < 0 or not ty.endswith(">"):
        return []
    return [a for a in split_top(ty[i + 1:-1]) if not a.startswith("'")]


def variant_payload_type(ty, variant, idx=0):
    head = type_head(base_type(ty or ""))
    ga = generic_args(ty)
    if head == "Result" and len(ga) == 2:
        return ga[0] if variant == "Ok" else ga[1]
    if head in ("Option", "Poll") and ga and variant in ("Some", "Ready"):
        return ga[0]
    if head == "ControlFlow" and len(ga) == 2:
        return ga[1] if variant == "Continue" else ga[0]
    return None


def base_type(ty):
    ty = ty.strip()
    ty = re.sub(r"^(std|core|alloc)::[\w:]*::(\w+)", r"\2", ty)
    return ty


def type_head(ty):
    ty = ty.strip()
    m = re.match(r"^([\w:]+)", ty)
    if not m:
        return ty
    return m.group(1).split("::")[-1]


_EVENT_NAMES = set() if os.environ.get("VERIF_DUMP_EVENTS") else None
if _EVENT_NAMES is not None:
    import atexit

    def _dump_event_names():
        with open(os.environ["VERIF_DUMP_EVENTS"], "w") as f:
            for k, n in sorted(_EVENT_NAMES):
                f.write("%s %s\n" % (k, n))
    atexit.register(_dump_event_names)


class Event:
    __slots__ = ("name", "args", "dest", "where", "kind", "callee")

    def __init__(self, name, args, dest, where, kind="call", callee=""):
        if _EVENT_NAMES is not None:
            _EVENT_NAMES.add((kind, name))
        self.name = name
        self.args = args
        self.dest = dest
        self.where = where
        self.kind = kind
        self.callee = callee

    def __repr__(self):
        return "%s%s" % (self.name, "" if self.kind == "call" else "[" + self.kind + "]")


class State:
    def __init__(self):
        self.mem = {}
        self.cond = []
        self.events = []
        self.frames = []
        self.visits = {}
        self.trace = []
        self.memo = {}
        self.writes = []       # (location, index into events) of writes to non-local memory
        self.reads = []        # (location, index into events) of field reads of non-local memory

    def fork(self):
        s = State()
        s.mem = dict(self.mem)
        s.cond = list(self.cond)
        s.events = list(self.events)
        s.frames = [dict(f) for f in self.frames]
        s.visits = dict(self.visits)
        s.trace = list(self.trace)
        s.memo = dict(self.memo)
        s.writes = list(self.writes)
        s.reads = list(self.reads)
        return s


class Path:
    def __init__(self, st, ret, kind):
        self.cond = st.cond
        self.events = st.events
        self.ret = ret          # value dict of _0
        self.kind = kind        # 'return' | 'panic' | 'bound' | 'diverge'
        self.trace = st.trace
        self.mem = st.mem
        self.writes = st.writes
        self.reads = st.reads
        self.memo = st.memo

    def names(self):
        return [e.name for e in self.events]

    def has(self, pat):
        return any(re.search(pat, e.name) for e in self.events)

    def index(self, pat, start=0):
        for i in range(start, len(self.events)):
            if re.search(pat, self.events[i].name):
                return i
        return -1

    def ret_disc(self):
        return self.ret.get(("disc",))


class Inconclusive(Exception):
    pass


# --------------------------------------------------------------------------
# Interpreter
# --------------------------------------------------------------------------

NOOP_CALLEES = [
    r"^core::fmt::", r"^Arguments::<'_>::", r"^Arguments::", r"^core::fmt::rt::Argument",
    r"^log::__private_api::", r"^std::fmt::", r"^format\b", r"^alloc::fmt::format",
    r"^std::intrinsics::", r"^core::intrinsics::", r"^<.* as Debug>::fmt", r"^<.* as std::fmt::Display>::fmt",
    r"^LogBookWriter::", r"^log::LogBookWriter::",
]
LOG_LEVEL_CMP = re.compile(r"^<(log::)?Level(Filter)? as PartialOrd<(log::)?Level(Filter)?>>::(le|ge|lt|gt)$")


class Engine:
    def __init__(self, program=None, res=None):
        if program is None:
            path, tree_hash, dt = dump_mir()
            program = Program(path)
            program.tree_hash = tree_hash
            program.dump_time = dt
        self.prog = program
        self.solver = z3.Solver()
        self.solver.set("timeout", 20000)
        self.queries = 0
        self.solver_time = 0.0
        self.facts = set()
        self.fresh_n = 0
        self.res = res
        # configuration (set per explore call)
        self.inline = []
        self.pure = []
        self.noop = list(NOOP_CALLEES)
        self.max_visits = 2
        self.max_paths = 20000
        self.log_enabled = False
        self.follow_panics = False
        self.models = {}
        self.ord_vars = {}
        self.keep_drop_events = False
        self.max_depth = 6

    # ---- solver helpers -------------------------------------------------
    def feasible(self, cond, extra=None):
        self.queries += 1
        t0 = time.time()
        self.solver.push()
        try:
            for c in cond:
                self.solver.add(c)
            if extra is not None:
                self.solver.add(extra)
            r = self.solver.check()
        finally:
            self.solver.pop()
        self.solver_time += time.time() - t0
        if r == z3.unknown:
            raise Inconclusive("z3 returned unknown: %s" % self.solver.reason_unknown())
        return r == z3.sat

    def model(self, cond, extra=None):
        self.queries += 1
        self.solver.push()
        try:
            for c in cond:
                self.solver.add(c)
            if extra is not None:
                self.solver.add(extra)
            r = self.solver.check()
            if r == z3.sat:
                return self.solver.model()
            if r == z3.unknown:
                raise Inconclusive("z3 returned unknown")
            return None
        finally:
            self.solver.pop()

    def fact(self, name, expr):
        if name not in self.facts:
            self.facts.add(name)
            self.solver.add(expr)

    # ---- fresh values by type -------------------------------------------
    def fresh_leaf(self, ty, origin):
        ty = (ty or "").strip()
        self.fresh_n += 1
        nm = "%s!%d" % (re.sub(r"[^\w.*#]", "_", origin)[:60], self.fresh_n)
        if ty == "bool":
            return z3.Bool(nm)
        if ty in INT_TYPES:
            return z3.BitVec(nm, INT_TYPES[ty][0])
        return Opq(ty, origin)

    def variants_of(self, ty):
        head = type_head(base_type(ty or ""))
        return self.prog.enums.get(head)

    def fresh_disc(self, ty, origin):
        self.fresh_n += 1
        nm = "disc_%s!%d" % (re.sub(r"[^\w.*#]", "_", origin)[:60], self.fresh_n)
        v = z3.Int(nm)
        vs = self.variants_of(ty)
        if vs:
            if type_head(base_type(ty)) == "Ordering":
                self.fact(nm, z3.And(v >= -1, v <= 1))
            else:
                self.fact(nm, z3.And(v >= 0, v < len(vs)))
        else:
            self.fact(nm, v >= 0)
        return v

    # ---- memory -----------------------------------------------------------
    def _redirect(self, st, loc):
        """Follow opaque leaves on proper prefixes of loc."""
        for _ in range(20):
            changed = False
            for k in range(len(loc) - 1, 0, -1):
                leaf = st.mem.get(loc[:k])
                if leaf is None:
                    continue
                rest = loc[k:]
                if isinstance(leaf, Opq):
                    loc = (("o", leaf.id),) + rest
                    changed = True
                    break
                if isinstance(leaf, Ref) and rest and rest[0] == "deref":
                    loc = leaf.loc + rest[1:]
                    changed = True
                    break
                if is_z(leaf) or isinstance(leaf, (Str, Closure)):
                    # projection into a scalar: newtype field 0 == the scalar
                    if all(r == ("f", 0) for r in rest):
                        return loc[:k]
                    return loc
                break
            if not changed:
                return loc
        return loc

    def load(self, st, loc, ty=None):
        loc = self._redirect(st, loc)
        if loc and isinstance(loc[0], tuple) and loc[0][0] == "o" and len(loc) >= 3:
            st.reads.append((loc, len(st.events)))
        n = len(loc)
        out = {}
        for k, v in st.mem.items():
            if len(k) >= n and k[:n] == loc:
                out[k[n:]] = v
        if not out:
            if ty is None:
                ty = self.infer_type(st, loc)
            leaf = self.fresh_leaf(ty, self._locname(loc))
            st.mem[loc] = leaf
            out = {(): leaf}
        return out

    def infer_type(self, st, loc):
        """Type of a lazily created enum payload inside a typed opaque value."""
        if len(loc) >= 3 and isinstance(loc[-1], tuple) and loc[-1][0] == "f" \
                and isinstance(loc[-2], tuple) and loc[-2][0] == "v":
            parent = loc[:-2]
            pty = None
            if len(parent) == 1 and isinstance(parent[0], tuple) and parent[0][0] == "o":
                o = Opq.registry.get(parent[0][1])
                pty = o.ty if o else None
            else:
                leaf = st.mem.get(parent)
                if isinstance(leaf, Opq):
                    pty = leaf.ty
            if pty:
                return variant_payload_type(pty, loc[-2][1], loc[-1][1])
        return None

    def load_leaf(self, st, loc, ty=None):
        d = self.load(st, loc, ty)
        if () in d:
            return d[()]
        # aggregate without root leaf
        return None

    def load_disc(self, st, loc, ty=None):
        loc = self._redirect(st, loc)
        key = loc + ("disc",)
        key = self._redirect(st, key)
        if key in st.mem:
            return st.mem[key]
        # root leaf might be an Opq: redirect handles it; now create
        if ty is None:
            leaf = st.mem.get(loc)
            if isinstance(leaf, Opq):
                ty = leaf.ty
        v = self.fresh_disc(ty or "", self._locname(loc))
        st.mem[key] = v
        return v

    def store(self, st, loc, val):
        loc = self._redirect(st, loc)
        if loc and isinstance(loc[0], tuple) and loc[0][0] == "o":
            st.writes.append((loc, len(st.events)))
        n = len(loc)
        for k in [k for k in st.mem if len(k) >= n and k[:n] == loc]:
            del st.mem[k]
        for k, v in val.items():
            st.mem[loc + k] = v

    def havoc(self, st, loc, ty=None, keep_shared_refs=True):
        loc = self._redirect(st, loc)
        if loc and isinstance(loc[0], tuple) and loc[0][0] == "o":
            st.writes.append((loc, len(st.events)))
        n = len(loc)
        for k in [k for k in st.mem if len(k) >= n and k[:n] == loc]:
            v = st.mem[k]
            if keep_shared_refs and len(k) > n and (
                    (isinstance(v, Opq) and v.ty.startswith("&") and not v.ty.startswith("&mut"))
                    or (isinstance(v, Ref) and not v.mut)):
                continue
            del st.mem[k]

    def _locname(self, loc):
        parts = []
        for p in loc:
            if isinstance(p, tuple):
                if p[0] == "o":
                    parts.append("o%d" % p[1])
                elif p[0] == "f":
                    parts.append(".%s" % p[1])
                elif p[0] == "v":
                    parts.append("as%s" % p[1])
                else:
                    parts.append(str(p))
            else:
                parts.append(str(p))
        return "".join(parts)

    # ---- place / operand parsing ------------------------------------------
    def parse_place(self, st, s, frame):
        """Return (loc, type_hint) for a MIR place expression."""
        s = s.strip()
        ty = None
        # strip outer parens with type annotation: (P: T)
        while s.startswith("(") and s.endswith(")") and _matching(s, 0) == len(s) - 1:
            inner = s[1:-1]
            parts = _split_type_annot(inner)
            if parts:
                s, ty2 = parts
                s = s.strip()
                # this is a projection ".N" applied inside: (P.N: T) ; handled below
                if ty is None:
                    ty = ty2
                # the annotated form is "(base.N: T)" -> base.N
                return self._parse_place_noannot(st, s, frame, ty)
            m = re.match(r"^(.*) as ([\w#]+)$", inner)
            if m and not inner.startswith("*"):
                base, _ = self.parse_place(st, m.group(1), frame)
                return base + (("v", m.group(2)),), None
            if inner.startswith("*"):
                base, bty = self.parse_place(st, inner[1:], frame)
                return self._deref(st, base, bty)
            s = inner
        return self._parse_place_noannot(st, s, frame, ty)

    def _parse_place_noannot(self, st, s, frame, ty):
        s = s.strip()
        m = re.match(r"^_(\d+)$", s)
        if m:
            return (frame["id"] + ":" + s,), frame["body"].types.get(s)
        if s.startswith("*"):
            base, bty = self.parse_place(st, s[1:], frame)
            return self._deref(st, base, bty)
        # trailing projections: .N  or [..]
        m = re.match(r"^(.*)\.(\d+)$", s)
        if m and _balanced(m.group(1)):
            base, _ = self.parse_place(st, m.group(1), frame)
            return base + (("f", int(m.group(2))),), ty
        m = re.match(r"^(.*)\[(.*)\]$", s)
        if m and _balanced(m.group(1)):
            base, _ = self.parse_place(st, m.group(1), frame)
            idx = m.group(2)
            mm = re.match(r"^_(\d+)$", idx)
            if mm:
                iv = self.load_leaf(st, (frame["id"] + ":" + idx,), frame["body"].types.get(idx))
                if is_z(iv):
                    iv = z3.simplify(iv)
                    if z3.is_bv_value(iv):
                        return base + (("i", iv.as_long()),), ty
                return base + (("i", "?" + str(iv)),), ty
            mm = re.match(r"^(\d+) of \d+$", idx)
            if mm:
                return base + (("i", int(mm.group(1))),), ty
            return base + (("i", idx),), ty
        if s.startswith("(") and s.endswith(")"):
            return self.parse_place(st, s, frame)
        raise ValueError("cannot parse place %r" % s)

    def _deref(self, st, base, bty):
        leaf = self.load_leaf(st, base, bty)
        pty = None
        if bty:
            pty = re.sub(r"^&('\w+ )?(mut )?", "", bty.strip())
            pty = re.sub(r"^\*(const|mut) ", "", pty)
            if pty.startswith("Box<") or pty.startswith("std::boxed::Box<"):
                pty = None
        if isinstance(leaf, Ref):
            return leaf.loc, pty
        if isinstance(leaf, Opq):
            return (("o", leaf.id), "deref"), pty
        return base + ("deref",), pty

    def eval_const(self, s, ty_hint=None):
        s = s.strip()
        for pat, val in getattr(self, "const_models", {}).items():
            if re.search(pat, s):
                return dict(val) if isinstance(val, dict) else {(): val}
        if s in ("true", "false"):
            return {(): z3.BoolVal(s == "true")}
        m = re.match(r"^(-?\d+)_([ui](?:8|16|32|64|128|size))$", s)
        if m:
            bits = INT_TYPES[m.group(2)][0]
            return {(): z3.BitVecVal(int(m.group(1)), bits)}
        m = re.match(r"^'(.*)'$", s)
        if m and len(m.group(1)) >= 1:
            ch = m.group(1)
            try:
                cp = ord(bytes(ch, "utf-8").decode("unicode_escape")) if ch.startswith("\\") else ord(ch)
                return {(): z3.BitVecVal(cp, 32)}
            except Exception:
                pass
        if s == "()":
            return {(): Str("()")}
        if s.startswith('"') or s.startswith('b"'):
            return {(): Str(s)}
        # enum constants: Path::Variant or Path::Variant(args)
        r = self._enum_const(s)
        if r is not None:
            return r
        m = re.match(r"^(\d+(\.\d+)?)_?f(32|64)$", s)
        return {(): Opq(ty_hint or "const", "const " + s[:40])}

    def _enum_const(self, s):
        cs = find_call_split(s)
        path, args = (s, None)
        if cs and cs[2].strip() == "":
            path, args = cs[0], cs[1]
        segs = strip_generics(path).split("::")
        if len(segs) >= 2 and segs[-2] in self.prog.enums and segs[-1] in self.prog.enums[segs[-2]]:
            vs = self.prog.enums[segs[-2]]
            if segs[-2] == "Ordering":
                d = ORDERING_VALUES[segs[-1]]
            else:
                d = vs.index(segs[-1])
            out = {("disc",): z3.IntVal(d)}
            if args is not None:
                for i, a in enumerate(split_top(args)):
                    sub = self.eval_const(a.replace("const ", "", 1) if a.startswith("const ") else a)
                    for k, v in sub.items():
                        out[(("v", segs[-1]), ("f", i)) + k] = v
            return out
        return None

    def eval_operand(self, st, s, frame, ty_hint=None):
        s = s.strip()
        if s.startswith("const "):
            m = re.search(r"::promoted\[(\d+)\]$", s)
            if m:
                pb = self.prog.find_promoted(frame["body"].name, int(m.group(1)))
                if pb is not None and list(pb.blocks) == ["bb0"]:
                    key = ("promoted", pb.name)
                    if key not in st.memo:
                        pf = {"id": "P%d" % abs(hash(pb.name)) , "body": pb, "dest": None, "ret_bb": None}
                        for stmt in pb.blocks["bb0"]["stmts"][:-1]:
                            self.exec_stmt(st, stmt, pf)
                        st.memo[key] = dict(self.load(st, (pf["id"] + ":_0",), pb.ret))
                    return dict(st.memo[key])
            return self.eval_const(s[6:], ty_hint)
        m = re.match(r"^(?:no_retag )?(copy|move) (.*)$", s)
        if m:
            loc, ty = self.parse_place(st, m.group(2), frame)
            return dict(self.load(st, loc, ty or ty_hint))
        raise ValueError("cannot parse operand %r" % s)

    def leaf_of(self, val):
        return val.get(())

    # ---- rvalues -------------------------------------------------------------
    def eval_rvalue(self, st, rv, frame, dest_ty):
        rv = rv.strip()
        if rv.startswith("no_retag "):
            rv = rv[9:]
        if rv.startswith("const ") or re.match(r"^(copy|move) ", rv):
            m = re.match(r"^((?:copy|move) .*?) as (.+?) \((\w+)(\(.*\))?\)$", rv)
            if m and " as " in rv and rv.endswith(")") and not rv.startswith("const "):
                return self.eval_cast(st, m.group(1), m.group(2), m.group(3), frame)
            m = re.match(r"^(const .*?) as (.+?) \((\w+)(\(.*\))?\)$", rv)
            if m:
                return self.eval_cast(st, m.group(1), m.group(2), m.group(3), frame)
            return self.eval_operand(st, rv, frame, dest_ty)
        m = re.match(r"^&(raw )?(mut |const )?(.*)$", rv)
        if m and not rv.startswith("&&"):
            loc, ty = self.parse_place(st, m.group(3), frame)
            loc = self._redirect(st, loc)
            return {(): Ref(loc, (m.group(2) or "").strip() == "mut")}
        m = re.match(r"^discriminant\((.*)\)$", rv)
        if m:
            loc, ty = self.parse_place(st, m.group(1), frame)
            return {(): self.load_disc(st, loc, ty)}
        m = re.match(r"^(\w+)\((.*)\)$", rv)
        if m and m.group(1) in UNOPS:
            a = self.leaf_of(self.eval_operand(st, m.group(2), frame))
            return {(): self.unop(m.group(1), a, dest_ty)}
        if m and m.group(1) in BINOPS:
            ops = split_top(m.group(2))
            a = self.leaf_of(self.eval_operand(st, ops[0], frame))
            b = self.leaf_of(self.eval_operand(st, ops[1], frame))
            return self.binop(st, m.group(1), a, b, dest_ty, frame, ops)
        m = re.match(r"^(Len|PtrMetadata|CopyForDeref|ShallowInitBox|SizeOf|AlignOf)\((.*)\)$", rv)
        if m:
            if m.group(1) == "CopyForDeref":
                loc, ty = self.parse_place(st, m.group(2), frame)
                return dict(self.load(st, loc, ty))
            if m.group(1) in ("PtrMetadata", "Len"):
                try:
                    v = self.eval_operand(st, m.group(2), frame) if m.group(1) == "PtrMetadata" else \
                        dict(self.load(st, *self.parse_place(st, m.group(2), frame)))
                    if ("nbv",) in v:        # symbolic slice whose length is a 64-bit term
                        return {(): v[("nbv",)]}
                    r0 = v.get(())
                    if isinstance(r0, Ref) and len(r0.loc) == 2 and r0.loc[1] == "deref" and isinstance(r0.loc[0], tuple) \
                            and r0.loc[0][0] == "o":
                        # raw pointer to the target of an opaque slice reference: find the reference's length
                        for k, x in st.mem.items():
                            if isinstance(x, Opq) and x.id == r0.loc[0][1] and (k + ("nbv",)) in st.mem:
                                return {(): st.mem[k + ("nbv",)]}
                    if ("n",) in v:          # symbolic slice (start, len) installed by a spec model
                        return {(): z3.Int2BV(v[("n",)], 64)}
                except ValueError:
                    pass
            return {(): self.fresh_leaf(dest_ty, m.group(1))}
        # tuple
        if rv.startswith("(") and _matching(rv, 0) == len(rv) - 1:
            out = {}
            inner = rv[1:-1].strip()
            if inner.endswith(","):
                inner = inner[:-1]
            for i, a in enumerate(split_top(inner)):
                for k, v in self.eval_operand(st, a, frame).items():
                    out[(("f", i),) + k] = v
            if not out:
                out[()] = Str("()")
            return out
        if rv.startswith("[") and rv.endswith("]"):
            inner = rv[1:-1]
            if ";" in inner and len(split_top(inner, ";")) == 2:
                return {(): Opq(dest_ty or "array", "repeat")}
            out = {}
            for i, a in enumerate(split_top(inner)):
                for k, v in self.eval_operand(st, a, frame).items():
                    out[(("i", i),) + k] = v
            if not out:
                out[()] = Str("[]")
            return out
        # closure / coroutine aggregate
        m = re.match(r"^\{(?:closure|coroutine|async fn body|async block|async closure)[^@]*@([^}]*)\}\s*(\{(.*)\})?$", rv)
        if m:
            out = {("closure",): Closure(m.group(1))}
            if m.group(3):
                for i, fld in enumerate(split_top(m.group(3))):
                    mm = re.match(r"^(\w+): (.*)$", fld.strip())
                    opnd = mm.group(2) if mm else fld
                    for k, v in self.eval_operand(st, opnd, frame).items():
                        out[(("f", i),) + k] = v
            return out
        # struct aggregate  Path { a: x, b: y }
        m = re.match(r"^([\w:<>,' &\[\]()]+?)\s*\{(.*)\}$", rv)
        if m and not rv.startswith("{"):
            path = m.group(1)
            segs = strip_generics(path).split("::")
            out = {}
            pre = ()
            if len(segs) >= 2 and segs[-2] in self.prog.enums and segs[-1] in self.prog.enums[segs[-2]]:
                out[("disc",)] = z3.IntVal(self.prog.enums[segs[-2]].index(segs[-1]))
                pre = (("v", segs[-1]),)
            body = m.group(2).strip()
            for i, fld in enumerate(split_top(body)):
                mm = re.match(r"^(\w+): (.*)$", fld.strip())
                opnd = mm.group(2) if mm else fld
                for k, v in self.eval_operand(st, opnd, frame).items():
                    out[pre + (("f", i),) + k] = v
            if not out:
                out[()] = Str(path)
            return out
        # enum variant / tuple struct:  Path::Variant(args) or unit Path::Variant
        cs = find_call_split(rv)
        if cs and cs[2].strip() == "":
            path, args = cs[0], cs[1]
            segs = strip_generics(path).split("::")
            out = {}
            pre = ()
            if len(segs) >= 2 and segs[-2] in self.prog.enums and segs[-1] in self.prog.enums[segs[-2]]:
                d = ORDERING_VALUES[segs[-1]] if segs[-2] == "Ordering" else self.prog.enums[segs[-2]].index(segs[-1])
                out[("disc",)] = z3.IntVal(d)
                pre = (("v", segs[-1]),)
            for i, a in enumerate(split_top(args)):
                for k, v in self.eval_operand(st, a, frame).items():
                    out[pre + (("f", i),) + k] = v
            if not out:
                out[()] = Str(path)
            return out
        for pat, val in getattr(self, "const_models", {}).items():
            if re.search(pat, rv):
                return dict(val) if isinstance(val, dict) else {(): val}
        r = self._enum_const(rv)
        if r is not None:
            return r
        if re.match(r"^[\w:<>,' ]+$", rv):
            # unit struct
            return {(): Str(rv)}
        raise ValueError("cannot parse rvalue %r" % rv)

    def eval_cast(self, st, opnd, ty, kind, frame):
        v = self.eval_operand(st, opnd, frame)
        leaf = self.leaf_of(v)
        ty = ty.strip()
        if kind in ("IntToInt",) and is_z(leaf) and z3.is_bv(leaf) and ty in INT_TYPES:
            bits, _ = INT_TYPES[ty]
            src_bits = leaf.size()
            # signedness of source: look at operand type
            m = re.match(r"^(?:copy|move) (_\d+)$", opnd.strip())
            signed = False
            if m:
                sty = frame["body"].types.get(m.group(1), "")
                signed = INT_TYPES.get(sty, (0, False))[1]
            if bits == src_bits:
                return {(): leaf}
            if bits < src_bits:
                return {(): z3.Extract(bits - 1, 0, leaf)}
            return {(): z3.SignExt(bits - src_bits, leaf) if signed else z3.ZeroExt(bits - src_bits, leaf)}
        if kind == "IntToInt" and leaf is None and ty in INT_TYPES:
            # enum discriminant cast (`x as u8`): value is the discriminant
            d = v.get(("disc",))
            if d is not None:
                return {(): z3.Int2BV(d, INT_TYPES[ty][0])}
        if kind == "IntToInt" and is_z(leaf) and z3.is_bool(leaf) and ty in INT_TYPES:
            bits = INT_TYPES[ty][0]
            return {(): z3.If(leaf, z3.BitVecVal(1, bits), z3.BitVecVal(0, bits))}
        if kind in ("PointerCoercion", "PtrToPtr", "Transmute", "PointerExposeProvenance",
                    "PointerWithExposedProvenance", "FnPtrToPtr"):
            return v
        if ty in INT_TYPES:
            return {(): self.fresh_leaf(ty, "cast")}
        return v

    def unop(self, op, a, ty):
        if is_z(a):
            if op == "Not":
                return z3.Not(a) if z3.is_bool(a) else ~a
            if op == "Neg":
                return -a
        return self.fresh_leaf(ty, op)

    def binop(self, st, op, a, b, ty, frame, ops):
        signed = False
        m = re.match(r"^(?:copy|move|const) ?(_\d+)?", ops[0].strip())
        if m and m.group(1):
            signed = INT_TYPES.get(frame["body"].types.get(m.group(1), ""), (0, False))[1]
        else:
            mm = re.search(r"_(i(?:8|16|32|64|128|size))$", ops[0].strip())
            signed = bool(mm)
        if is_z(a) and is_z(b) and a.sort() == b.sort():
            if z3.is_bv(a):
                if op in ("Add", "AddUnchecked"):
                    return {(): a + b}
                if op in ("Sub", "SubUnchecked"):
                    return {(): a - b}
                if op in ("Mul", "MulUnchecked"):
                    return {(): a * b}
                if op == "Div":
                    return {(): (a / b) if signed else z3.UDiv(a, b)}
                if op == "Rem":
                    return {(): z3.SRem(a, b) if signed else z3.URem(a, b)}
                if op == "BitAnd":
                    return {(): a & b}
                if op == "BitOr":
                    return {(): a | b}
                if op == "BitXor":
                    return {(): a ^ b}
                if op in ("Shl", "ShlUnchecked"):
                    return {(): a << b}
                if op in ("Shr", "ShrUnchecked"):
                    return {(): (a >> b) if signed else z3.LShR(a, b)}
                if op == "Eq":
                    return {(): a == b}
                if op == "Ne":
                    return {(): a != b}
                if op == "Lt":
                    return {(): (a < b) if signed else z3.ULT(a, b)}
                if op == "Le":
                    return {(): (a <= b) if signed else z3.ULE(a, b)}
                if op == "Gt":
                    return {(): (a > b) if signed else z3.UGT(a, b)}
                if op == "Ge":
                    return {(): (a >= b) if signed else z3.UGE(a, b)}
                if op in ("AddWithOverflow", "SubWithOverflow", "MulWithOverflow"):
                    n = a.size()
                    if op == "AddWithOverflow":
                        r = a + b
                        if signed:
                            ov = z3.Not(z3.And(z3.BVAddNoOverflow(a, b, True), z3.BVAddNoUnderflow(a, b)))
                        else:
                            ov = z3.Not(z3.BVAddNoOverflow(a, b, False))
                    elif op == "SubWithOverflow":
                        r = a - b
                        if signed:
                            ov = z3.Not(z3.And(z3.BVSubNoOverflow(a, b), z3.BVSubNoUnderflow(a, b, True)))
                        else:
                            ov = z3.Not(z3.BVSubNoUnderflow(a, b, False))
                    else:
                        r = a * b
                        ov = z3.Not(z3.And(z3.BVMulNoOverflow(a, b, signed),
                                           z3.BVMulNoUnderflow(a, b) if signed else z3.BoolVal(True)))
                    return {(("f", 0),): r, (("f", 1),): ov}
                if op == "Cmp":
                    lt = (a < b) if signed else z3.ULT(a, b)
                    return {("disc",): z3.If(lt, z3.IntVal(-1), z3.If(a == b, z3.IntVal(0), z3.IntVal(1)))}
            elif z3.is_bool(a):
                if op == "Eq":
                    return {(): a == b}
                if op == "Ne":
                    return {(): a != b}
                if op == "BitAnd":
                    return {(): z3.And(a, b)}
                if op == "BitOr":
                    return {(): z3.Or(a, b)}
                if op == "BitXor":
                    return {(): z3.Xor(a, b)}
            elif z3.is_int(a):
                tbl = {"Eq": a == b, "Ne": a != b, "Lt": a < b, "Le": a <= b, "Gt": a > b, "Ge": a >= b}
                if op in tbl:
                    return {(): tbl[op]}
        if op in ("AddWithOverflow", "SubWithOverflow", "MulWithOverflow"):
            return {(("f", 0),): self.fresh_leaf("u64", op), (("f", 1),): self.fresh_leaf("bool", op)}
        if op in ("Eq", "Ne", "Lt", "Le", "Gt", "Ge"):
            # pointer / opaque comparisons
            if op in ("Eq", "Ne") and a is b and a is not None:
                return {(): z3.BoolVal(op == "Eq")}
            return {(): self.fresh_leaf("bool", op)}
        return {(): self.fresh_leaf(ty, op)}

    # ---- ordering over opaque values --------------------------------------------
    def ord_var(self, leaf):
        """Integer position of an opaque, totally ordered value."""
        if is_z(leaf):
            if z3.is_bv(leaf):
                return z3.BV2Int(leaf)
            return leaf
        key = id(leaf) if not isinstance(leaf, Opq) else ("o", leaf.id)
        if isinstance(leaf, Str):
            key = ("s", leaf.s)
        if key not in self.ord_vars:
            self.ord_vars[key] = z3.Int("ord_%s" % (leaf.id if isinstance(leaf, Opq) else abs(hash(key)) % 100000))
        return self.ord_vars[key]

    # ---- exploration ----------------------------------------------------------------
    def explore(self, body, inline=(), pure=(), noop=(), max_visits=2, models=None,
                arg_values=None, log_enabled=False, follow_panics=False, max_paths=20000,
                pre=None, keep_drop_events=False, nomut=(), consts=None):
        """Enumerate feasible paths of `body`. Returns list[Path]."""
        self.inline = [re.compile(p) for p in inline]
        self.pure = [re.compile(p) for p in pure]
        self.nomut = [re.compile(p) for p in nomut]
        self.noop_re = [re.compile(p) for p in list(NOOP_CALLEES) + list(noop)]
        self.max_visits = max_visits
        self.user_models = models or {}
        self.log_enabled = log_enabled
        self.follow_panics = follow_panics
        self.max_paths = max_paths
        self.keep_drop_events = keep_drop_events
        self.const_models = consts or {}
        self.paths = []
        self.bound_hits = 0
        self.frame_n = 0
        st = State()
        frame = self.new_frame(body, None, None, None)
        st.frames.append(frame)
        if arg_values:
            for a, v in arg_values.items():
                self.store(st, (frame["id"] + ":" + a,), v)
        if pre:
            pre(self, st, frame)
        self.work = [(st, "bb0")]
        while self.work:
            st, bb = self.work.pop()
            self.run_block(st, bb)
            if len(self.paths) > self.max_paths:
                raise Inconclusive("more than %d paths" % self.max_paths)
        return self.paths

    def new_frame(self, body, dest_loc, ret_bb, caller):
        self.frame_n += 1
        return {"id": "F%d" % self.frame_n, "body": body, "dest": dest_loc, "ret_bb": ret_bb}

    def run_block(self, st, bb):
        while True:
            frame = st.frames[-1]
            body = frame["body"]
            key = (frame["id"], bb)
            st.visits[key] = st.visits.get(key, 0) + 1
            if st.visits[key] > self.max_visits:
                self.bound_hits += 1
                self.paths.append(Path(st, {}, "bound"))
                return
            blk = body.blocks[bb]
            st.trace.append((body.name.split("::")[-1] if "closure" not in body.name else body.name[-40:], bb))
            stmts = blk["stmts"]
            for s in stmts[:-1]:
                self.exec_stmt(st, s, frame)
            nxt = self.exec_term(st, stmts[-1], frame)
            if nxt is None:
                return
            bb = nxt

    def exec_stmt(self, st, s, frame):
        s = s.rstrip(";")
        if s.startswith(("StorageLive", "StorageDead", "nop", "FakeRead", "PlaceMention",
                         "AscribeUserType", "Retag", "Coverage", "ConstEvalCounter", "Deinit",
                         "BackwardIncompatibleDropHint")):
            return
        m = re.match(r"^discriminant\((.*)\) = (\d+)$", s)
        if m:
            loc, ty = self.parse_place(st, m.group(1), frame)
            st.mem[self._redirect(st, loc) + ("disc",)] = z3.IntVal(int(m.group(2)))
            return
        if s.startswith("assume("):
            return
        idx = _find_assign(s)
        if idx < 0:
            return
        lhs, rhs = s[:idx].strip(), s[idx + 3:].strip()
        loc, ty = self.parse_place(st, lhs, frame)
        try:
            val = self.eval_rvalue(st, rhs, frame, ty)
        except ValueError as e:
            self.parse_warn(str(e))
            val = {(): self.fresh_leaf(ty, "unparsed")}
        self.store(st, loc, val)

    def parse_warn(self, msg):
        if not hasattr(self, "warnings"):
            self.warnings = {}
        self.warnings[msg] = self.warnings.get(msg, 0) + 1

    # ---- terminators --------------------------------------------------------------
    def exec_term(self, st, t, frame):
        t = t.rstrip(";")
        m = re.match(r"^goto -> (bb\d+)$", t)
        if m:
            return m.group(1)
        if t == "return":
            return self.do_return(st, frame)
        if t in ("unreachable", "resume", "abort", "terminate(abi)", "terminate(cleanup)") or t.startswith("terminate"):
            return None
        m = re.match(r"^switchInt\((.*)\) -> \[(.*)\]$", t)
        if m:
            return self.do_switch(st, m.group(1), m.group(2), frame)
        m = re.match(r"^drop\((.*)\) -> \[return: (bb\d+)(?:, unwind[^\]]*)?\]$", t)
        if m:
            if self.keep_drop_events:
                loc, ty = self.parse_place(st, m.group(1), frame)
                st.events.append(Event("drop", [self.load(st, loc, ty)], None,
                                       (frame["body"].name, m.group(1)), "drop", ty or ""))
            return m.group(2)
        m = re.match(r"^assert\((.*)\) -> \[success: (bb\d+)(?:, unwind[^\]]*)?\]$", t)
        if m:
            return self.do_assert(st, m.group(1), m.group(2), frame)
        m = re.match(r"^falseEdge -> \[real: (bb\d+), imaginary: bb\d+\]$", t)
        if m:
            return m.group(1)
        m = re.match(r"^falseUnwind -> \[real: (bb\d+)", t)
        if m:
            return m.group(1)
        # coroutine yield (pre-transform bodies): treated as opaque suspension
        m = re.match(r"^(.*?) = yield\((.*)\) -> \[resume: (bb\d+), drop: (bb\d+)\]$", t)
        if m:
            st.events.append(Event("yield", [], None, (frame["body"].name, ""), "yield"))
            loc, ty = self.parse_place(st, m.group(1), frame)
            self.store(st, loc, {(): self.fresh_leaf(ty, "resume")})
            return m.group(3)
        # calls
        idx = _find_assign(t)
        dest = None
        call = t
        if idx >= 0 and " -> " in t[idx:]:
            dest = t[:idx].strip()
            call = t[idx + 3:].strip()
        m = re.match(r"^(.*) -> \[return: (bb\d+)(?:, unwind[^\]]*)?\]$", call)
        ret_bb = None
        if m:
            call, ret_bb = m.group(1), m.group(2)
        else:
            m = re.match(r"^(.*) -> unwind (continue|unreachable|terminate.*|bb\d+)$", call)
            if m:
                call = m.group(1)
        cs = find_call_split(call)
        if not cs:
            self.parse_warn("unparsed terminator: " + t[:80])
            return None
        callee, args_s = cs[0].strip(), cs[1]
        return self.do_call(st, frame, dest, callee, split_top(args_s), ret_bb)

    def do_return(self, st, frame):
        ret = self.load(st, (frame["id"] + ":_0",), frame["body"].ret)
        if len(st.frames) == 1:
            self.paths.append(Path(st, ret, "return"))
            return None
        st.frames.pop()
        caller = st.frames[-1]
        if frame.get("wrap") == "Some":
            wrapped = {("disc",): z3.IntVal(1)}
            for k, v in ret.items():
                wrapped[(("v", "Some"), ("f", 0)) + k] = v
            ret = wrapped
        elif frame.get("wrap") == "Err":
            wrapped = {("disc",): z3.IntVal(1)}
            for k, v in ret.items():
                wrapped[(("v", "Err"), ("f", 0)) + k] = v
            ret = wrapped
        if frame["dest"] is not None:
            self.store(st, frame["dest"], ret)
        st.events.append(Event("ret:" + frame.get("evname", "?"), [], ret, (frame["body"].name, ""), "ret"))
        if frame["ret_bb"] is None:
            return None
        # continue in caller
        self.work.append((st, frame["ret_bb"]))
        return None

    def do_switch(self, st, opnd, targets, frame):
        val = self.leaf_of(self.eval_operand(st, opnd, frame))
        tg = []
        for part in split_top(targets):
            k, b = [x.strip() for x in part.rsplit(":", 1)]
            tg.append((k, b))
        if val is None or not is_z(val):
            # unknown scrutinee: fork to every target without constraint
            self.parse_warn("switch on non-symbolic value %r (%s) in %s" % (val, opnd, frame["body"].name[-60:]))
            val = z3.Int("sw!%d" % self.fresh_n)
            self.fresh_n += 1
        branches = []
        seen = []
        for k, b in tg:
            if k == "otherwise":
                if z3.is_bool(val):
                    cond = val if all(x == 0 for x in seen) else z3.Not(val)
                    if not seen:
                        cond = z3.BoolVal(True)
                else:
                    cond = z3.And([val != self._lit(val, x) for x in seen]) if seen else z3.BoolVal(True)
            else:
                iv = int(k)
                seen.append(iv)
                if z3.is_bool(val):
                    cond = z3.Not(val) if iv == 0 else val
                else:
                    cond = val == self._lit(val, iv)
            branches.append((cond, b))
        live = []
        for cond, b in branches:
            blk = frame["body"].blocks.get(b)
            if blk and blk["stmts"] and blk["stmts"][-1].rstrip(";") == "unreachable" and len(blk["stmts"]) == 1:
                continue
            c = z3.simplify(cond)
            if z3.is_false(c):
                continue
            if z3.is_true(c) or self.feasible(st.cond, c):
                live.append((c, b))
        if not live:
            return None
        for c, b in live[1:]:
            s2 = st.fork()
            if not z3.is_true(c):
                s2.cond.append(c)
            self.work.append((s2, b))
        c, b = live[0]
        if not z3.is_true(c):
            st.cond.append(c)
        return b

    def _lit(self, val, iv):
        if z3.is_bv(val):
            return z3.BitVecVal(iv, val.size())
        if iv == 255:
            # Ordering::Less: discriminant -1 printed as an i8 bit pattern
            return z3.IntVal(-1)
        return z3.IntVal(iv)

    def do_assert(self, st, cond_s, succ, frame):
        parts = split_top(cond_s)
        c = parts[0].strip()
        neg = False
        if c.startswith("!"):
            neg = True
            c = c[1:]
        v = self.leaf_of(self.eval_operand(st, c, frame))
        if not is_z(v) or not z3.is_bool(v):
            return succ
        ok = z3.Not(v) if neg else v
        msg = parts[1] if len(parts) > 1 else ""
        if self.follow_panics and self.feasible(st.cond, z3.Not(ok)):
            s2 = st.fork()
            s2.cond.append(z3.Not(ok))
            s2.events.append(Event("PANIC:" + msg[:60], [], None, (frame["body"].name, ""), "panic"))
            self.paths.append(Path(s2, {}, "panic"))
        if not self.feasible(st.cond, ok):
            return None
        st.cond.append(ok)
        return succ

    # ---- calls -----------------------------------------------------------------------------
    def do_call(self, st, frame, dest, callee, args, ret_bb):
        dest_loc, dest_ty = (None, None)
        if dest is not None:
            dest_loc, dest_ty = self.parse_place(st, dest, frame)
        plain = event_name(callee)
        argvals = []
        for a in args:
            try:
                argvals.append(self.eval_operand(st, a, frame))
            except ValueError as e:
                self.parse_warn(str(e))
                argvals.append({(): Opq("", "unparsed-arg")})
        where = (frame["body"].name, st.trace[-1][1] if st.trace else "")

        # 1. log level comparisons
        if LOG_LEVEL_CMP.match(callee.strip()):
            if dest_loc is not None:
                self.store(st, dest_loc, {(): z3.BoolVal(False) if not self.log_enabled
                                          else self.fresh_leaf("bool", "loglevel")})
            return ret_bb
        # 2. user models
        for pat, fn in self.user_models.items():
            if re.search(pat, callee):
                r = fn(self, st, frame, callee, argvals, dest_ty)
                if r is not NotImplemented:
                    if r is None and ret_bb is None:
                        return None
                    if dest_loc is not None and r is not None:
                        self.store(st, dest_loc, r)
                    return ret_bb
        # 3. built-in models
        r = self.builtin_model(st, frame, callee, plain, argvals, dest_ty, args)
        if r is not NotImplemented:
            if dest_loc is not None and r is not None:
                self.store(st, dest_loc, r)
            return ret_bb
        # 4. no-ops
        if any(p.search(plain) or p.search(callee) for p in self.noop_re):
            if dest_loc is not None:
                self.store(st, dest_loc, {(): Opq(dest_ty or "", "noop")})
            return ret_bb
        # 5. closure calls
        m = re.match(r"^<(.+) as Fn(Once|Mut)?<.*>>::call(_once|_mut)?$", callee.strip())
        if m and argvals:
            env = argvals[0]
            cl = env.get(("closure",))
            envref = None
            if cl is None and isinstance(env.get(()), Ref):
                envref = env[()]
                sub = self.load(st, envref.loc)
                cl = sub.get(("closure",))
            if isinstance(cl, Closure) and cl.loc in self.prog.closure_by_loc:
                body = self.prog.closure_by_loc[cl.loc].parse()
                if len(st.frames) < self.max_depth + 4:
                    return self.inline_call(st, frame, body, dest_loc, ret_bb, argvals, closure_env=(env, envref),
                                            evname="closure@" + cl.loc.split(":")[0] + ":" + cl.loc.split(":")[1])
        # 5b. Option::map / and_then with a known closure: None stays None, Some(x) runs the closure
        m = re.match(r"^(?:std::option::|core::option::)?Option::<.*>::(map|and_then)::<", callee.strip())
        if m and len(argvals) == 2 and getattr(self, "inline_option_closures", True):
            clv = argvals[1].get(("closure",))
            opt = argvals[0]
            if isinstance(clv, Closure) and clv.loc in self.prog.closure_by_loc and len(st.frames) < self.max_depth + 4:
                d = self._disc_of(st, opt, "Option<>")
                body = self.prog.closure_by_loc[clv.loc].parse()
                if self.feasible(st.cond, d == 0):
                    s2 = st.fork()
                    s2.cond.append(d == 0)
                    if dest_loc is not None:
                        self.store(s2, dest_loc, {("disc",): z3.IntVal(0)})
                    if ret_bb is not None:
                        self.work.append((s2, ret_bb))
                if self.feasible(st.cond, d == 1):
                    st.cond.append(d == 1)
                    payload = {k[2:]: v for k, v in opt.items() if k[:2] == (("v", "Some"), ("f", 0))}
                    if not payload:
                        payload = {(): self._payload(st, opt, ("v", "Some"), "map")}
                    tup = {(("f", 0),) + k: v for k, v in payload.items()}
                    r = self.inline_call(st, frame, body, dest_loc, ret_bb, [argvals[1], tup],
                                         closure_env=(argvals[1], None),
                                         evname="closure@" + clv.loc.split(":")[0] + ":" + clv.loc.split(":")[1])
                    st.frames[-1]["wrap"] = "Some" if m.group(1) == "map" else None
                    return r
                return None
        # 5c. Result::map_or with a known closure: Err gives the default, Ok(x) runs the closure
        m = re.match(r"^(?:std::result::|core::result::)?Result::<.*>::map_or::<", callee.strip())
        if m and len(argvals) == 3 and getattr(self, "inline_option_closures", True):
            clv = argvals[2].get(("closure",))
            rv = argvals[0]
            if isinstance(clv, Closure) and clv.loc in self.prog.closure_by_loc and len(st.frames) < self.max_depth + 4:
                d = self._disc_of(st, rv, "Result<>")
                body = self.prog.closure_by_loc[clv.loc].parse()
                if self.feasible(st.cond, d == 1):
                    s2 = st.fork()
                    s2.cond.append(d == 1)
                    if dest_loc is not None:
                        self.store(s2, dest_loc, dict(argvals[1]))
                    if ret_bb is not None:
                        self.work.append((s2, ret_bb))
                if self.feasible(st.cond, d == 0):
                    st.cond.append(d == 0)
                    payload = {k[2:]: v for k, v in rv.items() if k[:2] == (("v", "Ok"), ("f", 0))}
                    if not payload:
                        payload = {(): self._payload(st, rv, ("v", "Ok"), "map_or")}
                    tup = {(("f", 0),) + k: v for k, v in payload.items()}
                    return self.inline_call(st, frame, body, dest_loc, ret_bb, [argvals[2], tup],
                                            closure_env=(argvals[2], None),
                                            evname="closure@" + clv.loc.split(":")[0] + ":" + clv.loc.split(":")[1])
                return None
        # 5d. Result::map_err with a known closure: Ok passes through, Err(e) runs the closure and wraps its result
        m = re.match(r"^(?:std::result::|core::result::)?Result::<.*>::map_err::<", callee.strip())
        if m and len(argvals) == 2 and getattr(self, "inline_map_err", False):
            clv = argvals[1].get(("closure",))
            rv = argvals[0]
            if isinstance(clv, Closure) and clv.loc in self.prog.closure_by_loc and len(st.frames) < self.max_depth + 4:
                d = self._disc_of(st, rv, "Result<>")
                body = self.prog.closure_by_loc[clv.loc].parse()
                if self.feasible(st.cond, d == 0):
                    s2 = st.fork()
                    s2.cond.append(d == 0)
                    if dest_loc is not None:
                        out = {("disc",): z3.IntVal(0)}
                        for k, v in rv.items():
                            if k and k[0] == ("v", "Ok"):
                                out[k] = v
                        if not any(k and k[0] == ("v", "Ok") for k in out):
                            out[(("v", "Ok"), ("f", 0))] = self._payload(s2, rv, ("v", "Ok"), "map_err")
                        self.store(s2, dest_loc, out)
                    if ret_bb is not None:
                        self.work.append((s2, ret_bb))
                if self.feasible(st.cond, d == 1):
                    st.cond.append(d == 1)
                    payload = {k[2:]: v for k, v in rv.items() if k[:2] == (("v", "Err"), ("f", 0))}
                    if not payload:
                        payload = {(): self._payload(st, rv, ("v", "Err"), "map_err")}
                    tup = {(("f", 0),) + k: v for k, v in payload.items()}
                    r = self.inline_call(st, frame, body, dest_loc, ret_bb, [argvals[1], tup],
                                         closure_env=(argvals[1], None),
                                         evname="closure@" + clv.loc.split(":")[0] + ":" + clv.loc.split(":")[1])
                    st.frames[-1]["wrap"] = "Err"
                    return r
                return None
        # 6. inlining of crate functions
        if any(p.search(plain) or p.search(callee) for p in self.inline):
            body = self.prog.resolve_callee(callee)
            if body is not None and len(st.frames) < self.max_depth:
                return self.inline_call(st, frame, body, dest_loc, ret_bb, argvals, evname=plain)
            elif body is None:
                self.parse_warn("inline requested but body not found: " + plain)
        # 7. opaque call: event + havoc
        is_pure = any(p.search(plain) or p.search(callee) for p in self.pure)
        if is_pure:
            key = (plain, tuple(_ident(v) for v in argvals))
            if key in st.memo:
                val = st.memo[key]
            else:
                val = self.fresh_value(dest_ty, plain.split("::")[-1])
                st.memo[key] = val
            if dest_loc is not None:
                self.store(st, dest_loc, dict(val))
            st.events.append(Event(plain, argvals, val, where, "pure", callee))
            return ret_bb
        # havoc memory reachable through &mut arguments
        suppress = any(p.search(plain) for p in self.nomut)
        for a, v in zip(args, argvals):
            leaf = v.get(())
            if isinstance(leaf, Ref) and leaf.mut:
                if suppress:
                    l2 = self._redirect(st, leaf.loc)
                    if l2 and isinstance(l2[0], tuple) and l2[0][0] == "o":
                        st.writes.append((l2, len(st.events)))
                else:
                    self.havoc(st, leaf.loc)
            elif isinstance(leaf, Opq) and leaf.ty.startswith("&mut") and not suppress:
                self.havoc(st, (("o", leaf.id), "deref"))
        val = self.fresh_value(dest_ty, plain.split("::")[-1])
        if dest_loc is not None:
            self.store(st, dest_loc, dict(val))
        st.events.append(Event(plain, argvals, val, where, "call", callee))
        if ret_bb is None:
            st.events.append(Event("DIVERGE", [], None, where, "diverge"))
            self.paths.append(Path(st, {}, "diverge"))
        return ret_bb

    def fresh_value(self, ty, origin):
        ty = ty or ""
        leaf = self.fresh_leaf(ty, origin)
        return {(): leaf}

    def inline_call(self, st, frame, body, dest_loc, ret_bb, argvals, closure_env=None, evname=""):
        nf = self.new_frame(body, dest_loc, ret_bb, frame)
        nf["evname"] = evname
        params = body.args
        vals = list(argvals)
        if closure_env is not None:
            env, envref = closure_env
            # closure bodies take (env, arg0, arg1, ...); call_* passes (env, (args...))
            tup = vals[1] if len(vals) > 1 else {}
            vals = [env]
            n_rest = len(params) - 1
            for i in range(n_rest):
                sub = {k[1:]: v for k, v in tup.items() if k and k[0] == ("f", i)}
                if not sub and n_rest == 1 and () in tup:
                    sub = tup
                vals.append(sub)
            # env by reference expected?
            pty = params[0][1] if params else ""
            if pty.startswith("&") and not isinstance(env.get(()), (Ref,)) and envref is None:
                tmp = (nf["id"] + ":env",)
                self.store(st, tmp, env)
                vals[0] = {(): Ref(tmp, True)}
            elif not pty.startswith("&") and envref is not None:
                vals[0] = dict(self.load(st, envref.loc))
        st.frames.append(nf)
        for (p, pty), v in zip(params, vals):
            if v:
                self.store(st, (nf["id"] + ":" + p,), v)
        st.events.append(Event("enter:" + evname, argvals, None, (body.name, ""), "enter"))
        self.work.append((st, "bb0"))
        return None

    # ---- built-in models ------------------------------------------------------------------------
    def builtin_model(self, st, frame, callee, plain, argvals, dest_ty, args):
        c = callee.strip()
        a0 = argvals[0] if argvals else None
        # Try::branch
        m = re.match(r"^<(.*) as Try>::branch$", c)
        if m:
            head = type_head(base_type(m.group(1)))
            d = self._disc_of(st, a0, m.group(1))
            out = {}
            if head == "Result":
                out[("disc",)] = d
                for k, v in a0.items():
                    if k and k[0] == ("v", "Ok"):
                        out[(("v", "Continue"), ("f", 0)) + k[2:]] = v
                    if k and k[0] == ("v", "Err"):
                        out[(("v", "Break"), ("f", 0), ("v", "Err")) + k[1:]] = v
                out[(("v", "Break"), ("f", 0), "disc")] = z3.IntVal(1)
                if not any(k and k[0] == ("v", "Continue") for k in out):
                    out[(("v", "Continue"), ("f", 0))] = self._payload(st, a0, ("v", "Ok"), "ok", m.group(1))
                return out
            if head == "Option":
                out[("disc",)] = z3.If(d == 1, z3.IntVal(0), z3.IntVal(1))
                for k, v in a0.items():
                    if k and k[0] == ("v", "Some"):
                        out[(("v", "Continue"), ("f", 0)) + k[2:]] = v
                out[(("v", "Break"), ("f", 0), "disc")] = z3.IntVal(0)
                if not any(k and k[0] == ("v", "Continue") for k in out):
                    out[(("v", "Continue"), ("f", 0))] = self._payload(st, a0, ("v", "Some"), "some", m.group(1))
                return out
            if head == "Poll":
                return NotImplemented
        m = re.match(r"^<(.*) as FromResidual<(.*)>>::from_residual$", c)
        if m:
            head = type_head(base_type(m.group(1)))
            if head == "Result":
                out = {("disc",): z3.IntVal(1)}
                out[(("v", "Err"), ("f", 0))] = Opq("", "from_residual")
                return out
            if head == "Option":
                return {("disc",): z3.IntVal(0)}
            return NotImplemented
        # Option / Result helpers
        m = re.match(r"^(?:std::option::|core::option::)?Option::<.*>::(\w+)$", c)
        if m and a0 is not None:
            f = m.group(1)
            tgt = self._through_ref(st, a0)
            d = self._disc_of(st, tgt, "Option<>")
            if f == "is_some":
                return {(): d == 1}
            if f == "is_none":
                return {(): d == 0}
            if f in ("as_ref", "as_mut", "as_deref", "as_deref_mut"):
                out = {("disc",): d}
                leaf = a0.get(())
                if isinstance(leaf, Ref):
                    out[(("v", "Some"), ("f", 0))] = Ref(leaf.loc + (("v", "Some"), ("f", 0)), f.endswith("mut"))
                else:
                    out[(("v", "Some"), ("f", 0))] = self._payload(st, tgt, ("v", "Some"), "as_ref")
                return out
            if f in ("cloned", "copied"):
                out = {("disc",): d}
                for k, v in tgt.items():
                    if k and k[0] == ("v", "Some"):
                        if isinstance(v, Ref) and len(k) == 2:
                            for kk, vv in self.load(st, v.loc).items():
                                out[k + kk] = vv
                        else:
                            out[k] = v
                return out
            if f in ("ok_or", "ok_or_else"):
                out = {("disc",): z3.If(d == 1, z3.IntVal(0), z3.IntVal(1))}
                for k, v in tgt.items():
                    if k and k[0] == ("v", "Some"):
                        out[(("v", "Ok"),) + k[1:]] = v
                return out
            if f in ("unwrap", "expect") and not self.follow_panics:
                st.cond.append(d == 1)
                out = {k[2:]: v for k, v in tgt.items() if k and k[0] == ("v", "Some")}
                return out or {(): self._payload(st, tgt, ("v", "Some"), "unwrap")}
            if f == "take":
                leaf = a0.get(())
                out = dict(tgt)
                if isinstance(leaf, Ref):
                    self.store(st, leaf.loc, {("disc",): z3.IntVal(0)})
                return out
        m = re.match(r"^(?:std::result::|core::result::)?Result::<.*>::(\w+)$", c)
        if m and a0 is not None:
            f = m.group(1)
            tgt = self._through_ref(st, a0)
            d = self._disc_of(st, tgt, "Result<>")
            if f == "is_ok":
                return {(): d == 0}
            if f == "is_err":
                return {(): d == 1}
            if f == "ok":
                out = {("disc",): z3.If(d == 0, z3.IntVal(1), z3.IntVal(0))}
                for k, v in tgt.items():
                    if k and k[0] == ("v", "Ok"):
                        out[(("v", "Some"),) + k[1:]] = v
                return out
            if f == "err":
                out = {("disc",): z3.If(d == 1, z3.IntVal(1), z3.IntVal(0))}
                return out
            if f in ("map_err",):
                # disc preserved; Ok payload preserved; Err payload havoc (closure not run)
                out = {("disc",): d}
                for k, v in tgt.items():
                    if k and k[0] == ("v", "Ok"):
                        out[k] = v
                return out
            if f in ("as_ref", "as_mut"):
                out = {("disc",): d}
                leaf = a0.get(())
                if isinstance(leaf, Ref):
                    out[(("v", "Ok"), ("f", 0))] = Ref(leaf.loc + (("v", "Ok"), ("f", 0)))
                    out[(("v", "Err"), ("f", 0))] = Ref(leaf.loc + (("v", "Err"), ("f", 0)))
                return out
            if f in ("unwrap", "expect") and not self.follow_panics:
                st.cond.append(d == 0)
                out = {k[2:]: v for k, v in tgt.items() if k and k[0] == ("v", "Ok")}
                return out or {(): self._payload(st, tgt, ("v", "Ok"), "unwrap")}
        # Deref-like: pure pointer functions
        if re.match(r"^<.* as (Deref|DerefMut|AsRef<.*>|AsMut<.*>|Borrow<.*>)>::(deref|deref_mut|as_ref|as_mut|borrow)$", c) \
                or re.match(r"^(Arc|Rc|Box)::<.*>::(as_ref|as_ptr)$", c):
            key = ("deref", _ident(a0))
            if key not in st.memo:
                st.memo[key] = {(): Opq((dest_ty or "&"), "deref")}
            return dict(st.memo[key])
        # Clone
        if re.match(r"^<.* as Clone>::clone$", c):
            tgt = self._through_ref(st, a0)
            return dict(tgt)
        if re.match(r"^<.* as (Into<.*>|From<.*>)>::(into|from)$", c) and \
                re.search(r"as Into<(.*)>>::into$", c) and False:
            return NotImplemented
        # integer comparisons through references
        m = re.match(r"^<(.*) as (PartialOrd|PartialEq|Ord)(<.*>)?>::(lt|le|gt|ge|eq|ne|cmp|partial_cmp)$", c)
        if m and len(argvals) == 2:
            ty = m.group(1).strip()
            op = m.group(4)
            x = self._through_ref(st, argvals[0])
            y = self._through_ref(st, argvals[1])
            return self.compare(st, ty, op, x, y)
        m = re.match(r"^<(\w+) as (TryFrom|From)<(\w+)>>::(try_from|from)$", c)
        if m and m.group(1) in INT_TYPES and m.group(3) in INT_TYPES and a0 is not None:
            x = a0.get(())
            if is_z(x) and z3.is_bv(x):
                dbits, dsigned = INT_TYPES[m.group(1)]
                sbits, ssigned = INT_TYPES[m.group(3)]
                if dbits >= sbits:
                    conv = z3.SignExt(dbits - sbits, x) if ssigned else z3.ZeroExt(dbits - sbits, x)
                    if dbits == sbits:
                        conv = x
                else:
                    conv = z3.Extract(dbits - 1, 0, x)
                if m.group(2) == "From":
                    return {(): conv}
                # value preserved?  (compare as integers)
                xi = z3.BV2Int(x, ssigned)
                lo = -(1 << (dbits - 1)) if dsigned else 0
                hi = (1 << (dbits - 1)) - 1 if dsigned else (1 << dbits) - 1
                if dbits >= sbits and (dsigned == ssigned or (dsigned and dbits > sbits)):
                    ok = z3.BoolVal(True)
                elif dbits == sbits and not dsigned and ssigned:
                    ok = x >= 0
                elif dbits == sbits and dsigned and not ssigned:
                    ok = z3.ULE(x, z3.BitVecVal(hi, sbits))
                else:
                    ok = z3.And(xi >= lo, xi <= hi)
                return {("disc",): z3.If(ok, z3.IntVal(0), z3.IntVal(1)), (("v", "Ok"), ("f", 0)): conv}
        m = re.match(r"^(?:core|std)::num::<impl ([ui](?:8|16|32|64|128|size))>::(checked|wrapping|saturating|overflowing)_(add|sub|mul)$", c)
        if m and len(argvals) == 2:
            x, y = argvals[0].get(()), argvals[1].get(())
            if is_z(x) and is_z(y) and z3.is_bv(x) and x.sort() == y.sort():
                signed = INT_TYPES[m.group(1)][1]
                op = m.group(3)
                if op == "add":
                    r = x + y
                    no_ov = z3.And(z3.BVAddNoOverflow(x, y, signed), z3.BVAddNoUnderflow(x, y) if signed else z3.BoolVal(True))
                elif op == "sub":
                    r = x - y
                    no_ov = z3.And(z3.BVSubNoUnderflow(x, y, signed), z3.BVSubNoOverflow(x, y) if signed else z3.BoolVal(True))
                else:
                    r = x * y
                    no_ov = z3.And(z3.BVMulNoOverflow(x, y, signed), z3.BVMulNoUnderflow(x, y) if signed else z3.BoolVal(True))
                kind = m.group(2)
                if kind == "checked":
                    return {("disc",): z3.If(no_ov, z3.IntVal(1), z3.IntVal(0)), (("v", "Some"), ("f", 0)): r}
                if kind == "wrapping":
                    return {(): r}
                if kind == "overflowing":
                    return {(("f", 0),): r, (("f", 1),): z3.Not(no_ov)}
                if kind == "saturating" and not signed:
                    n = x.size()
                    if op == "add":
                        return {(): z3.If(no_ov, r, z3.BitVecVal((1 << n) - 1, n))}
                    if op == "sub":
                        return {(): z3.If(no_ov, r, z3.BitVecVal(0, n))}
        m = re.match(r"^(?:core|std)::num::<impl (u(?:8|16|32|64|128|size))>::next_multiple_of$", c)
        if m and len(argvals) == 2:
            x, y = argvals[0].get(()), argvals[1].get(())
            if is_z(x) and is_z(y) and z3.is_bv(x) and x.sort() == y.sort():
                rem = z3.URem(x, y)
                add = z3.If(rem == 0, z3.BitVecVal(0, x.size()), y - rem)
                # the real function panics on overflow (and on y == 0)
                st.cond.append(z3.And(y != 0, z3.BVAddNoOverflow(x, add, False)))
                return {(): x + add}
        m = re.match(r"^(?:std::cmp::|core::cmp::)?(min|max)::<(.*)>$", c)
        if not m:
            mo = re.match(r"^<([ui](?:8|16|32|64|128|size)) as (?:std::cmp::|core::cmp::)?Ord>::(min|max)$", c)
            if mo:
                m = re.match(r"^(min|max)::<(.*)>$", "%s::<%s>" % (mo.group(2), mo.group(1)))
        if m and len(argvals) == 2:
            x, y = argvals
            lx, ly = x.get(()), y.get(())
            if lx is not None and ly is not None:
                ox, oy = self.ord_var(lx), self.ord_var(ly)
                if is_z(lx) and is_z(ly) and z3.is_bv(lx):
                    signed = INT_TYPES.get(m.group(2).strip(), (0, False))[1]
                    lt = (lx < ly) if signed else z3.ULT(lx, ly)
                    if m.group(1) == "min":
                        return {(): z3.If(lt, lx, ly)}
                    return {(): z3.If(lt, ly, lx)}
                # opaque: result is a fresh opaque whose order position is min/max
                r = Opq(dest_ty or "", m.group(1))
                ov = self.ord_var(r)
                if m.group(1) == "min":
                    st.cond.append(ov == z3.If(ox <= oy, ox, oy))
                else:
                    st.cond.append(ov == z3.If(ox >= oy, ox, oy))
                return {(): r}
        return NotImplemented

    def compare(self, st, ty, op, x, y):
        head = type_head(base_type(ty))
        if head == "Option" and "disc" not in [k[0] if k else None for k in x] and () in x and isinstance(x[()], Opq):
            pass
        lx, ly = x.get(()), y.get(())
        if head == "Option":
            dx = self._disc_of(st, x, ty)
            dy = self._disc_of(st, y, ty)
            px = self._payload(st, x, ("v", "Some"), "cmpx")
            py = self._payload(st, y, ("v", "Some"), "cmpy")
            if is_z(px) and is_z(py) and z3.is_bv(px) and z3.is_bv(py) and px.size() == py.size():
                inner = re.match(r"^.*Option<(.*)>$", ty.strip())
                signed = INT_TYPES.get(inner.group(1).strip(), (0, False))[1] if inner else False
                plt = (px < py) if signed else z3.ULT(px, py)
                peq = px == py
            else:
                ox, oy = self.ord_var(px), self.ord_var(py)
                plt, peq = ox < oy, ox == oy
            # derive semantics: None < Some(_); Some(a) vs Some(b) by a, b
            lt = z3.Or(z3.And(dx == 0, dy == 1), z3.And(dx == 1, dy == 1, plt))
            eq = z3.Or(z3.And(dx == 0, dy == 0), z3.And(dx == 1, dy == 1, peq))
        elif lx is not None and ly is not None and is_z(lx) and is_z(ly) and lx.sort() == ly.sort() and z3.is_bv(lx):
            signed = INT_TYPES.get(ty, (0, False))[1]
            lt = (lx < ly) if signed else z3.ULT(lx, ly)
            eq = lx == ly
        elif lx is not None and ly is not None and is_z(lx) and is_z(ly) and z3.is_bool(lx):
            lt = z3.And(z3.Not(lx), ly)
            eq = lx == ly
        elif lx is not None and ly is not None:
            ox, oy = self.ord_var(lx), self.ord_var(ly)
            lt = ox < oy
            eq = ox == oy
        elif ("disc",) in x or ("disc",) in y:
            # field-less enum compare by discriminant
            dx = self._disc_of(st, x, ty)
            dy = self._disc_of(st, y, ty)
            lt = dx < dy
            eq = dx == dy
        else:
            return {(): self.fresh_leaf("bool", "cmp")}
        tbl = {"lt": lt, "le": z3.Or(lt, eq), "gt": z3.Not(z3.Or(lt, eq)), "ge": z3.Not(lt),
               "eq": eq, "ne": z3.Not(eq)}
        if op in tbl:
            return {(): tbl[op]}
        if op == "cmp":
            return {("disc",): z3.If(lt, z3.IntVal(-1), z3.If(eq, z3.IntVal(0), z3.IntVal(1)))}
        if op == "partial_cmp":
            return {("disc",): z3.IntVal(1),
                    (("v", "Some"), ("f", 0), "disc"): z3.If(lt, z3.IntVal(-1), z3.If(eq, z3.IntVal(0), z3.IntVal(1)))}
        return {(): self.fresh_leaf("bool", "cmp")}

    def _through_ref(self, st, val):
        leaf = val.get(())
        n = 0
        while isinstance(leaf, Ref) and n < 4:
            val = self.load(st, leaf.loc)
            leaf = val.get(())
            n += 1
        if isinstance(leaf, Opq) and leaf.ty.startswith("&"):
            pty = re.sub(r"^&('\w+ )?(mut )?", "", leaf.ty)
            return self.load(st, (("o", leaf.id), "deref"), pty)
        return val

    def _disc_of(self, st, val, ty):
        if ("disc",) in val:
            return val[("disc",)]
        leaf = val.get(())
        if isinstance(leaf, Opq):
            return self.load_disc(st, (("o", leaf.id),), leaf.ty or ty)
        v = self.fresh_disc(ty, "disc")
        val[("disc",)] = v
        return v

    def _payload(self, st, val, variant, origin, ty=None):
        key = (variant, ("f", 0))
        if key in val:
            return val[key]
        leaf = val.get(())
        if isinstance(leaf, Opq):
            pty = variant_payload_type(leaf.ty or ty, variant[1])
            d = self.load(st, (("o", leaf.id),) + key, pty)
            if () in d:
                return d[()]
            return Opq(pty or "", origin)
        pty = variant_payload_type(ty, variant[1]) if ty else None
        r = self.fresh_leaf(pty, origin) if pty else Opq("", origin)
        val[key] = r
        return r


UNOPS = {"Not", "Neg"}
BINOPS = {"Eq", "Ne", "Lt", "Le", "Gt", "Ge", "Add", "Sub", "Mul", "Div", "Rem", "BitAnd", "BitOr",
          "BitXor", "Shl", "Shr", "AddWithOverflow", "SubWithOverflow", "MulWithOverflow", "Offset",
          "Cmp", "AddUnchecked", "SubUnchecked", "MulUnchecked", "ShlUnchecked", "ShrUnchecked"}


def _ident(val):
    """Hashable identity of a value dict (for pure-call memoisation)."""
    out = []
    for k in sorted(val.keys(), key=repr):
        v = val[k]
        if isinstance(v, Opq):
            out.append((k, "o", v.id))
        elif isinstance(v, Ref):
            out.append((k, "r", v.loc))
        elif is_z(v):
            out.append((k, "z", v.sexpr()))
        else:
            out.append((k, "x", repr(v)))
    return tuple(out)


def _matching(s, i):
    depth = 0
    instr = False
    j = i
    while j < len(s):
        c = s[j]
        if instr:
            if c == "\\":
                j += 1
            elif c == '"':
                instr = False
        elif c == '"':
            instr = True
        elif c in "([{":
            depth += 1
        elif c in ")]}":
            depth -= 1
            if depth == 0:
                return j
        j += 1
    return -1


def _balanced(s):
    d = 0
    for c in s:
        if c in "([{":
            d += 1
        elif c in ")]}":
            d -= 1
            if d < 0:
                return False
    return d == 0


def _split_type_annot(inner):
    """'(P.N: T)' inner -> (P.N, T) if the top-level ': ' separates place and type."""
    depth = 0
    angle = 0
    for i, c in enumerate(inner):
        if c in "([{":
            depth += 1
        elif c in ")]}":
            depth -= 1
        elif c == "<":
            angle += 1
        elif c == ">" and not (i > 0 and inner[i - 1] == "-"):
            angle -= 1
        elif c == ":" and depth == 0 and angle == 0 and inner[i:i + 2] == ": " and (i == 0 or inner[i - 1] != ":"):
            return inner[:i], inner[i + 2:]
    return None


def _find_assign(s):
    """Index of the top-level ' = ' separating place and rvalue, or -1."""
    depth = 0
    instr = False
    i = 0
    while i < len(s) - 2:
        c = s[i]
        if instr:
            if c == "\\":
                i += 1
            elif c == '"':
                instr = False
        elif c == '"':
            instr = True
        elif c in "([{":
            depth += 1
        elif c in ")]}":
            depth -= 1
        elif depth == 0 and s[i:i + 3] == " = ":
            return i
        i += 1
    return -1


# --------------------------------------------------------------------------
# Helpers for specs
# --------------------------------------------------------------------------

def peek(engine, mem, loc):
    """Read a leaf from a finished path's memory without creating anything."""
    st = State()
    st.mem = mem
    loc = engine._redirect(st, loc)
    return mem.get(loc)


def leaf_loc(leaf):
    """Location of the memory behind a pointer leaf."""
    if isinstance(leaf, Ref):
        return leaf.loc
    if isinstance(leaf, Opq):
        return (("o", leaf.id), "deref")
    return None


def struct_fields(name, file):
    """Field names of `struct name` in declaration order, scraped from source."""
    txt = open(os.path.join(REPO, file)).read()
    m = re.search(r"\bstruct\s+%s\b[^{;(]*\{" % re.escape(name), txt)
    if not m:
        raise LookupError("struct %s not found in %s" % (name, file))
    i = m.end()
    depth = 1
    while i < len(txt) and depth:
        if txt[i] == "{":
            depth += 1
        elif txt[i] == "}":
            depth -= 1
        i += 1
    body = re.sub(r"//[^\n]*", "", txt[m.end():i - 1])
    body = re.sub(r"#\[[^\]]*\]", "", body)
    out = []
    for part in split_top(body):
        mm = re.match(r"^(?:pub(?:\([^)]*\))?\s+)?(\w+)\s*:", part.strip())
        if mm:
            out.append(mm.group(1))
    return out
