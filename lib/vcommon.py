"""Shared infrastructure: overlay builder, evidence writer, known findings.

The overlay is a byte-for-byte copy of /repo's current working tree (only the
parts cargo needs) in a scratch directory outside /repo and /verif, to which
harness-module lines from /verif/kani/INJECT.json are appended.  Files are only
rewritten when their content differs, so cargo's fingerprints stay valid and an
unchanged tree does not trigger a rebuild, while any edit under /repo does.
"""
import hashlib
import json
import os
import shutil
import subprocess
import sys
import time

VERIF = os.path.dirname(os.path.dirname(os.path.abspath(__file__)))
REPO = os.environ.get("VERIF_REPO", "/repo")
WORK = os.environ.get("VERIF_WORK", "/var/tmp/routinator-verif")
KANI_TARGET = os.path.join(WORK, "kani-target")
MIR_TARGET = os.path.join(WORK, "mir-target")
EVIDENCE_DIR = os.environ.get("VERIF_EVIDENCE_DIR") or os.path.join(VERIF, "evidence")   # seed / mutation runs redirect it
KNOWN_FINDINGS = os.path.join(VERIF, "known_findings.json")

COPY_DIRS = ["src", "tals", "test"]
COPY_FILES = ["Cargo.toml", "Cargo.lock", "build.rs", "doc/routinator.1"]

ENV = dict(os.environ)
ENV["CARGO_NET_OFFLINE"] = "true"
ENV.pop("RUSTFLAGS", None)


def log(*a):
    print(*a, file=sys.stderr, flush=True)


def sha256_file(path):
    h = hashlib.sha256()
    with open(path, "rb") as f:
        h.update(f.read())
    return h.hexdigest()


def load_inject(groups):
    """Return {relative source path: text appended in the overlay} for the
    named injection groups of /verif/kani/INJECT.json."""
    with open(os.path.join(VERIF, "kani", "INJECT.json")) as f:
        data = json.load(f)
    lines = {}
    for g in groups:
        for rel, items in data["groups"][g].items():
            for it in items:
                it = it.replace("@VERIF@", VERIF)
                if it not in lines.setdefault(rel, []):
                    lines[rel].append(it)
    out = {}
    for rel, items in lines.items():
        text = "\n\n// ---- appended by /verif overlay builder (not in /repo) ----\n"
        out[rel] = text + "\n".join(items) + "\n"
    return out


def _write_if_changed(path, data):
    try:
        with open(path, "rb") as f:
            if f.read() == data:
                return False
    except FileNotFoundError:
        pass
    os.makedirs(os.path.dirname(path), exist_ok=True)
    with open(path, "wb") as f:
        f.write(data)
    return True


def overlay_dir(name):
    # a run on another source tree (VERIF_REPO, used for mutation tests) gets overlays of its own
    if REPO != "/repo":
        name = "%s-%s" % (name, hashlib.sha1(os.path.abspath(REPO).encode()).hexdigest()[:8])
    return os.path.join(WORK, "ov", name)


class overlay_lock:
    """Exclusive lock on one overlay: sync + compile of the same overlay must not interleave between processes."""
    def __init__(self, name):
        self.path = overlay_dir(name) + ".lock"

    def __enter__(self):
        import fcntl
        os.makedirs(os.path.dirname(self.path), exist_ok=True)
        self.f = open(self.path, "w")
        fcntl.flock(self.f, fcntl.LOCK_EX)
        return self

    def __exit__(self, *a):
        import fcntl
        fcntl.flock(self.f, fcntl.LOCK_UN)
        self.f.close()


def build_overlay(name, groups=()):
    """Synchronise the overlay `name` with REPO's working tree and append the
    harness-module lines of `groups`. Returns (dir, tree_hash, n_changed)."""
    inject = load_inject(groups)
    OVERLAY = overlay_dir(name)
    os.makedirs(OVERLAY, exist_ok=True)
    wanted = {}
    for d in COPY_DIRS:
        root = os.path.join(REPO, d)
        for dp, dn, fn in os.walk(root):
            for f in fn:
                p = os.path.join(dp, f)
                wanted[os.path.relpath(p, REPO)] = p
    for f in COPY_FILES:
        p = os.path.join(REPO, f)
        if os.path.exists(p):
            wanted[f] = p
    h = hashlib.sha256()
    changed = 0
    for rel in sorted(wanted):
        with open(wanted[rel], "rb") as f:
            data = f.read()
        h.update(rel.encode() + b"\0" + hashlib.sha256(data).digest())
        if rel in inject:
            data = data + inject[rel].encode()
        if rel == "Cargo.toml":
            # add the harness feature flags + an empty workspace table
            txt = data.decode()
            if "[workspace]" not in txt:
                txt += "\n[workspace]\n"
            data = txt.encode()
        if _write_if_changed(os.path.join(OVERLAY, rel), data):
            changed += 1
    # remove stale files
    for d in COPY_DIRS:
        root = os.path.join(OVERLAY, d)
        for dp, dn, fn in os.walk(root):
            for f in fn:
                p = os.path.join(dp, f)
                if os.path.relpath(p, OVERLAY) not in wanted:
                    os.remove(p)
                    changed += 1
    return OVERLAY, h.hexdigest(), changed


def harness_hash():
    h = hashlib.sha256()
    kd = os.path.join(VERIF, "kani")
    for f in sorted(os.listdir(kd)):
        h.update(f.encode())
        with open(os.path.join(kd, f), "rb") as fh:
            h.update(fh.read())
    return h.hexdigest()


def source_hashes(rel_files):
    out = {}
    for rel in rel_files:
        p = os.path.join(REPO, rel)
        if os.path.exists(p):
            out[rel] = sha256_file(p)
    return out


def load_known():
    if not os.path.exists(KNOWN_FINDINGS):
        return {"findings": [], "fixed": []}
    with open(KNOWN_FINDINGS) as f:
        return json.load(f)


def known_keys(prop):
    return {k["key"]: k for k in load_known().get("findings", [])
            if k["property"] == prop}


def _dedupe(items):
    seen, out = set(), []
    for it in items:
        k = json.dumps(it, sort_keys=True, default=str)
        if k not in seen:
            seen.add(k)
            out.append(it)
    return out


class Result:
    """Collects what one check run did and writes evidence."""

    def __init__(self, prop, tier, seed):
        self.prop = prop
        self.tier = tier
        self.seed = seed
        self.t0 = time.time()
        self.evaluations = 0
        self.distinct = 0
        self.samples = []
        self.functions = []
        self.bounds = []
        self.stubs = []
        self.assumptions = []
        self.outside = []
        self.engines = []
        self.solver_time = 0.0
        self.inconclusive = []
        self.violations = []      # (key, description, replay_path)
        self.known_hit = []       # keys of known findings reproduced
        self.notes = []
        self.rule = ""
        self.extra = {}

    def violation(self, key, desc, replay):
        self.violations.append({"key": key, "what": desc, "replay": replay})

    def finish(self):
        known = known_keys(self.prop)
        new = []
        for v in self.violations:
            if v["key"] in known:
                if v["key"] not in self.known_hit:
                    self.known_hit.append(v["key"])
                    print("KNOWN-FINDING: property=%s %s" %
                          (self.prop, known[v["key"]]["what"]), flush=True)
            else:
                new.append(v)
        if not self.samples and not self.inconclusive and self.evaluations > 0:
            # a check that explored cases must show at least one; never leave the list empty silently
            self.inconclusive.append("the check recorded no sample case (evidence would be incomplete)")
        ev = {
            "property_id": self.prop,
            "tier": self.tier,
            "seed": self.seed,
            "level": "model_checking",
            "coverage": {
                "evaluations": self.evaluations,
                "distinct_nontrivial": self.distinct,
                "rule": self.rule,
                "samples": _dedupe(self.samples)[:12],
                "functions_encoded": self.functions,
                "bounds": self.bounds,
                "stubs": self.stubs,
                "engines": self.engines,
                "solver_time_s": round(self.solver_time, 2),
                "inconclusive": self.inconclusive,
                "outside_claim": self.outside,
                "known_findings_reproduced": self.known_hit,
                "notes": self.notes,
                "exhaustive": False,
            },
            "assumptions": self.assumptions,
            "wall_s": round(time.time() - self.t0, 2),
            "violations": len(new),
        }
        ev["coverage"].update(self.extra)
        os.makedirs(EVIDENCE_DIR, exist_ok=True)
        tmp = os.path.join(EVIDENCE_DIR, self.prop + ".json.tmp")
        with open(tmp, "w") as f:
            json.dump(ev, f, indent=1, sort_keys=True)
        os.replace(tmp, os.path.join(EVIDENCE_DIR, self.prop + ".json"))
        if new:
            seen = set()
            for v in new:
                if v["key"] in seen:
                    continue
                seen.add(v["key"])
                print("VIOLATION property=%s replay=%s" %
                      (self.prop, v["replay"]), flush=True)
                print("  what: %s [key=%s]" % (v["what"], v["key"]), flush=True)
            return 1
        if self.inconclusive:
            print("INCONCLUSIVE property=%s: %s" %
                  (self.prop, "; ".join(str(x) for x in self.inconclusive)), flush=True)
            return 2
        print("OK property=%s tier=%s evaluations=%d distinct=%d wall=%.1fs" %
              (self.prop, self.tier, self.evaluations, self.distinct,
               time.time() - self.t0), flush=True)
        return 0
