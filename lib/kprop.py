"""Generic runner for the Kani part of a property."""
import os
import re

import kani
from vcommon import build_overlay, log, source_hashes


def run_kani_part(res, spec, tier):
    """spec keys:
      groups          injection groups (INJECT.json)
      harnesses       {"quick": [...], "thorough": [...]} (thorough includes quick)
      stubbing        bool
      timeout         {"quick": s, "thorough": s}
      harness_file    {harness-prefix or name: (file under /verif/kani, overlay file with the mod line)}
      finding_keys    {harness name: role key of a known finding it is dedicated to}
      files           source files whose hashes are recorded
    """
    prop = res.prop
    names = list(spec["harnesses"]["quick"])
    if tier == "thorough":
        for n in spec["harnesses"].get("thorough", []):
            if n not in names:
                names.append(n)
    # VERIF_SEED only rotates scheduling order
    if names:
        k = res.seed % len(names)
        names = names[k:] + names[:k]
    ov, tree_hash, changed = build_overlay(prop, spec["groups"])
    res.extra.setdefault("source_tree_sha256", tree_hash)
    res.extra.setdefault("source_files_sha256", {}).update(source_hashes(spec.get("files", [])))
    timeout = spec.get("timeout", {}).get(tier, 600 if tier == "quick" else 3000)
    stubbing = spec.get("stubbing", False)
    results, out, wall, logpath = kani.run_harnesses(
        ov, names, stubbing=stubbing, timeout_s=timeout,
        jobs=spec.get("jobs", {}).get(tier), logname="%s-%s" % (prop, tier))
    res.engines.append("Kani 0.68.0 / CBMC 6.11.0 / CaDiCaL (harnesses compiled inside the real crate via overlay)")
    if kani.compile_error(out) and all(r.status == "MISSING" for r in results.values()):
        errs = [l for l in out.splitlines() if l.startswith("error")][:5]
        res.inconclusive.append("harness build failed: %s (log %s)" % (" | ".join(errs), logpath))
        return
    finding_keys = spec.get("finding_keys", {})
    for n in names:
        r = results[n]
        res.evaluations += r.checks
        res.solver_time += r.time
        res.samples.append(r.as_sample())
        if r.status == "SUCCESSFUL":
            if r.covers_total and r.covers_sat == 0:
                res.inconclusive.append("harness %s is vacuous: no cover satisfied" % n)
                continue
            need = spec.get("min_covers", {}).get(n)
            if need is not None and r.covers_sat < need:
                res.inconclusive.append("harness %s: only %d/%d covers satisfied (need %d)"
                                        % (n, r.covers_sat, r.covers_total, need))
                continue
            res.distinct += 1
            if n in finding_keys:
                res.notes.append("harness %s (dedicated to known finding '%s') now passes"
                                 % (n, finding_keys[n]))
        elif r.status == "FAILED":
            # native replay is expensive: replay failing harnesses until one
            # counterexample has been confirmed, list the others unreplayed
            if res.violations and n not in finding_keys:
                res.extra.setdefault("failed_not_replayed", []).append(
                    {"harness": n, "failed_checks": r.failed_checks[:3]})
            else:
                handle_failure(res, spec, ov, n, r, stubbing, finding_keys)
        else:
            res.inconclusive.append("harness %s: %s (cap %ds / %d GB; log %s)"
                                    % (n, r.status, timeout, kani.MEM_CAP_GB, logpath))


def _harness_location(spec, name):
    hf = spec["harness_file"]
    if name in hf:
        return hf[name]
    best = None
    for k, v in hf.items():
        if name.startswith(k) and (best is None or len(k) > len(best[0])):
            best = (k, v)
    if best:
        return best[1]
    return hf["*"]


def handle_failure(res, spec, ov, name, r, stubbing, finding_keys):
    prop = res.prop
    out, failed, test = kani.run_single_verbose(ov, name, stubbing=stubbing,
                                                timeout_s=spec.get("timeout", {}).get("replay", 1800))
    desc = "; ".join("%s @ %s" % (f["description"], f["location"]) for f in failed[:3]) \
        or "; ".join(r.failed_checks[:3])
    only_unwind = failed and all("unwinding assertion" in f["description"] for f in failed)
    if only_unwind:
        res.inconclusive.append("harness %s: unwinding bound too small (%s)" % (name, desc))
        return
    unsupported = [f for f in failed if "unsupported" in f["description"].lower()
                   or "is not currently supported" in f["description"]]
    if failed and len(unsupported) == len(failed):
        res.inconclusive.append("harness %s: reached a construct Kani does not support (%s)" % (name, desc))
        return
    key = finding_keys.get(name, "kani:%s" % name)
    if test is None and name in spec.get("native_fallback", {}):
        # Kani could not print a playback test (typically out of memory in the trace run): confirm the
        # failing assertion by a native test that replays the harness' (small, bounded) input class
        import nativetest
        group, flt = spec["native_fallback"][name]
        nfailed, npassed, nout = nativetest.run_native_test(group, flt)
        obs = re.findall(r"NATIVE-FALLBACK (.*)", nout)
        res.extra.setdefault("native_replays", []).append({"harness": name, "test": flt, "failed": nfailed, "observed": obs[:8]})
        rdir = os.path.join(os.path.dirname(os.path.dirname(os.path.abspath(__file__))), "replays", prop)
        os.makedirs(rdir, exist_ok=True)
        path = os.path.join(rdir, name + ".native.log")
        with open(path, "w") as f:
            f.write(nout[-8000:])
        if nfailed:
            res.violation(key, "harness %s: %s (CBMC counterexample; Kani's trace run exhausted memory, failing inputs confirmed by "
                          "native replay of the harness' input class: %s)" % (name, desc, "; ".join(obs[:3])), path)
        else:
            res.inconclusive.append("harness %s failed under CBMC (%s) but neither a playback test nor the native fallback reproduced it" % (name, desc))
        return
    if test is None:
        # no concrete test could be generated; report as inconclusive, not violation
        rdir = os.path.join(os.path.dirname(os.path.dirname(os.path.abspath(__file__))), "replays", prop)
        os.makedirs(rdir, exist_ok=True)
        with open(os.path.join(rdir, name + ".kani.log"), "w") as f:
            f.write(out)
        res.inconclusive.append("harness %s failed (%s) but Kani produced no concrete playback test" % (name, desc))
        return
    hfile, inject_rel = _harness_location(spec, name)
    reproduced, path, rout = kani.native_replay(ov, prop, name, hfile, inject_rel, test)
    if reproduced:
        res.violation(key, "harness %s: %s (counterexample reproduced natively)" % (name, desc), path)
        res.extra.setdefault("counterexamples", []).append(
            {"harness": name, "failed_checks": failed[:3], "replay": path})
    else:
        res.inconclusive.append(
            "harness %s failed under CBMC (%s) but the counterexample did not reproduce natively "
            "(replay %s) - encoder/stub problem, not reported as violation" % (name, desc, path))
