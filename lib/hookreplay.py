"""Native replay of run-outcome sequences through the cfg(routinator_verif)
fault-injection hook in ValidationReport::process (real binary, real loop)."""
import os
import re
import shutil
import subprocess
import tempfile

from vcommon import ENV, WORK, build_overlay

HOOK_TARGET = os.path.join(WORK, "hook-target")


def build_binary():
    ov, tree_hash, _ = build_overlay("hook", [])
    env = dict(ENV)
    env["RUSTFLAGS"] = "--cfg routinator_verif"
    p = subprocess.run(["cargo", "build", "--offline", "--no-default-features",
                        "--target-dir", HOOK_TARGET], cwd=ov, env=env,
                       stdout=subprocess.PIPE, stderr=subprocess.STDOUT, text=True)
    binary = os.path.join(HOOK_TARGET, "debug", "routinator")
    if p.returncode != 0 or not os.path.exists(binary):
        return None, p.stdout[-2000:]
    return binary, ""


def run_command(binary, outcomes, command=("vrps",), timeout=10, broken_rrdp_archive=False):
    """Run `routinator <command>` with no TALs and forced run outcomes.
    With broken_rrdp_archive a zero-length RRDP archive file is planted in the cache, which makes
    Engine::sanitize fail (unexpected EOF while opening the archive).
    Returns (number of validation runs started, exit code or None on timeout, output tail)."""
    d = tempfile.mkdtemp(prefix="rv-replay-", dir=WORK)
    try:
        os.makedirs(os.path.join(d, "cache"))
        if broken_rrdp_archive:
            host = os.path.join(d, "cache", "rrdp", "rrdp.example.net")
            os.makedirs(host)
            open(os.path.join(host, "0123abcd"), "wb").close()
        os.makedirs(os.path.join(d, "tals"))
        env = dict(os.environ)
        env["ROUTINATOR_VERIF_RUN_OUTCOMES"] = ",".join(outcomes)
        env["HOME"] = d
        cmd = [binary, "--repository-dir", os.path.join(d, "cache"), "--no-rir-tals",
               "--extra-tals-dir", os.path.join(d, "tals")] + list(command)
        out_path = os.path.join(d, "out.txt")
        code = None
        with open(out_path, "w") as f:
            try:
                p = subprocess.run(cmd, cwd=d, env=env, stdout=f, stderr=subprocess.STDOUT, timeout=timeout)
                code = p.returncode
            except subprocess.TimeoutExpired:
                code = None
        n = 0
        tail = []
        with open(out_path, errors="replace") as f:
            for line in f:
                if "routinator_verif: validation run" in line:
                    n += 1
                elif len(tail) < 20:
                    tail.append(line.rstrip())
        return n, code, "\n".join(tail)
    finally:
        shutil.rmtree(d, ignore_errors=True)
