"""Slice of Config::apply_arg_matches that handles ONE command-line option: from the block that first reads
args.<name> to the block that first reads the next field of GlobalArgs (the function handles ~40 options, so
exploring it whole is out of reach: ~2^40 paths)."""
import copy
import re

import mir


def arg_slice(E, name, func="apply_arg_matches", struct="GlobalArgs"):
    body = E.prog.find("src/config.rs", "Config", func).parse()
    ga = mir.struct_fields(struct, "src/config.rs")
    ia = ga.index(name)
    start = local = end = None
    for bb, blk in body.blocks.items():
        if blk.get("cleanup"):
            continue
        for st_ in blk["stmts"]:
            m = re.search(r"\((_\d+)\.%d: " % ia, st_)
            if m and start is None:
                start, local = bb, m.group(1)
    if start is None:
        return None
    for bb, blk in body.blocks.items():
        if blk.get("cleanup") or bb == start:
            continue
        if end is None and any(re.search(r"\(%s\.%d: " % (re.escape(local), ia + 1), st_) for st_ in blk["stmts"]):
            end = bb
    if end is None:
        # straight-line handling: the next option is read later in the SAME block - cut the block there
        stmts = body.blocks[start]["stmts"]
        first = next(k for k, st_ in enumerate(stmts) if re.search(r"\(%s\.%d: " % (re.escape(local), ia), st_))
        cut = next((k for k, st_ in enumerate(stmts) if k > first and re.search(r"\(%s\.%d: " % (re.escape(local), ia + 1), st_)), None)
        if cut is None:
            return None
        b2 = copy.copy(body)
        b2.blocks = dict(body.blocks)
        b2.blocks["bb0"] = {"cleanup": False, "stmts": stmts[first:cut] + ["return;"]}
        return b2, local, ia, start, start
    b2 = copy.copy(body)
    b2.blocks = dict(body.blocks)
    b2.blocks["bb0"] = {"cleanup": False, "stmts": ["goto -> %s;" % start]}
    b2.blocks[end] = {"cleanup": False, "stmts": ["return;"]}
    return b2, local, ia, start, end


def arg_leaves(p, local, ia):
    """(discriminant, payload leaves {suffix: value}) of args.<field> as read on path p"""
    ad, pay = None, {}
    for k, v in p.mem.items():
        if isinstance(k, tuple) and k and k[0] == "F1:%s" % local and len(k) > 1 and k[1] == ("f", ia):
            if k[2:] == ("disc",):
                ad = v
            elif len(k) > 3 and k[2] == ("v", "Some"):
                pay[k[4:]] = v
    return ad, pay


def check_cli_number(res, E, mprop, name, flag, optional, consequence, func="apply_arg_matches", struct="GlobalArgs", cfg_name=None, accept=None):
    """A numeric option (accept(v_after, v_given): what counts as 'applied'; default: equality): given => the configured value becomes exactly the given number (Some(n) if the setting is
    optional), absent => it stays.  Returns the number of paths checked."""
    import z3
    sl = arg_slice(E, name, func, struct)
    if sl is None:
        res.inconclusive.append("%s: the blocks handling %s were not found" % (func, flag))
        return 0
    b2, local, ia, start, end = sl
    res.functions.append("routinator::config::Config::%s, slice %s..%s handling %s (MIR)" % (func, start, end, flag))
    cf = mir.struct_fields("Config", "src/config.rs")
    ic = cf.index(cfg_name or name)
    selfp = mir.Opq("&mut Config", "self")
    base = (("o", selfp.id), "deref", ("f", ic))
    c_d = z3.Int("configured_%s_disc" % name)
    c_v = z3.BitVec("configured_%s" % name, 64)
    E.solver.add(z3.And(c_d >= 0, c_d <= 1))

    def pre(E_, st, frame):
        if optional:
            st.mem[base + ("disc",)] = c_d
            st.mem[base + (("v", "Some"), ("f", 0))] = c_v
        else:
            st.mem[base] = c_v

    def widen(x):
        if mir.is_z(x) and z3.is_bv(x) and x.size() < 64:
            return z3.ZeroExt(64 - x.size(), x)
        return x
    n = 0
    for i, p in enumerate(E.explore(b2, max_visits=2, arg_values={"_1": {(): selfp}}, pre=pre, max_paths=500)):
        if p.kind != "return":
            continue
        n += 1
        ad, pay = arg_leaves(p, local, ia)
        if ad is None:
            res.inconclusive.append("apply_arg_matches %s slice path %d: the argument was not read" % (flag, i))
            continue
        av = widen(pay.get(()))
        if optional:
            d1 = p.mem.get(base + ("disc",))
            v1 = widen(p.mem.get(base + (("v", "Some"), ("f", 0))))
            if av is None:
                ok = z3.Implies(ad == 1, z3.BoolVal(False))
            else:
                ok = z3.And(z3.Implies(ad == 1, z3.And(d1 == 1, v1 == av)),
                            z3.Implies(ad == 0, z3.And(d1 == c_d, z3.Implies(c_d == 1, v1 == c_v))))
        else:
            v1 = widen(p.mem.get(base))
            if av is None:
                ok = z3.Implies(ad == 1, z3.BoolVal(False))
            else:
                ok = z3.And(z3.Implies(ad == 1, accept(v1, av) if accept else v1 == av), z3.Implies(ad == 0, v1 == c_v))
        try:
            m = E.model(p.cond, z3.Not(ok))
        except z3.Z3Exception as exc:
            res.inconclusive.append("apply_arg_matches %s slice path %d: values not comparable (%s)" % (flag, i, exc))
            continue
        if m is not None:
            what = "%s %s: the value in force afterwards is not %s" % (
                flag, "given" if m.eval(ad, True).as_long() == 1 else "absent",
                "the given number" if m.eval(ad, True).as_long() == 1 else "the configured one")
            fn = mprop.write_cex(res, "cli_%s_%d" % (name, i), p, E, what, m)
            res.violation("mir:cli-%s-not-applied" % name.replace("_", "-"), "the command line's %s is not applied as given (%s): %s" % (flag, what, consequence), fn)
            break
    res.distinct += n
    if n < 1:
        res.inconclusive.append("vacuity: %s slice has %d returning paths" % (flag, n))
    return n


def check_cli_flag(res, E, mprop, name, flag, consequence):
    """A switch: given => the setting is on afterwards, absent => the configured value stays (a switch on the
    command line never turns a setting off, and an absent one never turns it on)."""
    import z3
    sl = arg_slice(E, name)
    if sl is None:
        res.inconclusive.append("apply_arg_matches: the blocks handling %s were not found" % flag)
        return 0
    b2, local, ia, start, end = sl
    res.functions.append("routinator::config::Config::apply_arg_matches, slice %s..%s handling %s (MIR)" % (start, end, flag))
    cf = mir.struct_fields("Config", "src/config.rs")
    ic = cf.index(name)
    selfp = mir.Opq("&mut Config", "self")
    base = (("o", selfp.id), "deref", ("f", ic))
    c0 = z3.Bool("configured_%s" % name)
    given = z3.Bool("given_%s" % name)

    def pre(E_, st, frame):
        st.mem[base] = c0
        st.mem[("F1:%s" % local, ("f", ia))] = given
    n = 0
    for i, p in enumerate(E.explore(b2, max_visits=2, arg_values={"_1": {(): selfp}}, pre=pre, max_paths=200)):
        if p.kind != "return":
            continue
        n += 1
        post = p.mem.get(base)
        if isinstance(post, bool):
            post = z3.BoolVal(post)
        if not (mir.is_z(post) and z3.is_bool(post)):
            res.inconclusive.append("apply_arg_matches %s slice path %d: the setting is not a Boolean afterwards (%r)" % (flag, i, post))
            continue
        m = E.model(p.cond, z3.Not(post == z3.Or(given, c0)))
        if m is not None:
            what = "%s %s with the setting configured %s leaves it %s" % (
                flag, "given" if z3.is_true(m.eval(given, True)) else "absent", "on" if z3.is_true(m.eval(c0, True)) else "off",
                "on" if z3.is_true(m.eval(post, True)) else "off")
            fn = mprop.write_cex(res, "cli_%s_%d" % (name, i), p, E, what, m)
            res.violation("mir:cli-%s-not-applied" % name.replace("_", "-"), "the command line's %s is not applied as documented (%s): %s" % (flag, what, consequence), fn)
            break
    res.distinct += n
    if n < 1:
        res.inconclusive.append("vacuity: %s slice has %d returning paths" % (flag, n))
    return n
