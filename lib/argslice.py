"""Slice of Config::apply_arg_matches that handles ONE command-line option: from the block that first reads
args.<name> to the block that first reads the next field of GlobalArgs (the function handles ~40 options, so
exploring it whole is out of reach: ~2^40 paths)."""
import copy
import re

import mir


def arg_slice(E, name):
    body = E.prog.find("src/config.rs", "Config", "apply_arg_matches").parse()
    ga = mir.struct_fields("GlobalArgs", "src/config.rs")
    ia = ga.index(name)
    start = local = end = None
    for bb, blk in body.blocks.items():
        if blk.get("cleanup"):
            continue
        for st_ in blk["stmts"]:
            m = re.search(r"\((_\d+)\.%d: " % ia, st_)
            if m and start is None:
                start, local = bb, m.group(1)
    if start is None:
        return None
    for bb, blk in body.blocks.items():
        if blk.get("cleanup") or bb == start:
            continue
        if end is None and any(re.search(r"\(%s\.%d: " % (re.escape(local), ia + 1), st_) for st_ in blk["stmts"]):
            end = bb
    if end is None:
        return None
    b2 = copy.copy(body)
    b2.blocks = dict(body.blocks)
    b2.blocks["bb0"] = {"cleanup": False, "stmts": ["goto -> %s;" % start]}
    b2.blocks[end] = {"cleanup": False, "stmts": ["return;"]}
    return b2, local, ia, start, end


def arg_leaves(p, local, ia):
    """(discriminant, payload leaves {suffix: value}) of args.<field> as read on path p"""
    ad, pay = None, {}
    for k, v in p.mem.items():
        if isinstance(k, tuple) and k and k[0] == "F1:%s" % local and len(k) > 1 and k[1] == ("f", ia):
            if k[2:] == ("disc",):
                ad = v
            elif len(k) > 3 and k[2] == ("v", "Some"):
                pay[k[4:]] = v
    return ad, pay
