"""Native replay tests compiled into an overlay with --cfg routinator_verif (test profile)."""
import os
import re
import subprocess

from vcommon import ENV, WORK, build_overlay


def run_native_test(group, test_filter, timeout=1800):
    from vcommon import overlay_lock
    with overlay_lock("native-" + group):
        return _run_native_test(group, test_filter, timeout)


def _run_native_test(group, test_filter, timeout=1800):
    ov, tree_hash, _ = build_overlay("native-" + group, [group])
    env = dict(ENV)
    env["RUSTFLAGS"] = "--cfg routinator_verif"
    env["CARGO_TARGET_DIR"] = os.path.join(WORK, "native-target")
    cmd = ["cargo", "test", "--offline", "--no-default-features", "--lib", test_filter, "--", "--nocapture", "--test-threads", "1"]
    try:
        p = subprocess.run(cmd, cwd=ov, env=env, stdout=subprocess.PIPE, stderr=subprocess.STDOUT, text=True, timeout=timeout)
        out = p.stdout
    except subprocess.TimeoutExpired as e:
        out = (e.stdout or "") + "\nTIMEOUT"
    failed = bool(re.search(r"test result: FAILED", out))
    passed = bool(re.search(r"test result: ok\. [1-9]", out))
    return failed, passed, out
