"""Regenerates MANIFEST.json from props/REGISTRY.json (claimed checks) and the
fixed property list (everything else is not_applicable with its reason)."""
import json
import os

V = os.path.dirname(os.path.dirname(os.path.abspath(__file__)))
reg = json.load(open(os.path.join(V, "props", "REGISTRY.json")))
ids = [json.loads(l)["id"] for l in open(os.path.join(V, "properties.jsonl"))]
checks = []
na = []
for pid in ids:
    if pid in reg["claimed"]:
        c = reg["claimed"][pid]
        checks.append({
            "property_id": pid,
            "quick_cmd": "./check %s --tier quick" % pid,
            "thorough_cmd": "./check %s --tier thorough" % pid,
            "evidence_file": "/verif/evidence/%s.json" % pid,
            "engine": c["engine"],
            "level_claimed": {"category": "model_checking", "text": c["text"],
                              "design_ref": "DESIGN.md section 3, %s" % pid},
            "level_note": c["note"],
            "technique": c["technique"],
        })
    else:
        na.append({"property_id": pid, "reason": reg["not_applicable"][pid]})
m = {
    "version": 1,
    "setup_cmd": "./setup.sh",
    "hooks": reg["hooks"],
    "engines": reg["engines"],
    "checks": checks,
    "not_applicable": na,
    "notes": reg["notes"],
}
json.dump(m, open(os.path.join(V, "MANIFEST.json"), "w"), indent=1)
print("claimed", len(checks), "n/a", len(na))
