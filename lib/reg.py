"""reg.py <ID> <engine> <technique> <text> <note>  -- add/replace a claimed check in props/REGISTRY.json and regenerate MANIFEST.json"""
import json, os, sys, subprocess
V = os.path.dirname(os.path.dirname(os.path.abspath(__file__)))
p = os.path.join(V, "props", "REGISTRY.json")
reg = json.load(open(p))
pid, engine, technique, text, note = sys.argv[1:6]
reg["claimed"][pid] = {"engine": engine, "technique": technique, "text": text, "note": note}
for e in reg["engines"]:
    for part in engine.split("+"):
        if e["name"] == part and pid not in e["serves_properties"]:
            e["serves_properties"].append(pid)
            e["serves_properties"].sort()
json.dump(reg, open(p, "w"), indent=1)
subprocess.run([sys.executable, os.path.join(V, "lib", "gen_manifest.py")])
