"""MC engine: bounded model checking of thread interleavings with z3.

Each thread runs a *program automaton* extracted from the real MIR by the M
engine: a trie of the feasible paths of one function, whose nodes are the
visible operations (lock/unlock, map/set operations, fetches, ...) in the
order the compiled code performs them, and whose branching is keyed by the
outcome of the observing operations (e.g. `contains` -> true/false).  The
semantics of the primitives (mutex, rwlock, per-key map/set, counters) is a
small trusted library below.  The scheduler's choice at every step is a z3
integer; the property is asserted over all schedules of the stated number of
threads and steps (BMC unrolling of the product transition system).
"""
import re
import time

import z3

import mir


class Node:
    __slots__ = ("op", "next", "id")

    def __init__(self, op):
        self.op = op          # tuple: (prim, args...)
        self.next = {}        # outcome -> Node  (None key for unconditional)
        self.id = -1


def build_automaton(seqs):
    """seqs: list of [(op_tuple, outcome)] ; returns (root, nodes, END id)."""
    root = Node(("start",))
    for seq in seqs:
        cur = root
        key = None
        for op, outcome in seq:
            nxt = cur.next.get(key)
            if nxt is None:
                nxt = Node(op)
                cur.next[key] = nxt
            elif nxt.op != op:
                raise ValueError("paths disagree after the same prefix: %r vs %r" % (nxt.op, op))
            cur = nxt
            key = outcome
        end = cur.next.get(key)
        if end is None:
            cur.next[key] = Node(("end",))
    nodes = []

    def walk(n):
        n.id = len(nodes)
        nodes.append(n)
        for k in sorted(n.next, key=lambda x: str(x)):
            walk(n.next[k])
    walk(root)
    return root, nodes


def label_divergences(seqs):
    """Where paths share a prefix (operations and outcomes) and continue with different operations - a branch on
    something no modelled operation decides, e.g. the outcome of the fetch - insert an explicit ("choice", n)
    operation whose outcome k selects the continuation, so that the automaton keeps both."""
    seqs = [list(s) for s in seqs]
    site = 0
    while True:
        groups = {}
        for s in seqs:
            for i in range(len(s) + 1):
                groups.setdefault(tuple(s[:i]), set()).add(s[i][0] if i < len(s) else ("END",))
        conflict = sorted((p for p, nxt in groups.items() if len(nxt) > 1 and not any(o[0] == "choice" for o in nxt)), key=len)
        if not conflict:
            return seqs
        pre = conflict[0]
        order = sorted(groups[pre], key=str)
        site += 1
        for s in seqs:
            if tuple(s[:len(pre)]) == pre:
                nxt = s[len(pre)][0] if len(s) > len(pre) else ("END",)
                s.insert(len(pre), (("choice", site), order.index(nxt)))


W = 6
NONE = (1 << W) - 1        # "no thread / no mutex"
NOBRANCH = (1 << W) - 2    # automaton has no successor for the observed outcome


def IV(n):
    return z3.BitVecVal(n if n >= 0 else (NONE if n == -1 else NOBRANCH), W)


class Model:
    """Shared-state semantics + BMC unrolling (all numeric state is 6-bit: pure SAT problem)."""

    def __init__(self, nodes, n_threads, steps, rwlocks, mutex_slots=None):
        self.nodes = nodes
        self.k = n_threads
        self.T = steps
        self.rwlocks = rwlocks
        self.n_mutex = mutex_slots or n_threads
        if len(nodes) >= NOBRANCH or n_threads >= NONE:
            raise ValueError("automaton too large for the %d-bit encoding" % W)
        self.solver = z3.SolverFor("QF_BV")
        self.solver.set("timeout", 900000)
        self.states = []
        self.sched = []
        self.queries = 0
        self.solver_time = 0.0

    # ---- state ------------------------------------------------------------
    def init_state(self):
        s = {}
        for i in range(self.k):
            s["pc%d" % i] = IV(0)
            s["mid%d" % i] = IV(-1)       # the per-key mutex this thread holds a handle of
            s["done_at_ok%d" % i] = z3.BoolVal(True)
        for l in self.rwlocks:
            s["w_" + l] = IV(-1)
            s["r_" + l] = IV(0)
        s["member"] = z3.BoolVal(False)           # key in the `updated` set/map
        s["run_has"] = z3.BoolVal(False)          # key in the `running` map
        s["run_mid"] = IV(-1)
        s["next_mid"] = IV(0)
        for m in range(self.n_mutex):
            s["hold%d" % m] = IV(-1)
        s["named_hold"] = IV(-1)           # a named (non per-key) mutex, e.g. metrics
        s["fetch_active"] = IV(0)
        s["fetch_count"] = IV(0)
        s["fetch_overlap"] = z3.BoolVal(False)
        s["ret_during_fetch"] = z3.BoolVal(False)
        s["ret_before_member"] = z3.BoolVal(False)
        return s

    def op_semantics(self, node, s, i):
        """Returns (enabled, updates dict, next_pc expr) for thread i at node."""
        op = node.op
        prim = op[0]
        en = z3.BoolVal(True)
        up = {}

        def nxt_uncond():
            n = node.next.get(None)
            return IV(n.id) if n is not None else IV(node.id)

        nxt = nxt_uncond()
        mid = s["mid%d" % i]
        if prim in ("start", "nop"):
            pass
        elif prim == "end":
            en = z3.BoolVal(False)
        elif prim == "rw_read":
            l = op[1]
            en = s["w_" + l] == IV(-1)
            up["r_" + l] = s["r_" + l] + 1
        elif prim == "rw_write":
            l = op[1]
            en = z3.And(s["w_" + l] == IV(-1), s["r_" + l] == IV(0))
            up["w_" + l] = IV(i)
        elif prim == "rw_unlock_read":
            up["r_" + op[1]] = s["r_" + op[1]] - 1
        elif prim == "rw_unlock_write":
            up["w_" + op[1]] = IV(-1)
        elif prim == "observe_member":
            t, f = node.next.get(True), node.next.get(False)
            tid = IV(t.id) if t is not None else IV(-2)
            fid = IV(f.id) if f is not None else IV(-2)
            nxt = z3.If(s["member"], tid, fid)
        elif prim == "entry_or_default":
            # get the mutex stored under the key, creating one if absent
            create = z3.Not(s["run_has"])
            up["run_has"] = z3.BoolVal(True)
            up["run_mid"] = z3.If(create, s["next_mid"], s["run_mid"])
            up["next_mid"] = z3.If(create, s["next_mid"] + 1, s["next_mid"])
            up["mid%d" % i] = z3.If(create, s["next_mid"], s["run_mid"])
        elif prim == "observe_running":
            # look the key's mutex up without creating one: the thread takes a handle of the stored mutex if any
            t, f = node.next.get(True), node.next.get(False)
            tid = IV(t.id) if t is not None else IV(-2)
            fid = IV(f.id) if f is not None else IV(-2)
            nxt = z3.If(s["run_has"], tid, fid)
            up["mid%d" % i] = z3.If(s["run_has"], s["run_mid"], mid)
        elif prim == "running_insert":
            # store a freshly created mutex under the key (whatever was there is replaced); the thread keeps its handle
            up["run_has"] = z3.BoolVal(True)
            up["run_mid"] = s["next_mid"]
            up["next_mid"] = s["next_mid"] + 1
            up["mid%d" % i] = s["next_mid"]
        elif prim == "mutex_lock":
            conds = []
            for m in range(self.n_mutex):
                conds.append(z3.And(mid == IV(m), s["hold%d" % m] == IV(-1)))
                up["hold%d" % m] = z3.If(mid == IV(m), IV(i), s["hold%d" % m])
            en = z3.Or(conds)
        elif prim == "mutex_unlock":
            for m in range(self.n_mutex):
                up["hold%d" % m] = z3.If(z3.And(mid == IV(m), s["hold%d" % m] == IV(i)), IV(-1), s["hold%d" % m])
        elif prim == "named_lock":
            en = s["named_hold"] == IV(-1)
            up["named_hold"] = IV(i)
        elif prim == "named_unlock":
            up["named_hold"] = IV(-1)
        elif prim == "fetch_begin":
            up["fetch_overlap"] = z3.Or(s["fetch_overlap"], s["fetch_active"] != IV(0))
            up["fetch_active"] = s["fetch_active"] + 1
            up["fetch_count"] = s["fetch_count"] + 1
        elif prim == "fetch_end":
            up["fetch_active"] = s["fetch_active"] - 1
        elif prim == "map_remove":
            up["run_has"] = z3.BoolVal(False)
            up["run_mid"] = IV(-1)
        elif prim == "member_insert":
            up["member"] = z3.BoolVal(True)
        elif prim == "choice":
            # a branch the environment decides (e.g. the outcome of the fetch): any successor may be taken
            self._nchoice = getattr(self, "_nchoice", 0) + 1
            var = z3.BitVec("choice_%d" % self._nchoice, W)
            keys = sorted(k for k in node.next if k is not None)
            nxt = IV(node.next[keys[-1]].id)
            for k in keys[:-1]:
                nxt = z3.If(var == IV(k), IV(node.next[k].id), nxt)
        else:
            raise ValueError("unknown primitive %r" % (op,))
        return en, up, nxt

    def unroll(self):
        s = self.init_state()
        self.states = [s]
        end_ids = [n.id for n in self.nodes if n.op[0] == "end"]
        for t in range(self.T):
            ch = z3.BitVec("sched_%d" % t, W)
            self.sched.append(ch)
            self.solver.add(z3.Or(ch == IV(-1), z3.ULT(ch, IV(self.k))))
            if t > 0:
                # idle steps only as a suffix of the schedule
                self.solver.add(z3.Implies(self.sched[t - 1] == IV(-1), ch == IV(-1)))
            new = {}
            cases = []      # (cond, updates, next_pc, thread)
            enabled_any = []
            for i in range(self.k):
                for n in self.nodes:
                    if n.op[0] == "end":
                        continue
                    c = z3.And(ch == IV(i), s["pc%d" % i] == IV(n.id))
                    en, up, nxt = self.op_semantics(n, s, i)
                    self.solver.add(z3.Implies(c, en))
                    # reaching node id -2 means the automaton has no branch for the observed outcome
                    self.solver.add(z3.Implies(c, nxt != IV(-2)))
                    up = dict(up)
                    up["pc%d" % i] = nxt
                    # "returns" bookkeeping: moving to an end node
                    is_end = z3.Or([nxt == IV(e) for e in end_ids]) if end_ids else z3.BoolVal(False)
                    up["ret_during_fetch"] = z3.Or(s["ret_during_fetch"],
                                                   z3.And(is_end, s["fetch_active"] != IV(0)))
                    up["ret_before_member"] = z3.Or(s["ret_before_member"],
                                                    z3.And(is_end, z3.Not(up.get("member", s["member"]))))
                    cases.append((c, up))
            # a thread sitting at an end node cannot be scheduled
            for i in range(self.k):
                for e in end_ids:
                    self.solver.add(z3.Not(z3.And(ch == IV(i), s["pc%d" % i] == IV(e))))
            for v in s:
                expr = s[v]
                for c, up in cases:
                    if v in up:
                        expr = z3.If(c, up[v], expr)
                nv = z3.Const("%s@%d" % (v, t + 1), s[v].sort())
                self.solver.add(nv == expr)
                new[v] = nv
            s = new
            self.states.append(s)

    def check(self, bad_of_state, name, final_only=False):
        """Is there a schedule reaching a state (at any step) where bad holds?"""
        self.queries += 1
        t0 = time.time()
        self.solver.push()
        if final_only:
            self.solver.add(bad_of_state(self.states[-1]))
        else:
            self.solver.add(z3.Or([bad_of_state(s) for s in self.states]))
        r = self.solver.check()
        trace = None
        if r == z3.sat:
            m = self.solver.model()
            trace = self.decode(m)
        self.solver.pop()
        self.solver_time += time.time() - t0
        if r == z3.unknown:
            raise mir.Inconclusive("z3 unknown on MC query %s" % name)
        return trace

    def decode(self, m):
        out = []
        for t, ch in enumerate(self.sched):
            i = m.eval(ch, model_completion=True).as_long()
            if i == NONE:
                continue
            pc = m.eval(self.states[t]["pc%d" % i], model_completion=True).as_long()
            node = self.nodes[pc]
            st = self.states[t + 1]
            row = {"step": t, "thread": i, "op": " ".join(str(x) for x in node.op),
                   "member": str(m.eval(st["member"], True)), "running_has": str(m.eval(st["run_has"], True)),
                   "fetches": m.eval(st["fetch_count"], True).as_long()}
            if node.op[0] == "choice":
                npc = m.eval(st["pc%d" % i], model_completion=True).as_long()
                row["choice"] = [k for k, n in node.next.items() if n.id == npc][0]
            out.append(row)
        return out


def simulate(nodes, n_threads, schedule, rwlocks):
    """Concrete re-execution of a schedule (list of thread ids) on the automaton:
    independent of z3; used to validate a counterexample before it is reported."""
    pc = [0] * n_threads
    mid = [-1] * n_threads
    st = {"member": False, "run_has": False, "run_mid": -1, "next_mid": 0, "hold": {}, "named": -1,
          "w": {l: -1 for l in rwlocks}, "r": {l: 0 for l in rwlocks},
          "fetch_active": 0, "fetch_count": 0, "ret_during_fetch": False, "overlap": False}
    for i in schedule:
        pick = None
        if isinstance(i, tuple):
            i, pick = i
        node = nodes[pc[i]]
        op = node.op
        p = op[0]
        nxt = node.next.get(None)
        if p == "end":
            return None
        if p == "rw_read":
            if st["w"][op[1]] != -1:
                return None
            st["r"][op[1]] += 1
        elif p == "rw_write":
            if st["w"][op[1]] != -1 or st["r"][op[1]] != 0:
                return None
            st["w"][op[1]] = i
        elif p == "rw_unlock_read":
            st["r"][op[1]] -= 1
        elif p == "rw_unlock_write":
            st["w"][op[1]] = -1
        elif p == "observe_member":
            nxt = node.next.get(st["member"])
            if nxt is None:
                return None
        elif p == "entry_or_default":
            if not st["run_has"]:
                st["run_has"] = True
                st["run_mid"] = st["next_mid"]
                st["next_mid"] += 1
            mid[i] = st["run_mid"]
        elif p == "observe_running":
            nxt = node.next.get(st["run_has"])
            if nxt is None:
                return None
            if st["run_has"]:
                mid[i] = st["run_mid"]
        elif p == "running_insert":
            st["run_has"] = True
            st["run_mid"] = st["next_mid"]
            mid[i] = st["next_mid"]
            st["next_mid"] += 1
        elif p == "mutex_lock":
            if st["hold"].get(mid[i], -1) != -1:
                return None
            st["hold"][mid[i]] = i
        elif p == "mutex_unlock":
            if st["hold"].get(mid[i], -1) == i:
                st["hold"][mid[i]] = -1
        elif p == "named_lock":
            if st["named"] != -1:
                return None
            st["named"] = i
        elif p == "named_unlock":
            st["named"] = -1
        elif p == "fetch_begin":
            if st["fetch_active"] > 0:
                st["overlap"] = True
            st["fetch_active"] += 1
            st["fetch_count"] += 1
        elif p == "fetch_end":
            st["fetch_active"] -= 1
        elif p == "map_remove":
            st["run_has"] = False
            st["run_mid"] = -1
        elif p == "member_insert":
            st["member"] = True
        elif p == "choice":
            nxt = node.next.get(pick)
            if nxt is None:
                return None
        pc[i] = nxt.id
        if nodes[pc[i]].op[0] == "end" and st["fetch_active"] > 0:
            st["ret_during_fetch"] = True
    return st


class GModel:
    """Generic BMC over threads with (possibly different) operation automata.

    progs: list (one per thread) of node lists (from build_automaton);
    init:  dict name -> z3 value (shared + per-thread state, WITHOUT the pcs);
    sem:   function(node, state, tid) -> (enabled BoolRef, updates dict, next_pc expr or None for the
           automaton's unconditional successor);
    watch: names of state variables reported in a decoded schedule.
    """

    def __init__(self, progs, init, sem, steps, watch=()):
        self.progs = progs
        self.k = len(progs)
        self.T = steps
        self.sem = sem
        self.watch = list(watch)
        self.solver = z3.SolverFor("QF_BV")
        self.solver.set("timeout", 900000)
        self.queries = 0
        self.solver_time = 0.0
        s = dict(init)
        for i in range(self.k):
            s["pc%d" % i] = IV(0)
        self.states = [s]
        self.sched = []
        for t in range(self.T):
            ch = z3.BitVec("gsched_%d" % t, W)
            self.sched.append(ch)
            self.solver.add(z3.Or(ch == IV(-1), z3.ULT(ch, IV(self.k))))
            if t > 0:
                self.solver.add(z3.Implies(self.sched[t - 1] == IV(-1), ch == IV(-1)))
            cases = []
            for i, nodes in enumerate(progs):
                for n in nodes:
                    c = z3.And(ch == IV(i), s["pc%d" % i] == IV(n.id))
                    if n.op[0] == "end":
                        self.solver.add(z3.Not(c))
                        continue
                    en, up, nxt = sem(n, s, i)
                    if nxt is None:
                        succ = n.next.get(None)
                        nxt = IV(succ.id) if succ is not None else IV(-2)
                    self.solver.add(z3.Implies(c, en))
                    self.solver.add(z3.Implies(c, nxt != IV(-2)))
                    up = dict(up)
                    up["pc%d" % i] = nxt
                    cases.append((c, up))
            new = {}
            for v in s:
                expr = s[v]
                for c, up in cases:
                    if v in up:
                        expr = z3.If(c, up[v], expr)
                nv = z3.Const("%s#%d" % (v, t + 1), s[v].sort())
                self.solver.add(nv == expr)
                new[v] = nv
            s = new
            self.states.append(s)

    def at_end(self, s, i):
        ends = [n.id for n in self.progs[i] if n.op[0] == "end"]
        return z3.Or([s["pc%d" % i] == IV(e) for e in ends]) if ends else z3.BoolVal(False)

    def at_op(self, s, i, opname):
        ids = [n.id for n in self.progs[i] if n.op[0] == opname]
        return z3.Or([s["pc%d" % i] == IV(e) for e in ids]) if ids else z3.BoolVal(False)

    def check(self, bad_of_state, name, final_only=True, extra=None):
        self.queries += 1
        t0 = time.time()
        self.solver.push()
        if extra is not None:
            self.solver.add(extra)
        if final_only:
            self.solver.add(bad_of_state(self.states[-1]))
        else:
            self.solver.add(z3.Or([bad_of_state(s) for s in self.states]))
        r = self.solver.check()
        trace = None
        if r == z3.sat:
            trace = self.decode(self.solver.model())
        self.solver.pop()
        self.solver_time += time.time() - t0
        if r == z3.unknown:
            raise mir.Inconclusive("z3 unknown on MC query %s" % name)
        return trace

    def decode(self, m):
        out = []
        for t, ch in enumerate(self.sched):
            i = m.eval(ch, model_completion=True).as_long()
            if i == NONE:
                continue
            pc = m.eval(self.states[t]["pc%d" % i], model_completion=True).as_long()
            node = self.progs[i][pc]
            st = self.states[t + 1]
            row = {"step": t, "thread": i, "op": " ".join(str(x) for x in node.op)}
            for w in self.watch:
                row[w] = str(m.eval(st[w], model_completion=True))
            out.append(row)
        return out
