"""Helpers shared by the MIR-engine (M) specs."""
import os
import re
import time

import z3

import mir
from vcommon import VERIF, source_hashes

_ENGINE = {}


def engine(res):
    """One parsed program per process; a fresh Engine (solver) per property part."""
    if "prog" not in _ENGINE:
        t0 = time.time()
        path, tree_hash, dt = mir.dump_mir()
        prog = mir.Program(path)
        prog.tree_hash = tree_hash
        prog.dump_time = dt
        _ENGINE["prog"] = prog
        _ENGINE["load_time"] = time.time() - t0
    prog = _ENGINE["prog"]
    E = mir.Engine(prog, res)
    res.extra.setdefault("source_tree_sha256", prog.tree_hash)
    res.extra.setdefault("mir_dump", {"file": os.path.basename(prog.path),
                                      "regenerated_this_run": prog.dump_time > 0,
                                      "dump_s": round(prog.dump_time, 1)})
    eng = "M: own symbolic executor over `rustc +nightly -Zunpretty=mir` of the real crate; z3 %s" % z3.get_version_string()
    if eng not in res.engines:
        res.engines.append(eng)
    return E


def finish_engine(res, E):
    res.evaluations += E.queries
    res.solver_time += E.solver_time
    w = getattr(E, "warnings", {})
    if w:
        res.extra.setdefault("encoder_warnings", {}).update({k: v for k, v in list(w.items())[:10]})


def path_sample(p, maxev=14):
    evs = [e.name for e in p.events if e.kind in ("call", "enter", "panic", "drop")]
    return {"kind": p.kind, "events": evs[:maxev] + (["..."] if len(evs) > maxev else []),
            "blocks": len(p.trace)}


def write_cex(res, name, p, E, what, model=None, extra=None):
    """Write a counterexample path file and return its path."""
    d = os.path.join(VERIF, "replays", res.prop)
    os.makedirs(d, exist_ok=True)
    fn = os.path.join(d, name + ".mirpath.txt")
    with open(fn, "w") as f:
        f.write("property %s: %s\n" % (res.prop, what))
        f.write("MIR dump: %s (source tree sha256 %s)\n\n" % (E.prog.path, getattr(E.prog, "tree_hash", "?")))
        f.write("events on the path (opaque calls in order):\n")
        for e in p.events:
            f.write("  %-8s %s   @%s %s\n" % (e.kind, e.name, e.where[0][-70:], e.where[1]))
        f.write("\nblock trace:\n  " + " ".join("%s/%s" % t for t in p.trace) + "\n")
        f.write("\npath condition:\n")
        for c in p.cond:
            f.write("  " + str(z3.simplify(c)).replace("\n", " ") + "\n")
        if model is not None:
            f.write("\nmodel:\n")
            for d_ in model.decls():
                f.write("  %s = %s\n" % (d_.name(), model[d_]))
        if extra:
            f.write("\n" + extra + "\n")
    return fn


def ok_true(p):
    """z3 condition: path returned Result::Ok(true)."""
    d = p.ret.get(("disc",))
    v = p.ret.get((("v", "Ok"), ("f", 0)))
    return d, v
