"""Declarative 'X only after Y succeeded' obligations over explored MIR paths."""
import re

import z3

import mir
import mprop


def disc_of(E, p, ev):
    if ev.dest is None:
        return None
    leaf = ev.dest.get(())
    if isinstance(leaf, mir.Opq):
        return mir.peek(E, p.mem, (("o", leaf.id), "disc"))
    return ev.dest.get(("disc",))


def must(E, p, c):
    return not E.feasible(p.cond, z3.Not(c))


def is_ok(E, p, ev):
    d = disc_of(E, p, ev)
    return None if d is None else d == 0


def is_err(E, p, ev):
    d = disc_of(E, p, ev)
    return None if d is None else d == 1


def is_some(E, p, ev):
    d = disc_of(E, p, ev)
    return None if d is None else d == 1


def is_none(E, p, ev):
    d = disc_of(E, p, ev)
    return None if d is None else d == 0


def ok_some(E, p, ev):
    """Result<Option<_>,_> is Ok(Some(_))."""
    leaf = ev.dest.get(()) if ev.dest else None
    if not isinstance(leaf, mir.Opq):
        return None
    d = mir.peek(E, p.mem, (("o", leaf.id), "disc"))
    od = mir.peek(E, p.mem, (("o", leaf.id), ("v", "Ok"), ("f", 0), "disc"))
    if d is None or od is None:
        return None
    return z3.And(d == 0, od == 1)


def ok_true(E, p, ev):
    leaf = ev.dest.get(()) if ev.dest else None
    if not isinstance(leaf, mir.Opq):
        return None
    d = mir.peek(E, p.mem, (("o", leaf.id), "disc"))
    v = mir.peek(E, p.mem, (("o", leaf.id), ("v", "Ok"), ("f", 0)))
    if d is None or v is None or not mir.is_z(v):
        return None
    return z3.And(d == 0, v)


def is_true(E, p, ev):
    v = ev.dest.get(()) if ev.dest else None
    return v if mir.is_z(v) else None


def is_false(E, p, ev):
    v = ev.dest.get(()) if ev.dest else None
    return z3.Not(v) if mir.is_z(v) else None


def check_gates(res, E, paths, fn_label, target_pat, obligations, scope_pat=None, key_prefix="mir:gate"):
    """For every occurrence of an event matching target_pat on a feasible path, every obligation
    (pattern, predicate, description) must have a matching earlier event (within the scope that
    starts at the last event matching scope_pat) whose predicate is forced by the path condition.
    Returns number of target occurrences checked."""
    n = 0
    reported = set()
    for i, p in enumerate(paths):
        if p.kind not in ("return", "bound", "diverge"):
            continue
        evs = p.events
        for x, e in enumerate(evs):
            if e.kind not in ("call", "pure") or not re.search(target_pat, e.name):
                continue
            n += 1
            start = 0
            if scope_pat:
                idx = [y for y, f in enumerate(evs[:x]) if re.search(scope_pat, f.name)]
                start = idx[-1] if idx else 0
            scope = evs[start:x]
            for pat, pred, desc in obligations:
                cands = [f for f in scope if f.kind in ("call", "pure") and re.search(pat, f.name)]
                tname = e.name.split("::")[-1]
                if not cands:
                    k = "%s:%s:%s:not-consulted:%s" % (key_prefix, fn_label, tname, desc.split()[0])
                    if k not in reported:
                        reported.add(k)
                        fn = mprop.write_cex(res, "%s_%s_skips_%s_%d" % (fn_label, tname, re.sub(r"\W+", "_", desc)[:30], i), p, E,
                                             "%s: %s reached without '%s' being evaluated" % (fn_label, e.name, desc))
                        res.violation(k, "%s: %s is reached on a path that never evaluates '%s'" % (fn_label, e.name, desc), fn)
                    continue
                c = pred(E, p, cands[-1])
                if c is None or not must(E, p, c):
                    k = "%s:%s:%s:not-enforced:%s" % (key_prefix, fn_label, tname, desc.split()[0])
                    if k not in reported:
                        reported.add(k)
                        fn = mprop.write_cex(res, "%s_%s_ignores_%s_%d" % (fn_label, tname, re.sub(r"\W+", "_", desc)[:30], i), p, E,
                                             "%s: %s reachable although '%s' does not hold" % (fn_label, e.name, desc))
                        res.violation(k, "%s: %s is reachable although '%s' failed" % (fn_label, e.name, desc), fn)
    return n
