// C28 harnesses, compiled inside crate::utils::binio (overlay only).
// Round trips through a fixed stack buffer: `&mut [u8]` is the writer, `&[u8]` the reader.
use super::*;

fn written(total: usize, rest: &[u8]) -> usize { total - rest.len() }

macro_rules! roundtrip {
    ($name:ident, $ty:ty, $size:expr, $unwind:expr) => {
        #[kani::proof]
        #[kani::unwind($unwind)]
        fn $name() {
            let v: $ty = kani::any();
            let mut buf = [0u8; $size + 4];
            let n;
            {
                let mut w = &mut buf[..];
                assert!(v.compose(&mut w).is_ok());
                n = written($size + 4, w);
            }
            assert!(n == $size, "encoding has an unexpected length");
            let mut r = &buf[..n];
            let back = <$ty as Parse<&[u8]>>::parse(&mut r);
            assert!(back.is_ok(), "a written value does not parse");
            assert!(back.unwrap() == v, "a written value reads back differently");
            assert!(r.is_empty(), "the parser did not consume exactly the bytes written");
            kani::cover!(true, "reached");
        }
    };
}

roundtrip!(c28_roundtrip_u8, u8, 1, 6);
roundtrip!(c28_roundtrip_u32, u32, 4, 10);
roundtrip!(c28_roundtrip_u64, u64, 8, 14);
roundtrip!(c28_roundtrip_i64, i64, 8, 14);

#[kani::proof]
#[kani::unwind(14)]
fn c28_roundtrip_opt_i64() {
    let v: Option<i64> = kani::any();
    let mut buf = [0u8; 12];
    let n;
    {
        let mut w = &mut buf[..];
        assert!(v.compose(&mut w).is_ok());
        n = written(12, w);
    }
    assert!(n == if v.is_some() { 9 } else { 1 });
    let mut r = &buf[..n];
    let back = Option::<i64>::parse(&mut r);
    assert!(back.is_ok() && back.unwrap() == v, "Option<i64> reads back differently");
    assert!(r.is_empty());
    kani::cover!(v.is_none(), "none");
    kani::cover!(v.is_some(), "some");
}

#[kani::proof]
#[kani::unwind(22)]
fn c28_roundtrip_uuid() {
    let raw: [u8; 16] = kani::any();
    let v = Uuid::from_bytes(raw);
    let mut buf = [0u8; 20];
    let n;
    {
        let mut w = &mut buf[..];
        assert!(v.compose(&mut w).is_ok());
        n = written(20, w);
    }
    assert!(n == 16);
    let mut r = &buf[..n];
    let back = Uuid::parse(&mut r);
    assert!(back.is_ok());
    let b = back.unwrap();
    let bb = b.as_bytes();
    let mut i = 0;
    while i < 16 { assert!(bb[i] == raw[i], "Uuid reads back differently"); i += 1; }
    assert!(r.is_empty());
    kani::cover!(true, "reached");
}

#[kani::proof]
#[kani::unwind(38)]
fn c28_roundtrip_hash() {
    let raw: [u8; 32] = kani::any();
    let v = rrdp::Hash::from(raw);
    let mut buf = [0u8; 36];
    let n;
    {
        let mut w = &mut buf[..];
        assert!(v.compose(&mut w).is_ok());
        n = written(36, w);
    }
    assert!(n == 32);
    let mut r = &buf[..n];
    let back = rrdp::Hash::parse(&mut r);
    assert!(back.is_ok());
    let b = back.unwrap();
    let bs = b.as_slice();
    let mut i = 0;
    while i < 32 { assert!(bs[i] == raw[i], "Hash reads back differently"); i += 1; }
    assert!(r.is_empty());
    kani::cover!(true, "reached");
}

/// The None markers of the optional encodings cannot collide with a Some value that is written.
#[kani::proof]
#[kani::unwind(14)]
fn c28_opt_markers_distinct() {
    // Option<Bytes>: None is the length u64::MAX; a Some(bytes) writes its real length
    let len: u64 = kani::any();
    kani::assume(len < u64::MAX);          // usize lengths of real buffers are far below
    let mut buf = [0u8; 8];
    {
        let mut w = &mut buf[..];
        assert!(len.compose(&mut w).is_ok());
    }
    let mut r = &buf[..];
    let parsed = u64::parse(&mut r).unwrap();
    assert!(parsed != u64::MAX, "a Some(_) length is read as the None marker");
    kani::cover!(true, "reached");
}

/// Serial (manifest number, 20 octets): every value that `from_array` accepts is written as 20 octets that
/// read back as the same value, leaving the reader empty.
#[kani::proof]
#[kani::unwind(22)]
fn c28_roundtrip_serial() {
    let raw: [u8; 20] = kani::any();
    let v = match Serial::from_array(raw) {
        Ok(v) => v,
        Err(_) => return,
    };
    let mut buf = [0u8; 24];
    let n;
    {
        let mut w = &mut buf[..];
        assert!(v.compose(&mut w).is_ok());
        n = written(24, w);
    }
    assert!(n == 20, "encoding has an unexpected length");
    let mut r = &buf[..n];
    let back = <Serial as Parse<&[u8]>>::parse(&mut r);
    assert!(back.is_ok(), "a written serial does not parse");
    let b = back.unwrap().into_array();
    let a = v.into_array();
    let mut i = 0;
    while i < 20 { assert!(a[i] == b[i], "Serial reads back differently"); i += 1; }
    assert!(r.is_empty(), "the parser did not consume exactly the bytes written");
    kani::cover!(raw[0] != 0, "value above 2^152");
    kani::cover!(true, "reached");
}
