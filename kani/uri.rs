// C31 harnesses, compiled inside crate::utils::uri (overlay only).
use super::*;

/// A URI whose authority is whatever the harness says.  Uses the trait's
/// provided `has_dubious_authority`, i.e. the real implementation.
struct AuthOnly<'a>(&'a str);

impl UriExt for AuthOnly<'_> {
    fn get_authority(&self) -> &str { self.0 }
    fn unique_components(&self) -> (Cow<'_, str>, Digest) { unreachable!() }
}

fn lower(b: u8) -> u8 { if b >= b'A' && b <= b'Z' { b + 32 } else { b } }

/// Reference: is this byte string the name "localhost" in any letter case?
fn is_localhost(a: &[u8]) -> bool {
    const L: &[u8; 9] = b"localhost";
    if a.len() != 9 { return false }
    let mut i = 0;
    while i < 9 {
        if lower(a[i]) != L[i] { return false }
        i += 1;
    }
    true
}

fn has_colon(a: &[u8]) -> bool {
    let mut i = 0;
    while i < a.len() { if a[i] == b':' { return true } i += 1; }
    false
}

/// Reference: dotted quad of decimal octets 0..=255 without leading zeros.
fn is_ipv4_literal(a: &[u8]) -> bool {
    let mut groups = 0u8;
    let mut digits = 0u8;
    let mut val: u16 = 0;
    let mut lead_zero = false;
    let mut i = 0;
    while i < a.len() {
        let c = a[i];
        if c >= b'0' && c <= b'9' {
            if digits == 0 { lead_zero = c == b'0'; }
            else if lead_zero { return false }
            digits += 1;
            if digits > 3 { return false }
            val = val * 10 + (c - b'0') as u16;
            if val > 255 { return false }
        }
        else if c == b'.' {
            if digits == 0 { return false }
            groups += 1;
            if groups > 3 { return false }
            digits = 0; val = 0; lead_zero = false;
        }
        else { return false }
        i += 1;
    }
    groups == 3 && digits > 0
}

fn check_auth<const N: usize>() {
    let a: [u8; N] = kani::any();
    let mut i = 0;
    while i < N {
        // host characters the rpki-rs URI parser lets through in an authority
        kani::assume(a[i] > 0x20 && a[i] < 0x7f && a[i] != b'/' && a[i] != b'@');
        i += 1;
    }
    let s = unsafe { core::str::from_utf8_unchecked(&a) };
    let got = AuthOnly(s).has_dubious_authority();
    if is_localhost(&a) { assert!(got, "localhost (any letter case) not flagged as dubious"); }
    if has_colon(&a) { assert!(got, "authority with explicit port / IPv6 literal not flagged"); }
    if is_ipv4_literal(&a) { assert!(got, "IPv4 literal not flagged"); }
    kani::cover!(got, "some_dubious");
    kani::cover!(!got, "some_plain");
    kani::cover!(is_ipv4_literal(&a), "ipv4_reachable");
}

#[kani::proof]
#[kani::unwind(12)]
fn c31_auth_len7() { check_auth::<7>() }

#[kani::proof]
#[kani::unwind(12)]
fn c31_auth_len9() { check_auth::<9>() }

#[kani::proof]
#[kani::unwind(14)]
fn c31_auth_len8() { check_auth::<8>() }

#[kani::proof]
#[kani::unwind(14)]
fn c31_auth_len11() { check_auth::<11>() }

/// "localhost" in every letter case, nothing else symbolic: cheap and direct.
#[kani::proof]
#[kani::unwind(12)]
fn c31_localhost_case() {
    let up: [bool; 9] = kani::any();
    let mut a = *b"localhost";
    let mut i = 0;
    while i < 9 { if up[i] { a[i] -= 32; } i += 1; }
    let s = unsafe { core::str::from_utf8_unchecked(&a) };
    assert!(AuthOnly(s).has_dubious_authority(), "localhost (any letter case) not flagged as dubious");
    kani::cover!(up[0] && !up[1], "mixed_case");
}
