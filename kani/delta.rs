// C11 harnesses, compiled inside crate::payload::delta (overlay only).
// Instantiation: StandardDelta::<u8> (the generic body is shared by RouteOrigin
// and RouterKey, which differ only in their Ord impl).
use super::*;

fn contains<const N: usize>(a: &[u8; N], x: u8) -> bool {
    let mut i = 0;
    while i < N { if a[i] == x { return true } i += 1; }
    false
}

/// A strictly ascending array: the representation of a data set.
fn sorted<const N: usize>() -> [u8; N] {
    let a: [u8; N] = kani::any();
    let mut i = 1;
    while i < N { kani::assume(a[i - 1] < a[i]); i += 1; }
    a
}

fn is_announce(a: Action) -> bool { matches!(a, Action::Announce) }

/// Expected numbers of announced / withdrawn items, from the sets alone.
fn expected<const A: usize, const B: usize>(a: &[u8; A], b: &[u8; B]) -> (usize, usize) {
    let mut exp_ann = 0usize;
    let mut exp_wd = 0usize;
    let mut j = 0;
    while j < B { if !contains(a, b[j]) { exp_ann += 1 } j += 1; }
    j = 0;
    while j < A { if !contains(b, a[j]) { exp_wd += 1 } j += 1; }
    (exp_ann, exp_wd)
}

/// Counts, length and emptiness of the delta are exactly those of the set difference.
fn construct_counts<const A: usize, const B: usize>() {
    let a = sorted::<A>();
    let b = sorted::<B>();
    let d = StandardDelta::<u8>::construct(a.iter(), b.iter());
    let (exp_ann, exp_wd) = expected(&a, &b);
    assert!(d.announce_len == exp_ann, "announce count differs from |new - old|");
    assert!(d.withdraw_len == exp_wd, "withdraw count differs from |old - new|");
    assert!(d.items.len() == exp_ann + exp_wd, "number of listed actions differs from the counts");
    assert!(d.is_empty() == (exp_ann == 0 && exp_wd == 0), "empty exactly when the sets are equal");
    kani::cover!(exp_ann > 0 && exp_wd > 0, "both_actions");
    kani::cover!(exp_ann + exp_wd == 0, "equal_sets");
    kani::cover!(true, "reached");
    std::mem::forget(d);
}

/// Every listed action is right, items are strictly sorted, listed actions match the counts.
fn construct_items<const A: usize, const B: usize>() {
    let a = sorted::<A>();
    let b = sorted::<B>();
    let d = StandardDelta::<u8>::construct(a.iter(), b.iter());
    let mut ann = 0usize;
    let mut wd = 0usize;
    let mut i = 0;
    while i < d.items.len() {
        let (x, act) = d.items[i];
        if is_announce(act) {
            ann += 1;
            assert!(contains(&b, x) && !contains(&a, x), "announces an item that is not new");
        }
        else {
            wd += 1;
            assert!(contains(&a, x) && !contains(&b, x), "withdraws an item that is not gone");
        }
        if i > 0 { assert!(d.items[i - 1].0 < x, "delta items not strictly sorted"); }
        i += 1;
    }
    assert!(ann == d.announce_len && wd == d.withdraw_len, "counts do not match the listed actions");
    kani::cover!(true, "reached");
    std::mem::forget(d);
}

macro_rules! h2 {
    ($name:ident, $f:ident, $a:expr, $b:expr, $u:expr) => {
        #[kani::proof]
        #[kani::unwind($u)]
        fn $name() { $f::<$a, $b>() }
    };
}

h2!(c11_counts_0_1, construct_counts, 0, 1, 4);
h2!(c11_counts_1_0, construct_counts, 1, 0, 4);
h2!(c11_counts_1_1, construct_counts, 1, 1, 5);
h2!(c11_counts_2_1, construct_counts, 2, 1, 6);
h2!(c11_counts_1_2, construct_counts, 1, 2, 6);
h2!(c11_counts_2_2, construct_counts, 2, 2, 6);
h2!(c11_counts_3_2, construct_counts, 3, 2, 8);
h2!(c11_counts_2_3, construct_counts, 2, 3, 8);
h2!(c11_counts_3_3, construct_counts, 3, 3, 9);
h2!(c11_items_0_1, construct_items, 0, 1, 4);
h2!(c11_items_1_0, construct_items, 1, 0, 4);
h2!(c11_items_1_1, construct_items, 1, 1, 5);
h2!(c11_items_2_1, construct_items, 2, 1, 6);
h2!(c11_items_1_2, construct_items, 1, 2, 6);
h2!(c11_items_2_2, construct_items, 2, 2, 7);

