// C11 / C12 harnesses, compiled inside crate::payload::delta (overlay only).
// Instantiation: StandardDelta::<u8> (the generic body is shared by RouteOrigin
// and RouterKey, which differ only in their Ord impl).
use super::*;

fn contains<const N: usize>(a: &[u8; N], x: u8) -> bool {
    let mut i = 0;
    while i < N { if a[i] == x { return true } i += 1; }
    false
}

/// A strictly ascending array: the representation of a data set.
fn sorted<const N: usize>() -> [u8; N] {
    let a: [u8; N] = kani::any();
    let mut i = 1;
    while i < N { kani::assume(a[i - 1] < a[i]); i += 1; }
    a
}

fn is_announce(a: Action) -> bool { matches!(a, Action::Announce) }

fn check_construct<const A: usize, const B: usize>() {
    let a = sorted::<A>();
    let b = sorted::<B>();
    let d = StandardDelta::<u8>::construct(a.iter(), b.iter());
    let mut ann = 0usize;
    let mut wd = 0usize;
    let mut i = 0;
    while i < d.items.len() {
        let (x, act) = d.items[i];
        if is_announce(act) {
            ann += 1;
            assert!(contains(&b, x) && !contains(&a, x), "announces an item that is not new");
        }
        else {
            wd += 1;
            assert!(contains(&a, x) && !contains(&b, x), "withdraws an item that is not gone");
        }
        if i > 0 { assert!(d.items[i - 1].0 < x, "delta items not strictly sorted"); }
        i += 1;
    }
    assert!(ann == d.announce_len && wd == d.withdraw_len, "counts do not match the listed actions");
    // completeness: every difference is listed
    let mut exp_ann = 0usize;
    let mut exp_wd = 0usize;
    let mut j = 0;
    while j < B { if !contains(&a, b[j]) { exp_ann += 1 } j += 1; }
    j = 0;
    while j < A { if !contains(&b, a[j]) { exp_wd += 1 } j += 1; }
    assert!(exp_ann == ann && exp_wd == wd, "a changed item is missing from the delta");
    // empty exactly when the sets are equal
    assert!(d.is_empty() == (exp_ann == 0 && exp_wd == 0));
    kani::cover!(ann > 0 && wd > 0, "both_actions");
    kani::cover!(d.is_empty(), "empty_delta");
    std::mem::forget(d);
}

fn same(m: &StandardDelta<u8>, d: &StandardDelta<u8>) {
    assert!(m.items.len() == d.items.len(), "merged delta has a different number of actions");
    let mut i = 0;
    while i < m.items.len() {
        assert!(m.items[i].0 == d.items[i].0, "merged delta lists a different item");
        assert!(is_announce(m.items[i].1) == is_announce(d.items[i].1), "merged delta has a different action");
        i += 1;
    }
    assert!(m.announce_len == d.announce_len && m.withdraw_len == d.withdraw_len,
            "merged delta counts differ");
}

fn check_merge<const A: usize, const B: usize, const C: usize>() {
    let a = sorted::<A>();
    let b = sorted::<B>();
    let c = sorted::<C>();
    let d1 = StandardDelta::<u8>::construct(a.iter(), b.iter());
    let d2 = StandardDelta::<u8>::construct(b.iter(), c.iter());
    let m = StandardDelta::<u8>::merge(&d1, &d2);
    let d = StandardDelta::<u8>::construct(a.iter(), c.iter());
    same(&m, &d);
    kani::cover!(m.items.len() > 0, "nonempty_merge");
    kani::cover!(d1.items.len() > 0 && d2.items.len() > 0 && m.items.len() == 0, "changes_cancel");
    std::mem::forget(d1);
    std::mem::forget(d2);
    std::mem::forget(m);
    std::mem::forget(d);
}

macro_rules! construct_harness {
    ($name:ident, $a:expr, $b:expr, $u:expr) => {
        #[kani::proof]
        #[kani::unwind($u)]
        fn $name() { check_construct::<$a, $b>() }
    };
}

macro_rules! merge_harness {
    ($name:ident, $a:expr, $b:expr, $c:expr, $u:expr) => {
        #[kani::proof]
        #[kani::unwind($u)]
        fn $name() { check_merge::<$a, $b, $c>() }
    };
}

construct_harness!(c11_construct_0_1, 0, 1, 4);
construct_harness!(c11_construct_1_0, 1, 0, 4);
construct_harness!(c11_construct_1_1, 1, 1, 5);
construct_harness!(c11_construct_2_1, 2, 1, 6);
construct_harness!(c11_construct_1_2, 1, 2, 6);
construct_harness!(c11_construct_2_2, 2, 2, 7);
construct_harness!(c11_construct_3_2, 3, 2, 8);
construct_harness!(c11_construct_2_3, 2, 3, 8);
construct_harness!(c11_construct_3_3, 3, 3, 9);

merge_harness!(c12_merge_1_1_1, 1, 1, 1, 5);
merge_harness!(c12_merge_1_0_1, 1, 0, 1, 5);
merge_harness!(c12_merge_0_1_0, 0, 1, 0, 5);
merge_harness!(c12_merge_2_1_2, 2, 1, 2, 7);
merge_harness!(c12_merge_1_2_1, 1, 2, 1, 7);
merge_harness!(c12_merge_2_2_2, 2, 2, 2, 7);
