// C03 / C39 / C09 harnesses, compiled inside crate::payload::validation (overlay only).
use super::*;
use rpki::repository::tal::TalInfo;
use rpki::resources::MaxLenPrefix;

fn t(year: i32) -> Time { Time::utc(year, 1, 1, 0, 0, 0) }

fn info() -> Arc<PublishInfo> {
    let validity = Validity::new(t(2020), t(2030));
    Arc::new(PublishInfo {
        tal: TalInfo::from_name("t".into()).into_arc(),
        uri: None,
        roa_validity: validity,
        chain_validity: validity,
        point_stale: t(2030),
    })
}


// ---- C08: RejectedResources::keep_prefix against an interval reference ------------------

use rpki::repository::resources::{IpBlock as RIpBlock, Prefix as RPrefix};

fn v4_interval(bits: u32, len: u8) -> (u32, u32) {
    let host: u32 = if len == 0 { u32::MAX } else if len >= 32 { 0 } else { u32::MAX >> len };
    let lo = bits & !host;
    (lo, lo | host)
}

fn any_v4(len_max: u8) -> (u32, u8) {
    let bits: u32 = kani::any();
    let len: u8 = kani::any();
    kani::assume(len <= len_max);
    let (lo, _) = v4_interval(bits, len);
    (lo, len)
}

fn rejected_v4(blocks: &[(u32, u8)]) -> RejectedResources {
    let mut v4 = IpBlocksBuilder::new();
    let mut i = 0;
    while i < blocks.len() {
        let (bits, len) = blocks[i];
        v4.push(RIpBlock::from(RPrefix::new(std::net::Ipv4Addr::from(bits), len)));
        i += 1;
    }
    RejectedResources { v4: v4.finalize(), v6: IpBlocksBuilder::new().finalize() }
}

fn check_keep_prefix_v4<const N: usize>() {
    let mut blocks = [(0u32, 0u8); N];
    let mut i = 0;
    while i < N { blocks[i] = any_v4(32); i += 1; }
    let rej = rejected_v4(&blocks);
    let (pb, pl) = any_v4(32);
    let prefix = Prefix::new_v4(std::net::Ipv4Addr::from(pb), pl).unwrap();
    let keep = rej.keep_prefix(prefix);
    let (plo, phi) = v4_interval(pb, pl);
    let mut overlaps = false;
    i = 0;
    while i < N {
        let (lo, hi) = v4_interval(blocks[i].0, blocks[i].1);
        if lo <= phi && plo <= hi { overlaps = true; }
        i += 1;
    }
    assert!(keep == !overlaps, "keep_prefix disagrees with interval overlap");
    kani::cover!(keep, "disjoint");
    kani::cover!(!keep, "overlapping");
    std::mem::forget(rej);
}

#[kani::proof]
#[kani::unwind(4)]
fn c08_keep_prefix_v4_one_block() { check_keep_prefix_v4::<1>() }

#[kani::proof]
#[kani::unwind(5)]
fn c08_keep_prefix_v4_two_blocks() { check_keep_prefix_v4::<2>() }

/// With nothing rejected every prefix is kept (both families).
#[kani::proof]
#[kani::unwind(3)]
fn c08_keep_prefix_nothing_rejected() {
    let rej = RejectedResources {
        v4: IpBlocksBuilder::new().finalize(), v6: IpBlocksBuilder::new().finalize()
    };
    let (pb, pl) = any_v4(32);
    assert!(rej.keep_prefix(Prefix::new_v4(std::net::Ipv4Addr::from(pb), pl).unwrap()));
    let b6: u128 = kani::any();
    let l6: u8 = kani::any();
    kani::assume(l6 <= 128);
    let m6: u128 = if l6 == 0 { 0 } else { u128::MAX << (128 - l6 as u32) };
    assert!(rej.keep_prefix(Prefix::new_v6(std::net::Ipv6Addr::from(b6 & m6), l6).unwrap()));
    kani::cover!(pl == 24, "some_prefix");
    std::mem::forget(rej);
}

/// A rejected IPv4 block never filters an IPv6 prefix and vice versa.
#[kani::proof]
#[kani::unwind(4)]
fn c08_keep_prefix_other_family() {
    let blocks = [any_v4(32)];
    let rej = rejected_v4(&blocks);
    let b6: u128 = kani::any();
    let l6: u8 = kani::any();
    kani::assume(l6 <= 128);
    let m6: u128 = if l6 == 0 { 0 } else { u128::MAX << (128 - l6 as u32) };
    assert!(rej.keep_prefix(Prefix::new_v6(std::net::Ipv6Addr::from(b6 & m6), l6).unwrap()),
            "rejected IPv4 resources filter an IPv6 prefix");
    kani::cover!(l6 == 48, "some_v6_prefix");
    std::mem::forget(rej);
}
