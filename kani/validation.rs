// C03 / C39 / C09 harnesses, compiled inside crate::payload::validation (overlay only).
use super::*;
use rpki::repository::tal::TalInfo;
use rpki::resources::MaxLenPrefix;

fn t(year: i32) -> Time { Time::utc(year, 1, 1, 0, 0, 0) }

fn info() -> Arc<PublishInfo> {
    let validity = Validity::new(t(2020), t(2030));
    Arc::new(PublishInfo {
        tal: TalInfo::from_name("t".into()).into_arc(),
        uri: None,
        roa_validity: validity,
        chain_validity: validity,
        point_stale: t(2030),
    })
}

