// Harness helpers compiled inside crate::payload::snapshot (overlay only).
use super::*;

/// Builds a snapshot directly from an already sorted, de-duplicated origin
/// list (the representation invariant of `PayloadCollection`).
pub(crate) fn snapshot_from_sorted_origins(
    v: Vec<(RouteOrigin, PayloadInfo)>
) -> PayloadSnapshot {
    PayloadSnapshot {
        origins: PayloadCollection { vec: v },
        router_keys: Default::default(),
        aspas: Default::default(),
        created: DateTime::<Utc>::default(),
        refresh: None,
    }
}

/// An empty snapshot with the given refresh deadline.
pub(crate) fn snapshot_with_refresh(refresh: Option<Time>) -> PayloadSnapshot {
    PayloadSnapshot {
        origins: Default::default(),
        router_keys: Default::default(),
        aspas: Default::default(),
        created: DateTime::<Utc>::default(),
        refresh,
    }
}
