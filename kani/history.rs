// C13 / C14 / C34 harnesses, compiled inside crate::payload::history (overlay only).
use super::*;

fn mk(keep: usize) -> PayloadHistory {
    PayloadHistory {
        current: None,
        deltas: VecDeque::new(),
        metrics: None,
        session: 1,
        keep,
        refresh: Duration::from_secs(600),
        min_refresh: None,
        unsafe_vrps: FilterPolicy::Accept,
        last_update_start: DateTime::<Utc>::default(),
        last_update_done: None,
        last_update_duration: None,
        next_update_start: SystemTime::UNIX_EPOCH,
        created: None,
        timing: Timing { refresh: 1, retry: 1, expire: 1 },
    }
}

/// Stub for `PayloadDelta::merge`: what is merged is C12's subject; the
/// selection / refusal logic of `delta_since` only depends on the serials.
fn merge_stub(this: &PayloadDelta, new: &PayloadDelta) -> PayloadDelta {
    let _ = this;
    PayloadDelta::empty(new.serial())
}

/// History with `n` retained deltas whose target serials are
/// base+1 ..= base+n (wrapping), newest at the front.
fn history_with(n: u32, base: u32) -> PayloadHistory {
    let mut h = mk(n as usize);
    let mut i = 1u32;
    while i <= n {
        h.deltas.push_front(Arc::new(
            PayloadDelta::empty(Serial::from(base.wrapping_add(i)))
        ));
        i += 1;
    }
    h
}

/// Window check shared by the C13 harnesses.
///
/// off = client serial - base (mod 2^32).  The retained deltas lead from
/// version base to base+n.  off in 1..=n: the client is at one of the last n
/// serials and must be served; off == 0 may be served or refused; anything
/// else is a serial this history cannot serve and must be refused.
fn check_window(n: u32) {
    let base: u32 = kani::any();
    let h = history_with(n, base);
    let q: u32 = kani::any();
    let res = h.delta_since(Serial::from(q));
    let off = q.wrapping_sub(base);
    let some = res.is_some();
    if some {
        assert!(off <= n, "unknown serial answered with a delta");
        let d = res.as_ref().unwrap();
        // tagged with the current serial
        assert!(u32::from(d.serial()) == base.wrapping_add(n),
                "delta not tagged with the current serial");
    }
    if off >= 1 && off <= n {
        assert!(some, "client within the retained window refused");
    }
    kani::cover!(some && off == n, "current_serial_served");
    kani::cover!(some && off >= 1 && off < n.max(1), "older_serial_served");
    kani::cover!(!some, "refused");
    std::mem::forget(res);
    std::mem::forget(h);
}

#[kani::proof]
#[kani::unwind(3)]
fn c13_window_n0() {
    // no deltas yet: we are at serial 0
    let h = mk(3);
    let q: u32 = kani::any();
    let res = h.delta_since(Serial::from(q));
    assert!(res.is_some() == (q == 0));
    if let Some(d) = res.as_ref() {
        assert!(u32::from(d.serial()) == 0);
        assert!(d.is_empty());
    }
    kani::cover!(res.is_some(), "served");
    kani::cover!(res.is_none(), "refused");
    std::mem::forget(res);
    std::mem::forget(h);
}

#[kani::proof]
#[kani::unwind(4)]
#[kani::stub(crate::payload::delta::PayloadDelta::merge, merge_stub)]
fn c13_window_n1() { check_window(1) }

#[kani::proof]
#[kani::unwind(5)]
#[kani::stub(crate::payload::delta::PayloadDelta::merge, merge_stub)]
fn c13_window_n2() { check_window(2) }

#[kani::proof]
#[kani::unwind(6)]
#[kani::stub(crate::payload::delta::PayloadDelta::merge, merge_stub)]
fn c13_window_n3() { check_window(3) }

#[kani::proof]
#[kani::unwind(7)]
#[kani::stub(crate::payload::delta::PayloadDelta::merge, merge_stub)]
fn c13_window_n4() { check_window(4) }

/// The session half: `SharedHistory::diff` refuses a foreign session and
/// otherwise agrees with `delta_since`.
#[kani::proof]
#[kani::unwind(5)]
#[kani::stub(crate::payload::delta::PayloadDelta::merge, merge_stub)]
fn c13_diff_session() {
    let base: u32 = kani::any();
    let mut h = history_with(2, base);
    let session: u64 = kani::any();
    h.session = session;
    let shared = SharedHistory(Arc::new(RwLock::new(h)));
    let q: u32 = kani::any();
    let qs: u16 = kani::any();
    let res = shared.diff(State::from_parts(qs, Serial::from(q)));
    let off = q.wrapping_sub(base);
    if qs != session as u16 {
        assert!(res.is_none(), "foreign session answered with a delta");
    }
    else {
        if off >= 1 && off <= 2 { assert!(res.is_some()); }
        if let Some((state, _)) = res.as_ref() {
            assert!(off <= 2);
            assert!(state.session() == session as u16);
            assert!(u32::from(state.serial()) == base.wrapping_add(2));
        }
    }
    kani::cover!(res.is_some(), "served");
    kani::cover!(res.is_none() && qs == session as u16, "refused_same_session");
    std::mem::forget(res);
    std::mem::forget(shared);
}

// ---- C14 -------------------------------------------------------------------

fn check_push_bounded(keep: usize) {
    let mut h = mk(keep);
    let base: u32 = kani::any();
    let mut i = 0u32;
    while i < 4 {
        let before = h.serial();
        h.push_delta(PayloadDelta::empty(Serial::from(base.wrapping_add(i))));
        assert!(h.deltas.len() <= core::cmp::max(keep, 1),
                "more change sets retained than the history size");
        assert!(u32::from(h.serial()) == base.wrapping_add(i));
        let _ = before;
        i += 1;
    }
    kani::cover!(h.deltas.len() == core::cmp::max(keep, 1), "full");
    std::mem::forget(h);
}

#[kani::proof]
#[kani::unwind(6)]
fn c14_push_bounded_keep0() { check_push_bounded(0) }

#[kani::proof]
#[kani::unwind(6)]
fn c14_push_bounded_keep1() { check_push_bounded(1) }

#[kani::proof]
#[kani::unwind(6)]
fn c14_push_bounded_keep2() { check_push_bounded(2) }

#[kani::proof]
#[kani::unwind(6)]
fn c14_push_bounded_keep3() { check_push_bounded(3) }

// ---- C34 -------------------------------------------------------------------
//
// The system clock is a stub returning arbitrary non-decreasing instants; the
// data set's expiry is the fixed instant E = 2001-09-09T01:46:40Z and the
// clock ranges over [E - 2^33 s, E + 2^33 s], so every relative position of
// "now", "now + refresh" and the expiry is covered.

const E_SECS: u64 = 1_000_000_000;
static mut CLOCK_CALLS: u8 = 0;
static mut CLOCK_T: [(u64, u32); 2] = [(0, 0); 2];

fn system_now_stub() -> SystemTime {
    unsafe {
        let i = if CLOCK_CALLS == 0 { 0 } else { 1 };
        CLOCK_CALLS = 1;
        let (s, n) = CLOCK_T[i];
        SystemTime::UNIX_EPOCH + Duration::new(s, n)
    }
}

fn utc_now_stub() -> DateTime<Utc> {
    DateTime::<Utc>::default()
}

/// Instants and durations as (seconds, nanoseconds) pairs: the reference is
/// written with additions, subtractions and comparisons only.
type Pair = (u64, u32);

fn p_lt(a: Pair, b: Pair) -> bool { a.0 < b.0 || (a.0 == b.0 && a.1 < b.1) }

fn p_sub(a: Pair, b: Pair) -> Pair {
    // a - b, saturating at zero
    if !p_lt(b, a) { return (0, 0) }
    if a.1 >= b.1 { (a.0 - b.0, a.1 - b.1) }
    else { (a.0 - b.0 - 1, a.1 + 1_000_000_000 - b.1) }
}

fn check_refresh_wait(has_min: bool, has_expiry: bool) {
    let r: u64 = kani::any();
    let m: u64 = kani::any();
    kani::assume(r <= (1u64 << 32) && m <= (1u64 << 32));
    let t1: Pair = (kani::any(), kani::any());
    let t2: Pair = (kani::any(), kani::any());
    kani::assume(t1.1 < 1_000_000_000 && t2.1 < 1_000_000_000);
    kani::assume(t1.0 >= 1 && t1.0 <= E_SECS + (1u64 << 33));
    kani::assume(t2.0 <= E_SECS + (1u64 << 34));
    kani::assume(!p_lt(t2, t1));
    unsafe {
        CLOCK_CALLS = 0;
        CLOCK_T = [t1, t2];
    }
    let mut h = mk(3);
    h.refresh = Duration::from_secs(r);
    h.min_refresh = if has_min { Some(Duration::from_secs(m)) } else { None };
    let expiry = if has_expiry {
        Some(rpki::repository::x509::Time::utc(2001, 9, 9, 1, 46, 40))
    } else { None };
    h.current = Some(Arc::new(
        crate::payload::snapshot_kani::snapshot_with_refresh(expiry)
    ));
    let shared = SharedHistory(Arc::new(RwLock::new(h)));
    shared.mark_update_done();
    let wd = shared.read().refresh_wait();
    let w: Pair = (wd.as_secs(), wd.subsec_nanos());

    let floor: Pair = if has_min { (m, 0) } else { (r, 0) };
    let ceil: Pair = if has_min && m > r { (m, 0) } else { (r, 0) };
    assert!(!p_lt(w, floor), "next run scheduled earlier than min-refresh / refresh");
    assert!(!p_lt(ceil, w), "next run scheduled later than max(refresh, min-refresh)");
    // reference: next start = min(t1 + refresh, expiry); wait = max(next - t2, floor)
    let planned: Pair = (t1.0 + r, t1.1);
    let e: Pair = (E_SECS, 0);
    let next = if has_expiry && p_lt(e, planned) { e } else { planned };
    let rem = p_sub(next, t2);
    let expect = if p_lt(floor, rem) { rem } else { floor };
    assert!(w == expect, "wait differs from max(min(now+refresh, expiry) - now, floor)");
    kani::cover!(has_expiry && p_lt(e, planned) && p_lt(floor, rem), "expiry_brings_run_forward");
    kani::cover!(!p_lt(floor, rem), "floor_applies");
    kani::cover!(p_lt(floor, rem), "remaining_time_applies");
    std::mem::forget(shared);
}

#[kani::proof]
#[kani::unwind(3)]
#[kani::stub(std::time::SystemTime::now, system_now_stub)]
#[kani::stub(chrono::Utc::now, utc_now_stub)]
fn c34_wait_no_min_no_expiry() { check_refresh_wait(false, false) }

#[kani::proof]
#[kani::unwind(3)]
#[kani::stub(std::time::SystemTime::now, system_now_stub)]
#[kani::stub(chrono::Utc::now, utc_now_stub)]
fn c34_wait_min_no_expiry() { check_refresh_wait(true, false) }

#[kani::proof]
#[kani::unwind(3)]
#[kani::stub(std::time::SystemTime::now, system_now_stub)]
#[kani::stub(chrono::Utc::now, utc_now_stub)]
fn c34_wait_no_min_expiry() { check_refresh_wait(false, true) }

#[kani::proof]
#[kani::unwind(3)]
#[kani::stub(std::time::SystemTime::now, system_now_stub)]
#[kani::stub(chrono::Utc::now, utc_now_stub)]
fn c34_wait_min_expiry() { check_refresh_wait(true, true) }
