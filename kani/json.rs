// C22 harnesses, compiled inside crate::utils::json (overlay only).
use super::*;

/// Fixed-size sink: no String, no allocation.
struct Sink<const M: usize> { buf: [u8; M], len: usize }

impl<const M: usize> fmt::Write for Sink<M> {
    fn write_str(&mut self, s: &str) -> fmt::Result {
        let b = s.as_bytes();
        let mut i = 0;
        while i < b.len() {
            if self.len >= M { return Err(fmt::Error) }
            self.buf[self.len] = b[i];
            self.len += 1;
            i += 1;
        }
        Ok(())
    }
}

fn hex(c: u8) -> Option<u8> {
    match c {
        b'0'..=b'9' => Some(c - b'0'),
        b'a'..=b'f' => Some(c - b'a' + 10),
        b'A'..=b'F' => Some(c - b'A' + 10),
        _ => None
    }
}

/// JSON string-content recogniser and decoder (RFC 8259 section 7) for ASCII:
/// returns the decoded bytes or None if `o` is not valid string content.
fn decode<const M: usize, const N: usize>(o: &[u8; M], len: usize) -> Option<([u8; N], usize)> {
    let mut out = [0u8; N];
    let mut n = 0usize;
    let mut i = 0usize;
    while i < len {
        let c = o[i];
        if c < 0x20 || c == b'"' { return None }
        let v;
        if c == b'\\' {
            if i + 1 >= len { return None }
            let e = o[i + 1];
            i += 2;
            v = match e {
                b'"' => b'"', b'\\' => b'\\', b'/' => b'/', b'b' => 8, b'f' => 12,
                b'n' => b'\n', b'r' => b'\r', b't' => b'\t',
                b'u' => {
                    if i + 4 > len { return None }
                    let (a, b, c2, d) = (hex(o[i])?, hex(o[i + 1])?, hex(o[i + 2])?, hex(o[i + 3])?);
                    i += 4;
                    if a != 0 || b != 0 || c2 >= 8 { return None }   // ASCII inputs only
                    c2 * 16 + d
                }
                _ => return None
            };
        }
        else {
            v = c;
            i += 1;
        }
        if n >= N { return None }
        out[n] = v;
        n += 1;
    }
    Some((out, n))
}

fn check_json_str<const N: usize, const M: usize>() {
    use std::fmt::Write;
    let b: [u8; N] = kani::any();
    let mut i = 0;
    while i < N { kani::assume(b[i] < 128); i += 1; }
    let s = unsafe { core::str::from_utf8_unchecked(&b) };
    let mut sink = Sink::<M> { buf: [0; M], len: 0 };
    let r = write!(&mut sink, "{}", json_str(s));
    assert!(r.is_ok(), "json_str failed to write");
    let dec = decode::<M, N>(&sink.buf, sink.len);
    assert!(dec.is_some(), "json_str output is not valid JSON string content");
    let (d, n) = dec.unwrap();
    assert!(n == N, "json_str output decodes to a different length");
    i = 0;
    while i < N { assert!(d[i] == b[i], "json_str output decodes to a different string"); i += 1; }
    kani::cover!(b[0] < 0x20, "control_char_input");
    kani::cover!(b[0] == b'"', "quote_input");
    kani::cover!(b[0] == b'a', "plain_input");
}

/// A Display that hands its string to the formatter in one piece (no padding logic of `<str as Display>`).
struct Raw<'a>(&'a str);
impl fmt::Display for Raw<'_> {
    fn fmt(&self, f: &mut fmt::Formatter) -> fmt::Result { f.write_str(self.0) }
}

/// One ASCII byte, direct case analysis of the required output (no decoder loop):
/// plain bytes are copied, quote and backslash get a backslash, control characters
/// become one of the RFC 8259 escapes.
#[kani::proof]
#[kani::unwind(9)]
fn c22_json_str_1_byte() {
    use std::fmt::Write;
    let b: [u8; 1] = kani::any();
    kani::assume(b[0] < 128);
    let s = unsafe { core::str::from_utf8_unchecked(&b) };
    let mut sink = Sink::<8> { buf: [0; 8], len: 0 };
    let r = write!(&mut sink, "{}", json_str(Raw(s)));
    assert!(r.is_ok(), "json_str failed to write");
    let c = b[0];
    let o = &sink.buf;
    if c == b'"' || c == b'\\' {
        assert!(sink.len == 2 && o[0] == b'\\' && o[1] == c, "quote / backslash not escaped with a backslash");
    }
    else if c < 0x20 {
        assert!(sink.len >= 2 && o[0] == b'\\', "control character written raw (invalid JSON)");
        let short = sink.len == 2 && (
            (o[1] == b'n' && c == b'\n') || (o[1] == b'r' && c == b'\r') || (o[1] == b't' && c == b'\t')
            || (o[1] == b'b' && c == 8) || (o[1] == b'f' && c == 12)
        );
        let long = sink.len == 6 && o[1] == b'u' && o[2] == b'0' && o[3] == b'0'
            && hex(o[4]).is_some() && hex(o[5]).is_some()
            && hex(o[4]).unwrap_or(0) * 16 + hex(o[5]).unwrap_or(0) == c;
        assert!(short || long, "control character escaped with something that is not its JSON escape");
    }
    else {
        assert!(sink.len == 1 && o[0] == c, "plain character not copied verbatim");
    }
    kani::cover!(c < 0x20, "control_char_input");
    kani::cover!(c == b'"', "quote_input");
    kani::cover!(c == b'a', "plain_input");
}

#[kani::proof]
#[kani::unwind(15)]
fn c22_json_str_2_bytes() { check_json_str::<2, 14>() }
