// C20 harnesses, compiled inside crate::validity (overlay only).
use super::*;
use std::sync::Arc;
use std::net::{IpAddr, Ipv4Addr, Ipv6Addr};
use rpki::resources::MaxLenPrefix;
use crate::slurm::ExceptionInfo;

fn any_v4_prefix() -> Prefix {
    let bits: u32 = kani::any();
    let len: u8 = kani::any();
    kani::assume(len <= 32);
    let mask: u32 = if len == 0 { 0 } else { u32::MAX << (32 - len as u32) };
    Prefix::new_v4(Ipv4Addr::from(bits & mask), len).unwrap()
}

fn any_v6_prefix() -> Prefix {
    let bits: u128 = kani::any();
    let len: u8 = kani::any();
    kani::assume(len <= 128);
    let mask: u128 = if len == 0 { 0 } else { u128::MAX << (128 - len as u32) };
    Prefix::new_v6(Ipv6Addr::from(bits & mask), len).unwrap()
}

fn any_prefix(v6: bool) -> Prefix {
    if v6 { any_v6_prefix() } else { any_v4_prefix() }
}

/// Reference `covers` on integers: same family, shorter-or-equal, same
/// leading bits.
fn covers_ref(p: Prefix, q: Prefix) -> bool {
    let (pa, pl) = p.addr_and_len();
    let (qa, ql) = q.addr_and_len();
    match (pa, qa) {
        (IpAddr::V4(a), IpAddr::V4(b)) => {
            let (a, b) = (u32::from(a), u32::from(b));
            if pl > ql { return false }
            let mask: u32 = if pl == 0 { 0 } else {
                u32::MAX << (32 - pl as u32)
            };
            (b & mask) == a
        }
        (IpAddr::V6(a), IpAddr::V6(b)) => {
            let (a, b) = (u128::from(a), u128::from(b));
            if pl > ql { return false }
            let mask: u128 = if pl == 0 { 0 } else {
                u128::MAX << (128 - pl as u32)
            };
            (b & mask) == a
        }
        _ => false
    }
}

fn any_origin(v6: bool) -> (RouteOrigin, Prefix, u8, u32) {
    let vp = any_prefix(v6);
    let ml: u8 = kani::any();
    let has_ml: bool = kani::any();
    kani::assume(ml >= vp.len() && ml <= if v6 { 128 } else { 32 });
    let vasn: u32 = kani::any();
    let origin = RouteOrigin::new(
        MaxLenPrefix::new(vp, if has_ml { Some(ml) } else { None }).unwrap(),
        Asn::from_u32(vasn)
    );
    (origin, vp, if has_ml { ml } else { vp.len() }, vasn)
}

fn info() -> PayloadInfo {
    PayloadInfo::from(Arc::new(ExceptionInfo::default()))
}

fn state_code(s: RouteState) -> u8 {
    match s {
        RouteState::NotFound => 0,
        RouteState::Valid => 1,
        RouteState::Invalid => 2,
    }
}

fn check_one(v6_vrp: bool, v6_route: bool) {
    let (origin, vp, ml, vasn) = any_origin(v6_vrp);
    let snap = crate::payload::snapshot_kani::snapshot_from_sorted_origins(
        vec![(origin, info())]
    );
    let rp = any_prefix(v6_route);
    let rasn: u32 = kani::any();
    let v = RouteValidity::new(rp, Asn::from_u32(rasn), &snap);
    let cov = covers_ref(vp, rp);
    let exp = if !cov { 0 }
        else if rp.len() <= ml && rasn == vasn { 1 }
        else { 2 };
    let got = state_code(v.state());
    assert!(exp == got);
    // the three lists partition the covering VRPs
    let total = v.matched.len() + v.bad_asn.len() + v.bad_len.len();
    assert!(total == if cov { 1 } else { 0 });
    if cov {
        assert!((v.matched.len() == 1) == (rp.len() <= ml && rasn == vasn));
        assert!((v.bad_len.len() == 1) == (rp.len() > ml));
        assert!((v.bad_asn.len() == 1) == (rp.len() <= ml && rasn != vasn));
    }
    // reason follows the lists: "as" before "length"
    // ("as" and "length" are told apart by their length: no memcmp loop)
    let reason = v.reason().map(|s| s.len());
    if got == 2 {
        if v.bad_asn.len() > 0 { assert!(reason == Some(2)); }
        else { assert!(reason == Some(6)); }
    }
    else {
        assert!(reason.is_none());
    }
    kani::cover!(got == 0, "reach_notfound");
    kani::cover!(got == 1, "reach_valid");
    kani::cover!(got == 2, "reach_invalid");
    std::mem::forget(v);
    std::mem::forget(snap);
}

#[kani::proof]
#[kani::unwind(3)]
fn c20_one_vrp_v4() { check_one(false, false) }

#[kani::proof]
#[kani::unwind(3)]
fn c20_one_vrp_v6() { check_one(true, true) }

#[kani::proof]
#[kani::unwind(3)]
fn c20_one_vrp_mixed() {
    let a: bool = kani::any();
    check_one(a, !a)
}

/// Two VRPs of one family: RFC 6811 over a data set of two entries (Valid if some covering VRP matches,
/// Invalid if VRPs cover but none matches, NotFound otherwise).
fn check_two(v6: bool) {
    let (o1, vp1, ml1, asn1) = any_origin(v6);
    let (o2, vp2, ml2, asn2) = any_origin(v6);
    kani::assume(o1 < o2);                       // the snapshot keeps its origins strictly sorted
    let snap = crate::payload::snapshot_kani::snapshot_from_sorted_origins(
        vec![(o1, info()), (o2, info())]
    );
    let rp = any_prefix(v6);
    let rasn: u32 = kani::any();
    let v = RouteValidity::new(rp, Asn::from_u32(rasn), &snap);
    let c1 = covers_ref(vp1, rp);
    let c2 = covers_ref(vp2, rp);
    let m1 = c1 && rp.len() <= ml1 && rasn == asn1;
    let m2 = c2 && rp.len() <= ml2 && rasn == asn2;
    let exp = if m1 || m2 { 1 } else if c1 || c2 { 2 } else { 0 };
    assert!(exp == state_code(v.state()));
    let total = v.matched.len() + v.bad_asn.len() + v.bad_len.len();
    assert!(total == (c1 as usize) + (c2 as usize));
    assert!(v.matched.len() == (m1 as usize) + (m2 as usize));
    kani::cover!(exp == 1 && c1 && c2 && !m1, "second_vrp_validates");
    kani::cover!(exp == 2 && c1 && c2, "both_cover_none_matches");
    std::mem::forget(v);
    std::mem::forget(snap);
}

#[kani::proof]
#[kani::unwind(4)]
fn c20_two_vrps_v4() { check_two(false) }

#[kani::proof]
#[kani::unwind(4)]
fn c20_two_vrps_v6() { check_two(true) }
