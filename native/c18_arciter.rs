// Native replay for C18 (delta iterator): the shared-delta iterator behind /json-delta (and RTR) yields every
// origin, then every router key, then every ASPA of the delta, each exactly once, for every mix of counts.
use super::*;
use rpki::resources::MaxLenPrefix;
use rpki::rtr::pdu::RouterKeyInfo;
use rpki::crypto::keys::KeyIdentifier;
use rpki::rtr::payload::PayloadRef;
use std::str::FromStr;
use rpki::resources::Asn;
use bytes::Bytes;
use crate::payload::{PayloadInfo, PayloadSnapshot};

#[test]
fn c18_native_arc_iter_complete() {
    let info = || PayloadInfo::from(Arc::new(crate::slurm::ExceptionInfo::default()));
    let mut bad = Vec::new();
    for n_o in 0..3u32 { for n_k in 0..3u32 { for n_a in 0..4u32 {
        if n_o + n_k + n_a == 0 { continue }
        let old = PayloadSnapshot::new(std::iter::empty(), std::iter::empty(), std::iter::empty(), None);
        let new = PayloadSnapshot::new(
            (0..n_o).map(|i| (RouteOrigin::new(MaxLenPrefix::new(rpki::resources::addr::Prefix::from_str(&format!("10.{}.0.0/16", i)).unwrap(), None).unwrap(), Asn::from_u32(64500 + i)), info())),
            (0..n_k).map(|i| (RouterKey::new(KeyIdentifier::from([i as u8 + 1; 20]), Asn::from_u32(64600 + i), RouterKeyInfo::new(Bytes::from(vec![i as u8; 8])).unwrap()), info())),
            (0..n_a).map(|i| (Aspa::new(Asn::from_u32(64700 + i), ProviderAsns::try_from_iter([Asn::from_u32(64800 + i)]).unwrap()), info())),
            None);
        {
            let mut it = Arc::new(new.clone()).arc_iter();
            let (mut so, mut sk, mut sa) = (0u32, 0u32, Vec::new());
            let mut steps = 0;
            while let Some((item, _)) = it.next_with_info() {
                steps += 1;
                if steps > 50 { break }
                match item {
                    PayloadRef::Origin(_) => so += 1,
                    PayloadRef::RouterKey(_) => sk += 1,
                    PayloadRef::Aspa(x) => sa.push(x.customer.into_u32()),
                }
            }
            sa.sort();
            if so != n_o || sk != n_k || sa != (0..n_a).map(|i| 64700 + i).collect::<Vec<u32>>() {
                bad.push(format!("snapshot with {} origins / {} router keys / {} ASPAs: iterator yields {} / {} / ASPA customers {:?}", n_o, n_k, n_a, so, sk, sa));
            }
        }
        let delta = match PayloadDelta::construct(&old, &new, Serial::from(1)) { Some(d) => Arc::new(d), None => { bad.push(format!("{}/{}/{}: no delta", n_o, n_k, n_a)); continue } };
        let mut iter = delta.arc_iter();
        let (mut o, mut k, mut a) = (Vec::new(), Vec::new(), Vec::new());
        let mut order_ok = true;
        let mut steps = 0;
        while let Some((item, _)) = iter.next() {
            steps += 1;
            if steps > 50 { break }
            match item {
                PayloadRef::Origin(x) => { if !k.is_empty() || !a.is_empty() { order_ok = false } o.push(x.asn.into_u32()) }
                PayloadRef::RouterKey(x) => { if !a.is_empty() { order_ok = false } k.push(x.asn.into_u32()) }
                PayloadRef::Aspa(x) => a.push(x.customer.into_u32()),
            }
        }
        let want_a: Vec<u32> = (0..n_a).map(|i| 64700 + i).collect();
        let mut got_a = a.clone(); got_a.sort();
        if o.len() as u32 != n_o || k.len() as u32 != n_k || got_a != want_a || !order_ok {
            bad.push(format!("delta with {} origins / {} router keys / {} ASPAs: iterator yields {} / {} / ASPA customers {:?}", n_o, n_k, n_a, o.len(), k.len(), a));
        }
    }}}
    println!("C18-NATIVE-ITER deltas whose iterator does not yield every item once: {:?}", bad);
    assert!(bad.is_empty(), "{:#?}", bad);
}
