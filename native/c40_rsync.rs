// Native replay for C40 (rsync retain keys): for URIs with lower- and mixed-case authorities, the module
// registered in the retain set must be found under the directory names the collector stores the module in.
use super::*;
use std::str::FromStr;

#[test]
fn c40_native_retain_key_matches_directory() {
    let wd = WorkingDir::new(PathBuf::from("/base"));
    let mut bad = Vec::new();
    for s in ["rsync://rpki.example.net/repo/ca/ca.mft", "rsync://RPKI.Example.NET/repo/ca/ca.mft",
              "rsync://Host.example/Module/x.cer", "rsync://a.b/m/"] {
        let uri = uri::Rsync::from_str(s).unwrap();
        let mut retain = ModuleSet::default();
        retain.add_from_uri(&uri);
        for (what, path) in [("module_path", wd.module_path(Module::from_uri(&uri).as_ref())),
                             ("uri_path", wd.uri_path(&uri))] {
            let rel: Vec<String> = path.strip_prefix("/base").unwrap().components()
                .map(|c| c.as_os_str().to_str().unwrap().to_string()).collect();
            let found = retain.authorities.get(rel[0].as_str()).map(|m| m.contains(rel[1].as_str())).unwrap_or(false);
            if !found {
                bad.push(format!("{}: {} is {}/{} but the retain set has {:?}", s, what, rel[0], rel[1], retain.authorities));
            }
        }
    }
    assert!(bad.is_empty(), "retained module not found under its directory name: {:?}", bad);
}
