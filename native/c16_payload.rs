// Native replay for C16: the history "fetch; data-changing update(); request in the window before
// mark_update_done()" against the real history and the real payload handler.
use super::*;
use crate::metrics::Metrics;
use crate::payload::ValidationReport;
use crate::slurm::LocalExceptions;
use crate::utils::date::format_http_date;

#[test]
fn c16_native_window_304() {
    let _ = crate::process::Process::init();
    let dir = tempfile::tempdir().unwrap();
    let config = Config::default_with_paths(Default::default(), dir.path().into());
    let history = SharedHistory::from_config(&config);
    let state = State::new(&config);
    history.update(ValidationReport::new(&config), &LocalExceptions::empty(), Metrics::new());
    history.mark_update_done();
    let created0 = history.verif_set_created_whole_second();
    // what the client was given
    let last_modified = format_http_date(created0);
    // a data-changing run installs its result ...
    let slurm = r#"{"slurmVersion":1,"validationOutputFilters":{"prefixFilters":[],"bgpsecFilters":[]},
        "locallyAddedAssertions":{"prefixAssertions":[{"asn":64496,"prefix":"198.51.100.0/24"}],"bgpsecAssertions":[]}}"#;
    let exceptions = LocalExceptions::from_json(slurm, false).unwrap();
    let changed = history.update(ValidationReport::new(&config), &exceptions, Metrics::new());
    // ... and before mark_update_done() the client revalidates with If-Modified-Since only
    let (parts, _) = hyper::Request::builder().uri("/json")
        .header("If-Modified-Since", last_modified.as_str()).body(()).unwrap().into_parts();
    let resp = state.handle_get_or_head(Request::new(parts, None), &history).ok().unwrap();
    let status = resp.into_hyper().unwrap().status();
    println!("C16-NATIVE data_changed={} If-Modified-Since={} -> status {}", changed, last_modified, status.as_u16());
    assert!(changed);
    assert!(status.as_u16() != 304, "304 Not Modified for validators of the previous data set");
}
