// Native replay for C23: the file state a crash inside store::Run::done leaves behind
// (status.bin created/truncated, nothing written yet) against the real Store::status.
use super::*;

#[test]
fn c23_native_truncated_status() {
    let _ = crate::process::Process::init();
    let dir = tempfile::tempdir().unwrap();
    let config = crate::config::Config::default_with_paths(Default::default(), dir.path().into());
    let store = Store::new(&config).unwrap();
    // what File::create leaves before the first write
    std::fs::File::create(store.status_path()).unwrap();
    let res = store.status();
    println!("C23-NATIVE Store::status() on a truncated status file -> {}", match &res {
        Ok(Some(_)) => "Ok(Some)", Ok(None) => "Ok(None)", Err(_) => "Err(Failed)"
    });
    assert!(res.is_ok(), "a truncated status file is a hard error for every later `vrps --update-after`");
}
