// Native replay for C27: length fields crafted as the solver found them, fed to the real parsers.
use super::*;

fn outcome<T>(name: &str, f: impl FnOnce() -> Result<T, ParseError> + std::panic::UnwindSafe) -> bool {
    match std::panic::catch_unwind(f) {
        Ok(Ok(_)) => { println!("C27-NATIVE {} -> Ok", name); true }
        Ok(Err(_)) => { println!("C27-NATIVE {} -> Err (reported, fine)", name); true }
        Err(_) => { println!("C27-NATIVE {} -> PANIC", name); false }
    }
}

#[test]
fn c27_native_crafted_lengths() {
    // u64 length 2^63 followed by nothing
    let huge64 = [0x80u8, 0, 0, 0, 0, 0, 0, 0];
    let mut ok = true;
    ok &= outcome("Bytes::parse(len=2^63)", || Bytes::parse(&mut &huge64[..]));
    ok &= outcome("Option<Bytes>::parse(len=2^63)", || Option::<Bytes>::parse(&mut &huge64[..]));
    ok &= outcome("HashMap<u64,u64>::parse(len=2^63)", || HashMap::<u64, u64>::parse(&mut &huge64[..]));
    assert!(ok, "a parser panicked on a corrupt length field");
}
