// Native replay for C18: the real DeltaStream / SnapshotStream with the text moved byte by byte across the
// 64000-byte chunk limit (item count and ASN widths varied); the concatenated chunks must parse as JSON and
// list exactly the given numbers of announced / withdrawn (or snapshot) route origins.
use super::*;
use std::str::FromStr;
use rpki::resources::addr::MaxLenPrefix;
use rpki::resources::Asn;
use rpki::rtr::payload::RouteOrigin;
use crate::payload::PayloadInfo;

fn origin(idx: u32, wide: bool) -> RouteOrigin {
    let prefix = format!("10.{}.{}.0/24", 100 + idx / 100, 100 + idx % 100);
    RouteOrigin::new(MaxLenPrefix::from_str(&prefix).unwrap(), Asn::from_u32(if wide { 100000 + idx } else { 10000 + idx }))
}

fn snapshot(origins: &[RouteOrigin]) -> PayloadSnapshot {
    let info = Arc::new(crate::slurm::ExceptionInfo::default());
    PayloadSnapshot::new(origins.iter().map(|o| (*o, PayloadInfo::from(info.clone()))), std::iter::empty(), std::iter::empty(), None)
}

fn count(v: &serde_json::Value, what: &str) -> Option<usize> { v.get(what)?.as_array().map(|a| a.len()) }

#[test]
fn c18_native_chunk_sweep() {
    let mut bad: Vec<String> = Vec::new();
    let mut boundaries_after_open = 0usize;
    let mut runs = 0usize;
    // measure header and item size to aim at the limit
    let len_of = |n: u32| -> usize {
        let ann: Vec<_> = (0..n).map(|i| origin(i, false)).collect();
        let delta = Arc::new(PayloadDelta::construct(&snapshot(&[]), &snapshot(&ann), 12u32.into()).unwrap());
        DeltaStream::new(4711, 12u32.into(), 13u32.into(), delta, Utc::now()).map(|c| c.len()).sum()
    };
    let (one, two) = (len_of(1), len_of(2));
    let item = two - one;
    let target = (64000 - (one - item)) / item;
    let mut counts: Vec<usize> = vec![0, 1, 2];
    counts.extend(target.saturating_sub(2)..=target + 1);
    for a in counts {
        for wide in 0..=(a.min(item + 8)) {
            for w in [0usize, 1, 3] {
                if a < 3 && wide > 0 && w > 1 { continue }
                let ann: Vec<_> = (0..a as u32).map(|i| origin(i, (i as usize) < wide)).collect();
                let wd: Vec<_> = (0..w as u32).map(|i| origin(5000 + i, false)).collect();
                // delta: old = withdrawn items, new = announced items
                if a + w > 0 {
                    let delta = Arc::new(PayloadDelta::construct(&snapshot(&wd), &snapshot(&ann), 12u32.into()).unwrap());
                    let chunks: Vec<Bytes> = DeltaStream::new(4711, 12u32.into(), 13u32.into(), delta, Utc::now()).collect();
                    if chunks[..chunks.len().saturating_sub(1)].iter().any(|c| c.ends_with(b"[")) { boundaries_after_open += 1 }
                    let doc = chunks.concat();
                    runs += 1;
                    match serde_json::from_slice::<serde_json::Value>(&doc) {
                        Ok(v) if count(&v, "announced") == Some(a) && count(&v, "withdrawn") == Some(w) => {}
                        Ok(_) => bad.push(format!("delta {}+{} wide {}: wrong item counts", a, w, wide)),
                        Err(e) => bad.push(format!("delta {} announced ({} wide) {} withdrawn, chunk sizes {:?}: {}", a, wide, w,
                                                   chunks.iter().map(|c| c.len()).collect::<Vec<_>>(), e)),
                    }
                }
                if w == 0 {
                    let chunks: Vec<Bytes> = SnapshotStream::new(4711, 13u32.into(), Arc::new(snapshot(&ann)), Utc::now()).collect();
                    let doc = chunks.concat();
                    runs += 1;
                    match serde_json::from_slice::<serde_json::Value>(&doc) {
                        Ok(v) if count(&v, "announced") == Some(a) => {}
                        Ok(_) => bad.push(format!("snapshot {} wide {}: wrong item count", a, wide)),
                        Err(e) => bad.push(format!("snapshot {} items ({} wide), chunk sizes {:?}: {}", a, wide,
                                                   chunks.iter().map(|c| c.len()).collect::<Vec<_>>(), e)),
                    }
                }
            }
        }
    }
    println!("C18-NATIVE {} streams swept across the 64000-byte limit, {} with a chunk ending right behind an opening bracket, {} not well-formed or inexact; first: {:?}",
             runs, boundaries_after_open, bad.len(), bad.first());
    assert!(bad.is_empty(), "{} streams are not well-formed / exact, e.g. {}", bad.len(), bad[0]);
}
