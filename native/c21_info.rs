// helper for the C21 native replay, compiled inside crate::payload::info
use super::*;
pub(crate) fn publish_info(tal: Arc<TalInfo>, validity: Validity, stale: Time) -> PublishInfo {
    PublishInfo { tal, uri: None, roa_validity: validity, chain_validity: validity, point_stale: stale }
}
