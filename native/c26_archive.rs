// Native replay for C26 (empty chain): scenario sweep on the real Archive - five objects of 1..3 pages, two or
// three of them deleted in every order (so the chain of empty objects has its cells in every order and adjacent
// cells get merged), then a new object of 1..3 pages is published (reusing a head or non-head cell, with or
// without remainder); after every operation verify() must pass and the archive must hold exactly the live objects.
use super::*;
use std::collections::HashMap;

fn data(pages: usize, fill: u8) -> Vec<u8> { vec![fill; pages * 256 - 80] }

#[test]
fn c26_native_empty_chain_sweep() {
    let names: [&[u8]; 5] = [b"a", b"b", b"c", b"d", b"e"];
    let mut bad: Vec<String> = Vec::new();
    let mut runs = 0usize;
    for s1 in 1..=3usize { for s2 in 1..=3usize {
        let sizes = [1, s1, 1, s2, 1];
        let mut orders: Vec<Vec<usize>> = Vec::new();
        for i in 0..5 { for j in 0..5 { if i != j {
            orders.push(vec![i, j]);
            for k in 0..5 { if k != i && k != j { orders.push(vec![i, j, k]) } }
        } } }
        for order in &orders { for newp in 1..=3usize {
            runs += 1;
            let res = std::panic::catch_unwind(|| -> Result<(), String> {
                let mut archive = Archive::<()>::create_with_file(tempfile::tempfile().unwrap()).map_err(|e| format!("{:?}", e))?;
                let mut content: HashMap<Vec<u8>, Vec<u8>> = HashMap::new();
                for (i, n) in names.iter().enumerate() {
                    let d = data(sizes[i], i as u8 + 1);
                    archive.publish(n, &(), &d).map_err(|e| format!("publish: {:?}", e))?;
                    content.insert(n.to_vec(), d);
                }
                for &i in order {
                    archive.delete(names[i], |_| Ok(())).map_err(|e| format!("delete {}: {:?}", i, e))?;
                    content.remove(names[i]);
                    archive.verify().map_err(|e| format!("verify after delete {}: {:?}", i, e))?;
                }
                let d = data(newp, 9);
                archive.publish(b"f", &(), &d).map_err(|e| format!("publish f: {:?}", e))?;
                content.insert(b"f".to_vec(), d);
                archive.verify().map_err(|e| format!("verify after publish: {:?}", e))?;
                // a further delete + publish round exercises the chain left behind
                let last = (0..5).find(|i| !order.contains(i)).unwrap();
                archive.delete(names[last], |_| Ok(())).map_err(|e| format!("second delete: {:?}", e))?;
                content.remove(names[last]);
                archive.verify().map_err(|e| format!("verify after second delete: {:?}", e))?;
                let d = data(1, 7);
                archive.publish(b"g", &(), &d).map_err(|e| format!("publish g: {:?}", e))?;
                content.insert(b"g".to_vec(), d);
                archive.verify().map_err(|e| format!("verify after publish g: {:?}", e))?;
                for item in archive.objects().map_err(|e| format!("{:?}", e))? {
                    let (name, _, dat) = item.map_err(|e| format!("{:?}", e))?;
                    if content.remove(name.as_ref()).as_deref() != Some(dat.as_ref()) { return Err("object set differs".into()) }
                }
                if !content.is_empty() { return Err("objects missing".into()) }
                Ok(())
            });
            match res {
                Ok(Ok(())) => {}
                Ok(Err(e)) => bad.push(format!("sizes {:?} delete {:?} new {} pages: {}", sizes, order, newp, e)),
                Err(_) => bad.push(format!("sizes {:?} delete {:?} new {} pages: PANIC", sizes, order, newp)),
            }
        } }
    } }
    println!("C26-NATIVE {} scenarios, {} leave a corrupt or wrong archive; first: {:?}", runs, bad.len(), bad.first());
    assert!(bad.is_empty(), "{} scenarios fail, e.g. {}", bad.len(), bad[0]);
}

// Bucket chains: names of different lengths that hash into ONE bucket (found by search with the archive's own
// hash), published in every order; every one of them is then deleted / resized in turn.  After each step
// verify() must pass and exactly the live objects must be fetchable.
#[test]
fn c26_native_bucket_chain_delete() {
    let mut bad: Vec<String> = Vec::new();
    // the hash is keyed per archive: the colliding names are searched with each archive's own hash
    fn colliding(archive: &Archive<()>) -> Vec<Vec<u8>> {
        let mut by_bucket: HashMap<u64, Vec<Vec<u8>>> = HashMap::new();
        for i in 0u32..400000 {
            let len = 1 + (i % 7) as usize;
            let mut name = format!("{:x}", i).into_bytes();
            while name.len() < len + 3 { name.push(b'x') }
            let h = archive.meta.hash_name(&name);
            let v = by_bucket.entry(h).or_default();
            if v.iter().all(|n| n.len() != name.len()) { v.push(name) }
            if v.len() == 4 { return v.clone() }
        }
        Vec::new()
    }
    let perms: [[usize; 4]; 6] = [[0,1,2,3],[3,2,1,0],[1,0,3,2],[2,3,0,1],[0,2,1,3],[3,0,2,1]];
    for perm in perms { for victim in 0..4usize { for grow in [false, true] {
        let res = std::panic::catch_unwind(|| -> Result<(), String> {
            let mut archive = Archive::<()>::create_with_file(tempfile::tempfile().unwrap()).map_err(|e| format!("{:?}", e))?;
            let group = colliding(&archive);
            if group.len() != 4 { return Err("fixture: no 4 colliding names of different lengths found".into()) }
            let mut content: HashMap<Vec<u8>, Vec<u8>> = HashMap::new();
            for &i in &perm {
                let d = data(1, i as u8 + 1);
                archive.publish(&group[i], &(), &d).map_err(|e| format!("publish: {:?}", e))?;
                content.insert(group[i].clone(), d);
            }
            if grow {
                let d = data(3, 0x55);
                archive.update(&group[victim], &(), &d, |_| Ok(())).map_err(|e| format!("update: {:?}", e))?;
                content.insert(group[victim].clone(), d);
            } else {
                archive.delete(&group[victim], |_| Ok(())).map_err(|e| format!("delete: {:?}", e))?;
                content.remove(&group[victim]);
            }
            archive.verify().map_err(|e| format!("verify: {:?}", e))?;
            for (n, d) in &content {
                let got = archive.fetch_bytes(n).map_err(|e| format!("fetch {:?}: {:?}", String::from_utf8_lossy(n), e))?;
                if got.as_ref() != d.as_slice() { return Err(format!("object {:?} has other content", String::from_utf8_lossy(n))) }
            }
            let mut count = 0;
            for item in archive.objects().map_err(|e| format!("{:?}", e))? { item.map_err(|e| format!("{:?}", e))?; count += 1 }
            if count != content.len() { return Err(format!("{} objects listed, {} expected", count, content.len())) }
            Ok(())
        });
        match res {
            Ok(Ok(())) => {}
            Ok(Err(e)) => if bad.len() < 4 { bad.push(format!("publish order {:?}, {} entry {}: {}", perm, if grow { "grow" } else { "delete" }, victim, e)) },
            Err(_) => if bad.len() < 4 { bad.push(format!("publish order {:?}, {} entry {}: PANIC", perm, if grow { "grow" } else { "delete" }, victim)) },
        }
    }}}
    println!("C26-NATIVE-BUCKET scenarios that leave a broken archive: {:?}", bad);
    assert!(bad.is_empty(), "{:#?}", bad);
}
