// Native replay for C33 (unmarked task failure): a fatal store error while a trust anchor certificate is loaded
// ("Fatal: failed to read file ...") must make the validation run fail; it must not be reported as a successful
// run whose (partial) result replaces the served data.
use super::*;
use crate::payload::ValidationReport;

#[test]
fn c33_native_fatal_ta_error_fails_run() {
    let _ = crate::process::Process::init(); // may be inited already
    let dir = tempfile::tempdir().unwrap();
    let mut config = Config::default_with_paths(Default::default(), dir.path().into());
    config.rsync_command = "echo".into();
    config.rsync_args = Some(vec!["some".into()]);
    config.no_rir_tals = false;                       // the bundled RIR TALs
    let mut engine = Engine::new(&config, false).unwrap();   // no collector: trust anchors come from the store
    engine.ignite().unwrap();
    // A regular file where the store keeps its trust-anchor directory: every read below it fails with
    // ENOTDIR, which the store reports as a fatal error (not as "no stored copy").
    let ta = dir.path().join("stored").join("ta");
    std::fs::create_dir_all(ta.parent().unwrap()).unwrap();
    let _ = std::fs::remove_dir_all(&ta);
    std::fs::write(&ta, b"not a directory").unwrap();

    let report = ValidationReport::new(&config);
    let mut run = engine.start(&report, false).unwrap();
    let res = run.process();
    let failed = res.is_err();
    println!("C33-NATIVE every trust-anchor read fails fatally; Run::process() reports {}",
             if failed { "failure" } else { "SUCCESS (the run's partial result would be published)" });
    assert!(failed, "a run in which loading trust anchors failed fatally was reported as successful");
}

/// An initial (quick) run over a store without trust-anchor certificates cannot validate anything:
/// it must be reported as failed ("Initial quick validation failed"), not as a successful empty run.
#[test]
fn c33_native_initial_run_without_ta_fails() {
    let _ = crate::process::Process::init();
    let dir = tempfile::tempdir().unwrap();
    let mut config = Config::default_with_paths(Default::default(), dir.path().into());
    config.rsync_command = "echo".into();
    config.rsync_args = Some(vec!["some".into()]);
    config.no_rir_tals = false;
    let mut engine = Engine::new(&config, false).unwrap();
    engine.ignite().unwrap();
    let report = ValidationReport::new(&config);
    let mut run = engine.start(&report, true).unwrap();
    let failed = run.process().is_err();
    println!("C33-NATIVE initial run over an empty store (no trust-anchor certificates): Run::process() reports {}",
             if failed { "failure" } else { "SUCCESS (an empty result would be published)" });
    assert!(failed, "an initial run without any trust anchor certificate was reported as successful");
}
