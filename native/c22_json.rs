// Native fallback replay for C22: every ASCII string of 1 and 2 bytes through the real json_str,
// checked with serde_json (the harness' input class, replayed concretely).
use super::*;

#[test]
fn c22_native_json_str() {
    let mut bad = Vec::new();
    for a in 0u8..128 {
        let s = String::from_utf8(vec![a]).unwrap();
        let doc = format!("\"{}\"", json_str(&s));
        match serde_json::from_str::<String>(&doc) {
            Ok(back) if back == s => {}
            _ => bad.push(a),
        }
    }
    println!("NATIVE-FALLBACK json_str: single bytes that do not round-trip through a JSON parser: {:?}", bad);
    assert!(bad.is_empty(), "json_str produces invalid JSON for bytes {:?}", bad);
}
