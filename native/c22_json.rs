// Native fallback replay for C22: every ASCII string of 1 and 2 bytes through the real json_str,
// checked with serde_json (the harness' input class, replayed concretely).
use super::*;

#[test]
fn c22_native_json_str() {
    let mut bad = Vec::new();
    for a in 0u8..128 {
        for b in 0u8..129 {
            let v = if b == 128 { vec![a] } else { vec![a, b] };
            let s = String::from_utf8(v).unwrap();
            let doc = format!("\"{}\"", json_str(&s));
            match serde_json::from_str::<String>(&doc) {
                Ok(back) if back == s => {}
                _ => if !bad.contains(&a) { bad.push(a) },
            }
        }
    }
    println!("NATIVE-FALLBACK json_str: first bytes of 1- and 2-byte strings that do not round-trip through a JSON parser: {:?}", bad);
    assert!(bad.is_empty(), "json_str produces invalid JSON for bytes {:?}", bad);
}
