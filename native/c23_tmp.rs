// Native replay for C23 (temporary files): while StoredPoint::update is under way - the moment a kill would
// freeze - every file that is not the point's own complete file must be in the store's tmp directory, which
// is swept at the start of the next run and never scanned for publication points.
use super::*;
use std::str::FromStr;

fn c23_files(dir: &Path, out: &mut Vec<PathBuf>) {
    if let Ok(rd) = std::fs::read_dir(dir) {
        for e in rd.flatten() {
            let p = e.path();
            if p.is_dir() { c23_files(&p, out) } else { out.push(p) }
        }
    }
}

#[test]
fn c23_native_tmp_file_location() {
    let _ = crate::process::Process::init();
    let dir = tempfile::tempdir().unwrap();
    let config = crate::config::Config::default_with_paths(Default::default(), dir.path().into());
    let store = Store::new(&config).unwrap();
    let mft = uri::Rsync::from_str("rsync://example.net/repo/ca/ca.mft").unwrap();
    let mut bad = Vec::new();
    for notify in [None, Some(uri::Https::from_str("https://example.net/notification.xml").unwrap())] {
        let repo = Repository::new(&store, notify);
        let mut point = repo.get_point(&mft).unwrap();
        let own = point.path.clone();
        let manifest = StoredManifest {
            not_after: Time::now(), manifest_number: Serial::from(7u64), this_update: Time::now(),
            ca_repository: uri::Rsync::from_str("rsync://example.net/repo/ca/").unwrap(),
            manifest: Bytes::from(vec![1u8; 20000]),
            crl_uri: uri::Rsync::from_str("rsync://example.net/repo/ca/ca.crl").unwrap(),
            crl: Bytes::from(vec![2u8; 20000]),
        };
        let root = store.path.clone();
        let tmp = store.path.join("tmp");
        let mut before: Vec<PathBuf> = Vec::new();
        c23_files(&root, &mut before);
        let mut seen: Vec<PathBuf> = Vec::new();
        let mut calls = 0;
        point.update(&store, manifest, || {
            calls += 1;
            if calls == 1 {
                c23_files(&root, &mut seen);
                Ok(Some(StoredObject::new(uri::Rsync::from_str("rsync://example.net/repo/ca/a.roa").unwrap(), Bytes::from(vec![3u8; 20000]), None)))
            } else { Ok(None) }
        }).map_err(|_| ()).unwrap();
        for p in seen {
            if p != own && !before.contains(&p) && !p.starts_with(&tmp) && p.file_name().map(|n| n != "status.bin").unwrap_or(true) {
                bad.push(p.strip_prefix(&root).unwrap().display().to_string());
            }
        }
    }
    println!("C23-NATIVE-TMP files outside tmp/ while an update is in progress: {:?}", bad);
    assert!(bad.is_empty(), "unfinished update data outside the swept tmp directory: {:?}", bad);
}
