// Native replay of the C37 rsync counterexample schedule against the real
// rsync::Run::load_module (compiled into the overlay's src/collector/rsync.rs
// under cfg(all(test, routinator_verif))).
use super::*;
use std::os::unix::fs::PermissionsExt;

#[test]
fn c37_native_second_thread_after_remove() {
    let _ = crate::process::Process::init();
    let dir = tempfile::tempdir().unwrap();
    let count = dir.path().join("count");
    let script = dir.path().join("fake-rsync.sh");
    fs::write(&script, format!(
        "#!/bin/sh\nif [ \"$1\" = \"-h\" ]; then exit 0; fi\necho x >> {}\nexit 0\n",
        count.display()
    )).unwrap();
    fs::set_permissions(&script, fs::Permissions::from_mode(0o755)).unwrap();
    let mut config = Config::default_with_paths(
        Default::default(), dir.path().join("cache")
    );
    config.rsync_command = script.display().to_string();
    config.rsync_args = Some(vec!["-r".into()]);
    Collector::init(&config).unwrap();
    let collector = Collector::new(&config).unwrap().unwrap();
    let run = collector.start();
    let uri = uri::Rsync::from_str("rsync://example.net/module/ca/x.cer").unwrap();
    // thread A pauses between its two bookkeeping steps; thread B arrives meanwhile
    std::env::set_var("ROUTINATOR_VERIF_PAUSE", "rsync-module-bookkeeping:1500");
    std::thread::scope(|scope| {
        scope.spawn(|| run.load_module(&uri));
        std::thread::sleep(std::time::Duration::from_millis(700));
        scope.spawn(|| run.load_module(&uri));
    });
    let n = fs::read_to_string(&count).map(|s| s.lines().count()).unwrap_or(0);
    println!("C37-NATIVE fetches={}", n);
    assert!(n <= 1, "module fetched {} times in one run", n);
}

// The outcome of the fetch is an environment choice in the model.  Here the rsync binary disappears after the
// collector was set up, so starting it fails (status Err): the module must still count as attempted once.
#[test]
fn c37_native_failed_start_fetched_once() {
    let _ = crate::process::Process::init();
    let dir = tempfile::tempdir().unwrap();
    let script = dir.path().join("fake-rsync.sh");
    fs::write(&script, "#!/bin/sh\nexit 0\n").unwrap();
    fs::set_permissions(&script, fs::Permissions::from_mode(0o755)).unwrap();
    let mut config = Config::default_with_paths(Default::default(), dir.path().join("cache"));
    config.rsync_command = script.display().to_string();
    config.rsync_args = Some(vec!["-r".into()]);
    Collector::init(&config).unwrap();
    let collector = Collector::new(&config).unwrap().unwrap();
    let run = collector.start();
    fs::remove_file(&script).unwrap();
    let uri = uri::Rsync::from_str("rsync://example.net/module/ca/x.cer").unwrap();
    run.load_module(&uri);
    let first_failed = run.metrics.lock().first().map(|m| m.status.is_err()).unwrap_or(false);
    run.load_module(&uri);
    std::thread::scope(|scope| {
        scope.spawn(|| run.load_module(&uri));
        scope.spawn(|| run.load_module(&uri));
    });
    let attempts = run.metrics.lock().len();
    println!("C37-NATIVE-FAILED-START attempts={} first_failed_to_start={} was_updated={}", attempts, first_failed, run.was_updated(&uri));
    assert!(first_failed, "fixture: the rsync start was expected to fail");
    assert!(attempts <= 1, "module fetched {} times in one run after a failed start", attempts);
}
