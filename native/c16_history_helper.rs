// helper for the C16 native replay, compiled inside crate::payload::history
use super::*;
impl SharedHistory {
    /// Gives `created` a value with a zero sub-second part (what a run finishing exactly on a second boundary leaves).
    pub(crate) fn verif_set_created_whole_second(&self) -> DateTime<Utc> {
        let mut h = self.write();
        let c = DateTime::<Utc>::from_timestamp(h.created.map(|c| c.timestamp()).unwrap_or(1_700_000_000), 0).unwrap();
        h.created = Some(c);
        c
    }
}
