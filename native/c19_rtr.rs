// Native replay for C19: drive the real RtrListener::poll_next by hand with a
// counting waker.  The keepalive value (40000 s) is rejected by Linux
// (TCP_KEEPIDLE > 32767), so per-connection setup fails.
use super::*;
use std::sync::atomic::{AtomicUsize, Ordering};
use std::task::{Wake, Waker};

struct Count(AtomicUsize);
impl Wake for Count {
    fn wake(self: Arc<Self>) { self.0.fetch_add(1, Ordering::SeqCst); }
    fn wake_by_ref(self: &Arc<Self>) { self.0.fetch_add(1, Ordering::SeqCst); }
}

#[test]
fn c19_native_pending_without_wake() {
    let rt = tokio::runtime::Builder::new_current_thread().enable_all().build().unwrap();
    rt.block_on(async {
        let std_listener = StdListener::bind("127.0.0.1:0").unwrap();
        std_listener.set_nonblocking(true).unwrap();
        let addr = std_listener.local_addr().unwrap();
        let mut listener = RtrListener {
            tcp: TcpListener::from_std(std_listener).unwrap(),
            backoff: None, tls: None,
            keepalive: Some(Duration::from_secs(40000)),
            server_metrics: Arc::new(RtrServerMetrics::new(false)),
            addr: addr.to_string(),
        };
        let count = Arc::new(Count(AtomicUsize::new(0)));
        let waker = Waker::from(count.clone());
        let mut ctx = Context::from_waker(&waker);
        // first poll: nothing pending, registers the waker
        let first = Pin::new(&mut listener).poll_next(&mut ctx);
        assert!(first.is_pending());
        let _c1 = std::net::TcpStream::connect(addr).unwrap();
        tokio::time::sleep(Duration::from_millis(200)).await;
        let woken_for_c1 = count.0.swap(0, Ordering::SeqCst);
        // second poll: the connection is accepted, setup fails
        let second = Pin::new(&mut listener).poll_next(&mut ctx);
        let pending = second.is_pending();
        let surfaced = match &second {
            Poll::Ready(Some(Err(_))) => "Ready(Some(Err))",
            Poll::Ready(None) => "Ready(None)",
            _ => "no",
        };
        let _c2 = std::net::TcpStream::connect(addr).unwrap();
        tokio::time::sleep(Duration::from_millis(300)).await;
        let woken_after = count.0.load(Ordering::SeqCst);
        println!(
            "C19-NATIVE woken_for_first_connection={} second_poll_pending={} wakeups_after_failed_setup_and_new_connection={} failed_setup_surfaced_as_stream_item={}",
            woken_for_c1, pending, woken_after, surfaced
        );
        assert!(woken_for_c1 >= 1);
        assert!(surfaced == "no", "a failed connection setup surfaced as {}: rpki's Server::run stops on it", surfaced);
        assert!(!pending || woken_after >= 1,
            "poll_next returned Pending after a failed setup and nothing ever wakes the task again");
    });
}

// Per-connection setup must fail with an error, never by panicking: a panic unwinds through poll_next into the
// listener task and takes the listener down.  Keepalive values around every conversion boundary.
#[test]
fn c19_native_setup_never_panics() {
    let rt = tokio::runtime::Builder::new_current_thread().enable_all().build().unwrap();
    let mut bad = Vec::new();
    for secs in [0u64, 1, 32767, 32768, 40000, u32::MAX as u64 - 1, u32::MAX as u64, u32::MAX as u64 + 1,
                 1u64 << 40, u64::MAX / 2, u64::MAX] {
        let res = std::panic::catch_unwind(std::panic::AssertUnwindSafe(|| {
            rt.block_on(async {
                let std_listener = StdListener::bind("127.0.0.1:0").unwrap();
                std_listener.set_nonblocking(true).unwrap();
                let addr = std_listener.local_addr().unwrap();
                let listener = TcpListener::from_std(std_listener).unwrap();
                let _client = std::net::TcpStream::connect(addr).unwrap();
                let (sock, peer) = listener.accept().await.unwrap();
                let metrics = RtrServerMetrics::new(false);
                RtrStream::new(sock, peer, None, Some(Duration::from_secs(secs)), &metrics).is_ok()
            })
        }));
        if res.is_err() {
            bad.push(secs);
        }
    }
    assert!(bad.is_empty(), "RtrStream::new panics for keepalive seconds {:?}", bad);
}
