// Native replay for C08 (rejected resources): whatever blocks the rejected CAs queued, in whatever order,
// a prefix inside any queued block must afterwards count as overlapping rejected resources, and a prefix
// outside all of them must not.
use super::*;
use rpki::repository::resources::IpBlock;
use std::str::FromStr;

#[test]
fn c08_native_builder_keeps_every_block() {
    let v4 = ["10.0.0.0/24", "10.0.0.0/16", "10.0.128.0/17", "192.0.2.0/25", "192.0.2.0/24", "198.51.100.0-198.51.100.9", "198.51.100.0/24"];
    let v6 = ["2001:db8::/48", "2001:db8::/32", "2001:db8:ffff::/48"];
    // a probe inside each block but, where blocks nest, outside the smaller one
    let probes = [("10.0.0.0/24", "10.0.0.7/32"), ("10.0.0.0/16", "10.0.5.0/24"), ("10.0.128.0/17", "10.0.200.0/24"), ("192.0.2.0/25", "192.0.2.1/32"),
                  ("192.0.2.0/24", "192.0.2.200/32"), ("198.51.100.0-198.51.100.9", "198.51.100.8/32"), ("198.51.100.0/24", "198.51.100.77/32"),
                  ("2001:db8::/48", "2001:db8::1/128"), ("2001:db8::/32", "2001:db8:5::/48"), ("2001:db8:ffff::/48", "2001:db8:ffff:1::/64")];
    let outside = ["11.0.0.0/8", "192.0.3.0/24", "198.51.101.0/24", "2001:db9::/32"];
    let mut bad = Vec::new();
    let n = v4.len() + v6.len();
    // every rotation and the reversed order of the queue
    for rot in 0..(2 * n) {
        let mut items: Vec<(bool, &str)> = v4.iter().map(|s| (true, *s)).chain(v6.iter().map(|s| (false, *s))).collect();
        if rot >= n { items.reverse() }
        items.rotate_left(rot % n);
        let builder = RejectedResourcesBuilder::default();
        for (is4, s) in &items {
            let block = if *is4 { IpBlock::from_v4_str(s).unwrap() } else { IpBlock::from_v6_str(s).unwrap() };
            builder.addrs.push((*is4, block));
        }
        let rejected = builder.finalize();
        for (blk, probe) in probes {
            if rejected.keep_prefix(Prefix::from_str(probe).unwrap()) && bad.len() < 5 {
                bad.push(format!("queue order {:?}: {} lies in rejected block {} but is kept", items.iter().map(|x| x.1).collect::<Vec<_>>(), probe, blk));
            }
        }
        for probe in outside {
            if !rejected.keep_prefix(Prefix::from_str(probe).unwrap()) && bad.len() < 5 {
                bad.push(format!("{} overlaps no rejected block but is dropped", probe));
            }
        }
    }
    println!("C08-NATIVE-BUILDER wrong verdicts: {:?}", bad);
    assert!(bad.is_empty(), "{:#?}", bad);
}
