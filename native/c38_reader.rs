// Native replay for C38 (reader): the real LimitedDataRead over in-memory data around the limit, read whole
// (read_all) and in small steps (a reader that hands out at most 3 bytes per call).
use super::*;
use std::io::Read;

struct Drip<'a>(&'a [u8]);
impl Read for Drip<'_> {
    fn read(&mut self, buf: &mut [u8]) -> Result<usize, io::Error> {
        let n = self.0.len().min(buf.len()).min(3);
        buf[..n].copy_from_slice(&self.0[..n]);
        self.0 = &self.0[n..];
        Ok(n)
    }
}

#[test]
fn c38_native_reader_limit() {
    let mut bad = Vec::new();
    for limit in [0u64, 1, 2, 5, 4096, 70000] {
        for size in [limit.saturating_sub(1), limit, limit + 1, limit + 2, 2 * limit + 7] {
            let data = vec![7u8; size as usize];
            for drip in [false, true] {
                let uri = "rsync://example.net/x";
                let res = if drip { LimitedDataRead::new(Drip(&data), &uri, Some(limit)).read_all() }
                          else { LimitedDataRead::new(io::Cursor::new(&data), &uri, Some(limit)).read_all() };
                let ok = match &res {
                    Ok(v) => size <= limit && v.len() as u64 == size,
                    Err(LimitedDataReadError::LargeObject(_)) => size > limit,
                    Err(_) => false,
                };
                if !ok {
                    bad.push(format!("limit {} size {} {}: {}", limit, size, if drip { "drip" } else { "whole" },
                                     match &res { Ok(v) => format!("accepted {} bytes", v.len()), Err(e) => format!("{:?}", e) }));
                }
            }
        }
    }
    let data = vec![1u8; 100000];
    let uri = "u";
    if LimitedDataRead::new(io::Cursor::new(&data), &uri, None).read_all().map(|v| v.len()).ok() != Some(100000) {
        bad.push("no limit: 100000 bytes not delivered".into());
    }
    println!("C38-NATIVE {} of 61 reads wrong; first: {:?}", bad.len(), bad.first());
    assert!(bad.is_empty(), "{:?}", bad);
}
