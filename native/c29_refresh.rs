// Native replay for C29 (best-before refresh): a Not Modified answer is a successful update, so the stored
// best-before time must move to now + fallback whether or not the copy had already expired.
use super::*;
use std::str::FromStr;
use chrono::Utc;

fn c29_archive_with(collector: &Collector, uri: &uri::Https, best_before_ts: i64) {
    let state = RepositoryState {
        rpki_notify: uri.clone(),
        session: uuid::Uuid::from_u128(0x4242),
        serial: 3,
        updated_ts: Utc::now().timestamp() - 1000,
        best_before_ts,
        last_modified_ts: None,
        etag: None,
        delta_state: Default::default(),
    };
    let (file, tmp) = collector.temp_file().unwrap();
    let mut archive = SnapshotRrdpArchive::create_with_file(file, tmp.clone()).unwrap();
    archive.publish_state(&state).unwrap();
    archive.finalize().unwrap();
    drop(archive);
    fs::rename(tmp.as_ref(), collector.repository_path(uri).unwrap()).unwrap();
}

#[test]
fn c29_native_not_modified_refreshes_best_before() {
    let dir = tempfile::tempdir().unwrap();
    let config = Config::default_with_paths(dir.path().join("routinator.conf"), dir.path().join("cache"));
    let mut collector = Collector::new(&config).unwrap().unwrap();
    collector.ignite().unwrap();
    let mut bad = Vec::new();
    for (name, offset) in [("expired", -10i64), ("about-to-expire", 5), ("fresh", 300)] {
        let uri = uri::Https::from_str(&format!("https://rrdp.example.net/{}/notification.xml", name)).unwrap();
        let now = Utc::now().timestamp();
        c29_archive_with(&collector, &uri, now + offset);
        {
            let mut log = LogBookWriter::new(None);
            let mut update = RepositoryUpdate::new(&collector, &uri, &mut log).unwrap();
            let archive = RrdpArchive::try_open(update.path.clone()).unwrap().unwrap();
            let state = archive.load_state().unwrap();
            update.not_modified(Some((archive, state))).unwrap();
        }
        let state = RrdpArchive::open(Arc::new(collector.repository_path(&uri).unwrap())).unwrap().load_state().unwrap();
        let floor = now + config.refresh.as_secs() as i64 - 5;
        if state.best_before_ts < floor {
            bad.push(format!("{} copy (best-before now{:+}): after Not Modified best-before is now{:+}, expected at least now+{}",
                             name, offset, state.best_before_ts - now, floor - now));
        }
    }
    assert!(bad.is_empty(), "a successful (Not Modified) update did not refresh best-before: {:?}", bad);
}
