// Native replay for C21: a trust-anchor label containing a quote, through the real JSON-family formatters.
use super::*;
use crate::payload::{PayloadInfo, PayloadSnapshot};
use rpki::repository::tal::TalInfo;

#[test]
fn c21_native_tal_name_with_quote() {
    use rpki::resources::MaxLenPrefix;
    use std::str::FromStr;
    let tal = TalInfo::from_name("evil\"name".into()).into_arc();
    let now = rpki::repository::x509::Time::now();
    let validity = rpki::repository::x509::Validity::new(now, now);
    let info = PayloadInfo::from(Arc::new(crate::payload::info_verif::publish_info(tal, validity, now)));
    let origin = RouteOrigin::new(
        MaxLenPrefix::new(Prefix::from_str("192.0.2.0/24").unwrap(), None).unwrap(),
        Asn::from_u32(64496)
    );
    let snapshot = Arc::new(PayloadSnapshot::new(
        [(origin, info)].into_iter(), std::iter::empty(), std::iter::empty(), None
    ));
    let metrics = Arc::new(crate::metrics::Metrics::new());
    let mut bad = Vec::new();
    for (name, format) in [("json", OutputFormat::Json), ("slurm", OutputFormat::Slurm), ("slurm2", OutputFormat::Slurm2), ("jsonext", OutputFormat::ExtendedJson)] {
        let mut out = Vec::new();
        Output::new().write(snapshot.clone(), metrics.clone(), format, &mut out).unwrap();
        let ok = serde_json::from_slice::<serde_json::Value>(&out).is_ok();
        println!("C21-NATIVE format {} with TAL name evil\"name -> valid JSON: {}", name, ok);
        if !ok { bad.push(name) }
    }
    assert!(bad.is_empty(), "formats producing invalid JSON: {:?}", bad);
}
