// Native replay for C21: a trust-anchor label containing a quote, through the real JSON-family formatters.
use super::*;
use crate::payload::{PayloadInfo, PayloadSnapshot};
use rpki::repository::tal::TalInfo;

#[test]
fn c21_native_tal_name_with_quote() {
    use rpki::resources::MaxLenPrefix;
    use std::str::FromStr;
    let tal = TalInfo::from_name("evil\"name".into()).into_arc();
    let now = rpki::repository::x509::Time::now();
    let validity = rpki::repository::x509::Validity::new(now, now);
    let info = PayloadInfo::from(Arc::new(crate::payload::info_verif::publish_info(tal, validity, now)));
    let origin = RouteOrigin::new(
        MaxLenPrefix::new(Prefix::from_str("192.0.2.0/24").unwrap(), None).unwrap(),
        Asn::from_u32(64496)
    );
    // one item of every payload type carries the name: origins, router keys and ASPAs have their own writers
    let key = rpki::rtr::payload::RouterKey::new(
        rpki::crypto::keys::KeyIdentifier::from([7u8; 20]), Asn::from_u32(64497),
        rpki::rtr::pdu::RouterKeyInfo::new(bytes::Bytes::from(vec![1u8; 8])).unwrap());
    let aspa = rpki::rtr::payload::Aspa::new(
        Asn::from_u32(64498), rpki::rtr::pdu::ProviderAsns::try_from_iter([Asn::from_u32(64499)]).unwrap());
    let snapshot = Arc::new(PayloadSnapshot::new(
        [(origin, info.clone())].into_iter(), [(key, info.clone())].into_iter(), [(aspa, info)].into_iter(), None
    ));
    let metrics = Arc::new(crate::metrics::Metrics::new());
    let mut bad = Vec::new();
    for (name, format) in [("json", OutputFormat::Json), ("slurm", OutputFormat::Slurm), ("slurm2", OutputFormat::Slurm2), ("jsonext", OutputFormat::ExtendedJson)] {
        let mut out = Vec::new();
        Output::new().write(snapshot.clone(), metrics.clone(), format, &mut out).unwrap();
        let ok = serde_json::from_slice::<serde_json::Value>(&out).is_ok();
        println!("C21-NATIVE format {} with TAL name evil\"name -> valid JSON: {}", name, ok);
        if !ok { bad.push(name) }
    }
    assert!(bad.is_empty(), "formats producing invalid JSON: {:?}", bad);
}

/// Native replay for the selection-building obligations: for queries with nested, repeated and disjoint
/// select-prefix values (both orders, with and without more-specifics) the real Output must include exactly
/// the probe origins that some given value selects (reference computed from the values themselves).
#[test]
fn c21_native_selection_rules() {
    use rpki::resources::MaxLenPrefix;
    use std::str::FromStr;
    let pfx = |s: &str| Prefix::from_str(s).unwrap();
    let probes: Vec<RouteOrigin> = ["10.0.0.0/8", "10.0.0.0/12", "10.1.0.0/16", "10.1.1.0/24", "11.0.0.0/8", "0.0.0.0/0", "2001:db8::/32"]
        .iter().flat_map(|p| [64496u32, 64497].into_iter().map(move |a| (p, a)))
        .map(|(p, a)| RouteOrigin::new(MaxLenPrefix::new(pfx(p), None).unwrap(), Asn::from_u32(a))).collect();
    let cases: [(&[&str], &[u32]); 6] = [
        (&["10.0.0.0/8", "10.1.0.0/16"], &[]), (&["10.1.0.0/16", "10.0.0.0/8"], &[]), (&["10.0.0.0/8", "10.0.0.0/8"], &[]),
        (&["2001:db8::/32"], &[64496, 64496]), (&["0.0.0.0/0", "10.1.1.0/24"], &[]), (&["10.1.1.0/24", "11.0.0.0/8"], &[64497]),
    ];
    let mut bad = Vec::new();
    for (prefixes, asns) in cases {
        for ms in [false, true] {
            let mut q: Vec<String> = prefixes.iter().map(|p| format!("select-prefix={}", p)).collect();
            q.extend(asns.iter().map(|a| format!("select-asn={}", a)));
            if ms { q.push("include=more-specifics".into()) }
            let q = q.join("&");
            let out = Output::from_query(Some(&q)).unwrap();
            let mut sel = Selection::new();
            for p in prefixes { sel.push_prefix(pfx(p)) }
            for a in asns { sel.push_asn(Asn::from_u32(*a)) }
            sel.set_more_specifics(ms);
            for o in &probes {
                let want = asns.iter().any(|a| o.asn == Asn::from_u32(*a)) || prefixes.iter().any(|p| {
                    o.prefix.prefix().covers(pfx(p)) || (ms && pfx(p).covers(o.prefix.prefix()))
                });
                if out.include_origin(*o) != want || sel.include_origin(*o) != want {
                    println!("C21-NATIVE-SEL query {} : origin {} AS{} included={} / via push_*={} but the given values {}select it",
                             q, o.prefix.prefix(), o.asn, out.include_origin(*o), sel.include_origin(*o), if want { "" } else { "do not " });
                    bad.push(q.clone());
                }
            }
        }
    }
    println!("C21-NATIVE-SEL {} of 12 queries select something other than their values do", { bad.dedup(); bad.len() });
    assert!(bad.is_empty(), "selection differs from the given values for: {:?}", bad);
}
