// Native replay for C20 (batch path): every entry of a request list must get the verdict the single-route
// check gives for that entry's prefix AND origin AS, whatever its neighbours in the list are.
use super::*;
use std::sync::Arc;
use rpki::resources::MaxLenPrefix;
use crate::slurm::ExceptionInfo;

#[test]
fn c20_native_batch_equals_single() {
    let vrps = [("10.0.0.0/8", Some(16u8), 64496u32), ("10.2.0.0/16", None, 64500), ("2001:db8::/32", Some(48), 64496)];
    let info = Arc::new(ExceptionInfo::default());
    let snapshot = PayloadSnapshot::new(
        vrps.iter().map(|(p, m, a)| (RouteOrigin::new(MaxLenPrefix::new(Prefix::from_str(p).unwrap(), *m).unwrap(), Asn::from_u32(*a)),
                                      PayloadInfo::from(info.clone()))),
        std::iter::empty(), std::iter::empty(), None);
    let prefixes = ["10.0.0.0/8", "10.1.0.0/16", "10.2.0.0/16", "10.2.3.0/24", "192.0.2.0/24", "2001:db8:1::/48"];
    let asns = [64496u32, 64500, 64511];
    let mut routes = Vec::new();
    // every ordered pair of (prefix, asn) entries next to each other, incl. same prefix / different AS
    for p1 in prefixes { for a1 in asns { for p2 in prefixes { for a2 in asns {
        routes.push(Request { prefix: Prefix::from_str(p1).unwrap(), asn: Asn::from_u32(a1) });
        routes.push(Request { prefix: Prefix::from_str(p2).unwrap(), asn: Asn::from_u32(a2) });
    }}}}
    let requests = RequestList { routes };
    let list = requests.validity(&snapshot);
    let mut bad = Vec::new();
    for (i, (req, item)) in requests.routes.iter().zip(list.routes.iter()).enumerate() {
        let single = RouteValidity::new(req.prefix, req.asn, &snapshot);
        let same = item.prefix() == single.prefix() && item.asn() == single.asn() && item.state().to_string() == single.state().to_string();
        if !same && bad.len() < 5 {
            bad.push(format!("entry {} ({} {}): batch says {} {} {}, single check says {}", i, req.prefix, req.asn,
                             item.prefix(), item.asn(), item.state(), single.state()));
        }
    }
    println!("C20-NATIVE-BATCH entries whose batch verdict differs from the single-route verdict: {:?}", bad);
    assert!(list.routes.len() == requests.routes.len(), "batch result has {} entries for {} requests", list.routes.len(), requests.routes.len());
    assert!(bad.is_empty(), "batch verdicts differ from single-route verdicts: {:#?}", bad);
}
