// Native replay for C17: the MC schedule "check; [install; notify]; subscribe; recv"
// against the real handle_notify_get_or_head, using the pause point after the check.
use super::*;
use crate::config::Config;
use crate::metrics::Metrics;
use crate::payload::ValidationReport;
use crate::slurm::LocalExceptions;

#[test]
fn c17_native_missed_update() {
    let _ = crate::process::Process::init();
    let dir = tempfile::tempdir().unwrap();
    let config = Config::default_with_paths(Default::default(), dir.path().into());
    let history = SharedHistory::from_config(&config);
    let notify = NotifySender::new();
    // version 0: an empty data set
    history.update(ValidationReport::new(&config), &LocalExceptions::empty(), Metrics::new());
    history.mark_update_done();
    let (session, serial) = history.read().session_and_serial();
    let uri = format!("/json-delta/notify?session={}&serial={}", session, serial);
    let (parts, _) = hyper::Request::builder().uri(uri).body(()).unwrap().into_parts();
    let req = Request::new(parts, None);
    std::env::set_var("ROUTINATOR_VERIF_PAUSE", "notify-after-check:1200");
    let slurm = r#"{"slurmVersion":1,"validationOutputFilters":{"prefixFilters":[],"bgpsecFilters":[]},
        "locallyAddedAssertions":{"prefixAssertions":[{"asn":64496,"prefix":"198.51.100.0/24"}],"bgpsecAssertions":[]}}"#;
    let exceptions = LocalExceptions::from_json(slurm, false).unwrap();
    let started = std::time::Instant::now();
    let outcome = std::thread::scope(|scope| {
        let h = scope.spawn(|| {
            let rt = tokio::runtime::Builder::new_current_thread().enable_all().build().unwrap();
            rt.block_on(async {
                tokio::time::timeout(
                    std::time::Duration::from_millis(4000),
                    handle_notify_get_or_head(req, &history, &notify)
                ).await.is_ok()
            })
        });
        // while the request sits between its version check and its subscription: new data + notification
        std::thread::sleep(std::time::Duration::from_millis(400));
        let changed = history.update(ValidationReport::new(&config), &exceptions, Metrics::new());
        history.mark_update_done();
        let mut sender = notify.clone();
        sender.notify();
        let new_serial = history.read().serial();
        (changed, new_serial, h.join().unwrap())
    });
    println!(
        "C17-NATIVE data_changed={} serial {} -> {} request_returned_within_4s={} elapsed_ms={}",
        outcome.0, serial, outcome.1, outcome.2, started.elapsed().as_millis()
    );
    assert!(outcome.0 && outcome.1 != serial, "test setup: the update must change the version");
    assert!(outcome.2, "notify request still waiting although the served version changed after it arrived");
}
