// Native replay for C22 (label part): every ASCII byte as a label value through the real
// LabelValue::label; the resulting sample line is parsed with a small text-format label parser.
use super::*;

/// Parses `{name="value"} 1` after the metric name per the Prometheus text exposition format;
/// returns the unescaped value or None if the line is not well-formed.
fn parse_line(line: &str) -> Option<String> {
    let rest = line.strip_prefix("routinator_x{n=\"")?;
    let mut out = String::new();
    let mut it = rest.chars();
    loop {
        match it.next()? {
            '\\' => match it.next()? {
                '\\' => out.push('\\'), '"' => out.push('"'), 'n' => out.push('\n'),
                _ => return None,
            },
            '"' => break,
            '\n' => return None,
            c => out.push(c),
        }
    }
    if it.as_str() == "} 1\n" { Some(out) } else { None }
}

#[test]
fn c22_native_label() {
    let mut bad = Vec::new();
    for a in 0u8..128 {
        for b in 0u8..129 {
            let v = if b == 128 { vec![a] } else { vec![a, b] };
            let s = String::from_utf8(v).unwrap();
            let mut target = Target::default();
            target.multi(Metric::new("x", "help", MetricType::Gauge)).label("n", &s).value(1);
            if parse_line(&target.buf).as_deref() != Some(s.as_str()) && !bad.contains(&a) {
                bad.push(a);
            }
        }
    }
    println!("NATIVE-FALLBACK label: first bytes of 1- and 2-byte label values that break the sample line: {:?}", bad);
    assert!(bad.is_empty(), "label values {:?} produce a malformed exposition line", bad);
}
