// Native replay for C09 (prefix-length limits): real PubPoint::add_roa on ROA content that carries both address
// families, compared with the documented rule (an origin is dropped iff the limit configured for ITS family is
// exceeded).  The content is encoded with rpki's builder and placed into the CMS envelope of rpki's public test
// object example-ripe.roa (all enclosing values use indefinite lengths; Roa::decode checks no signature).
use super::*;
use std::net::IpAddr;
use std::str::FromStr;
use rpki::dep::bcder::Mode;
use rpki::dep::bcder::encode::Values;
use rpki::repository::roa::{Roa, RoaBuilder};
use rpki::repository::tal::TalInfo;

const C09_ENVELOPE: &str = include_str!("c09_roa_envelope.hex");

fn c09_roa(addrs: &[(&str, u8)]) -> RouteOriginAttestation {
    let mut builder = RoaBuilder::new(Asn::from_u32(64500));
    for (addr, len) in addrs {
        builder.push_addr(IpAddr::from_str(addr).unwrap(), *len, None);
    }
    let content = builder.to_attestation().encode_ref().to_captured(Mode::Der);
    let content = content.as_slice();
    assert!(content.len() < 128);
    let hex: Vec<u8> = C09_ENVELOPE.bytes().filter(|c| c.is_ascii_hexdigit()).collect();
    let env: Vec<u8> = hex.chunks(2).map(|p| u8::from_str_radix(std::str::from_utf8(p).unwrap(), 16).unwrap()).collect();
    // the eContent: constructed OCTET STRING (24 80) holding one primitive OCTET STRING (04 len ...) and 00 00
    let start = env.windows(3).position(|w| w == [0x24, 0x80, 0x04]).unwrap() + 2;
    let end = start + 2 + env[start + 1] as usize;
    let mut data = env[..start].to_vec();
    data.push(0x04);
    data.push(content.len() as u8);
    data.extend_from_slice(content);
    data.extend_from_slice(&env[end..]);
    Roa::decode(data.as_slice(), false).unwrap().content().clone()
}

#[test]
fn c09_native_limits_per_family() {
    let now = Time::now();
    let info = Arc::new(PublishInfo {
        tal: TalInfo::from_name("c09".into()).into_arc(),
        uri: None,
        roa_validity: Validity::new(now, now),
        chain_validity: Validity::new(now, now),
        point_stale: now,
    });
    let sets: [&[(&str, u8)]; 4] = [
        &[("192.0.2.0", 24), ("198.51.100.0", 25), ("10.0.0.0", 8), ("2001:db8::", 32), ("2001:db8:1::", 48), ("2001:db8:2::", 49)],
        &[("2001:db8::", 32), ("2001:db8:2::", 49), ("203.0.113.128", 25)],
        &[("192.0.2.0", 24), ("198.51.100.0", 25)],
        &[("2001:db8::", 32), ("2001:db8:2:8000::", 49)],
    ];
    let limits = [None, Some(0u8), Some(8), Some(24), Some(25), Some(32), Some(48), Some(49), Some(128)];
    let mut bad = Vec::new();
    for addrs in sets {
        let roa = c09_roa(addrs);
        assert_eq!(roa.iter_origins().count(), addrs.len(), "fixture: the ROA does not carry all prefixes");
        for v4 in limits {
            for v6 in limits {
                let mut point = PubPoint::new(now, 0);
                point.add_roa(roa.clone(), info.clone(), v4, v6);
                let mut got: Vec<String> = point.origins.iter().map(|i| format!("{}/{}", i.origin.prefix.addr(), i.origin.prefix.prefix_len())).collect();
                got.sort();
                let mut want: Vec<String> = addrs.iter().filter(|(a, l)| {
                    let lim = if a.contains(':') { v6 } else { v4 };
                    match lim { Some(lim) => *l <= lim, None => true }
                }).map(|(a, l)| format!("{}/{}", IpAddr::from_str(a).unwrap(), l)).collect();
                want.sort();
                if got != want && bad.len() < 6 {
                    bad.push(format!("limits v4={:?} v6={:?} ROA {:?}: served {:?}, documented {:?}", v4, v6, addrs, got, want));
                }
            }
        }
    }
    assert!(bad.is_empty(), "prefix-length limits are not applied per address family: {:#?}", bad);
}
