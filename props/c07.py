"""C07 Validation terminates on deep or cyclic CA hierarchies (M engine, bit-vector depth arithmetic)."""
import re

import z3

import mir
import mprop
from gating import check_gates, is_ok, ok_some, must, disc_of


def run(res, tier):
    E = mprop.engine(res)
    res.extra.setdefault("source_files_sha256", {}).update(mprop.source_hashes(["src/engine.rs"]))
    fields = mir.struct_fields("CaCert", "src/engine.rs")
    i_len = fields.index("chain_len")
    i_parent = fields.index("parent")
    n_total = 0

    # ---- CaCert::chain: depth is a strictly increasing, bounded measure -------------------------
    body = E.prog.find("src/engine.rs", "CaCert", "chain")
    res.functions.append("routinator::engine::CaCert::chain with CaCert::new inlined (MIR, %d blocks)" % len(body.blocks))
    issuer = mir.Opq("&CaCert", "issuer")
    depth = z3.BitVec("issuer_chain_len", 64)
    maxd = z3.BitVec("max_depth", 64)

    def m_deref(E_, st, frame, callee, argvals, dest_ty):
        return {(): issuer}

    def pre(E_, st, frame):
        st.mem[(("o", issuer.id), "deref", ("f", i_len))] = depth

    paths = E.explore(body, max_visits=2, nomut=[r"."], pre=pre, arg_values={"_4": {(): maxd}},
                      inline=[r"CaCert::new$"],
                      models={r"^<Arc<CaCert> as Deref>::deref$|^<Arc<engine::CaCert> as Deref>::deref$": m_deref})
    n_ok = n_err = 0
    for i, p in enumerate(paths):
        if p.kind != "return":
            continue
        d = p.ret.get(("disc",))
        if d is None:
            res.inconclusive.append("chain path %d: no discriminant" % i)
            continue
        within = z3.And(depth != z3.BitVecVal(2**64 - 1, 64), z3.ULE(depth + 1, maxd))
        if E.feasible(p.cond, d == 0):
            n_ok += 1
            m = E.model(p.cond, z3.And(d == 0, z3.Not(within)))
            if m is not None:
                fn = mprop.write_cex(res, "chain_accepts_too_deep_%d" % i, p, E,
                                     "CaCert::chain returns Ok for issuer depth %s with max depth %s" % (m.eval(depth, True), m.eval(maxd, True)), m)
                res.violation("mir:chain-accepts-beyond-max-depth",
                              "a CA deeper than max-ca-depth is accepted (issuer depth %s, max %s)" % (m.eval(depth, True), m.eval(maxd, True)), fn)
            # the child's depth is exactly parent + 1
            arc = [e for e in p.events if e.kind == "call" and re.search(r"Arc::new$", e.name)]
            if not arc:
                res.inconclusive.append("chain path %d: CaCert value not found" % i)
            else:
                cl = arc[-1].args[0].get((("f", i_len),))
                if cl is None or not mir.is_z(cl):
                    res.inconclusive.append("chain path %d: chain_len of the new CaCert not symbolic" % i)
                else:
                    m = E.model(p.cond, z3.And(d == 0, cl != depth + 1))
                    if m is not None:
                        fn = mprop.write_cex(res, "chain_len_not_incremented_%d" % i, p, E,
                                             "child chain_len %s for issuer chain_len %s" % (m.eval(cl, True), m.eval(depth, True)), m)
                        res.violation("mir:chain-len-not-parent-plus-one",
                                      "the child's depth is not its issuer's depth + 1 (the depth measure does not grow)", fn)
                par = arc[-1].args[0].get((("f", i_parent), "disc"))
                if par is None or not must(E, p, par == 1):
                    fn = mprop.write_cex(res, "chain_no_parent_%d" % i, p, E, "child CaCert created without a parent link")
                    res.violation("mir:chain-parent-missing", "chained CA has no parent link (loop detection would not see its ancestors)", fn)
        else:
            n_err += 1
            uris_missing = p.has(r"ca_repository$|rpki_manifest$")
            if not uris_missing:
                m = E.model(p.cond, within)
                if m is not None:
                    fn = mprop.write_cex(res, "chain_rejects_within_depth_%d" % i, p, E,
                                         "CaCert::chain fails although issuer depth %s + 1 <= max depth %s" % (m.eval(depth, True), m.eval(maxd, True)), m)
                    res.violation("mir:chain-rejects-within-max-depth",
                                  "a CA within max-ca-depth is rejected (issuer depth %s, max %s)" % (m.eval(depth, True), m.eval(maxd, True)), fn)
    if n_ok == 0 or n_err == 0:
        res.inconclusive.append("vacuity: chain ok paths=%d err paths=%d" % (n_ok, n_err))
    n_total += n_ok + n_err
    res.samples.append({"chain_paths": len(paths), "ok": n_ok, "err": n_err})

    # ---- _check_loop: Err iff an ancestor (or self) carries the key --------------------------------
    body = E.prog.find("src/engine.rs", "CaCert", "_check_loop")
    res.functions.append("routinator::engine::CaCert::_check_loop, recursion inlined to 3 ancestors (MIR)")
    E.max_depth = 4
    paths = E.explore(body, max_visits=2, nomut=[r"."], inline=[r"CaCert::_check_loop$"],
                      pure=[r"subject_key_identifier$"])
    n_loop = 0
    for i, p in enumerate(paths):
        if p.kind != "return":
            continue
        d = p.ret.get(("disc",))
        if d is None:
            continue
        n_loop += 1
        levels = sum(1 for e in p.events if e.kind == "enter") + 1
        keyids = [e for e in p.events if re.search(r"subject_key_identifier$", e.name)]
        # an ord-equality in the path condition corresponds to each comparison
        eqs = [c for c in p.cond if "ord_" in str(c)]
        truncated = any(e.kind == "call" and re.search(r"CaCert::_check_loop$", e.name) for e in p.events)
        if truncated:
            continue        # recursion deeper than the inlining bound: outcome is the opaque call's
        if must(E, p, d == 0):
            # Ok: every level compared and unequal, chain ended at a root
            if len(keyids) < levels:
                fn = mprop.write_cex(res, "loop_level_skipped_%d" % i, p, E, "an ancestor's key is not compared")
                res.violation("mir:check-loop-skips-ancestor", "_check_loop accepts without comparing every ancestor's key", fn)
            # Ok is only justified when the walk reached a root: every visited level but the last had a parent
            pd = [v for k, v in p.mem.items() if len(k) >= 2 and k[-1] == "disc" and k[-2] == ("f", i_parent) and mir.is_z(v)]
            n_some = sum(1 for v in pd if must(E, p, v == 1))
            n_none = sum(1 for v in pd if must(E, p, v == 0))
            if n_some != levels - 1 or n_none != 1:
                fn = mprop.write_cex(res, "loop_stops_early_%d" % i, p, E,
                                     "Ok after visiting %d level(s) although %d parent link(s) were seen present and %d absent"
                                     % (levels, n_some, n_none))
                res.violation("mir:check-loop-stops-before-root",
                              "_check_loop returns Ok without walking the chain up to the trust anchor", fn)
            for c in eqs:
                s = z3.simplify(c)
                if not z3.is_not(s) and not (z3.is_distinct(s)):
                    fn = mprop.write_cex(res, "loop_equal_but_ok_%d" % i, p, E, "key equal to an ancestor's but Ok returned")
                    res.violation("mir:check-loop-accepts-repeated-key", "_check_loop returns Ok although an ancestor has the same key", fn)
        elif must(E, p, d == 1):
            last = z3.simplify(eqs[-1]) if eqs else None
            if last is None or z3.is_not(last):
                fn = mprop.write_cex(res, "loop_err_without_match_%d" % i, p, E, "Err returned although no ancestor key matched")
                res.violation("mir:check-loop-rejects-without-match", "_check_loop reports a loop although no key on the chain matches", fn)
        res.samples.append({"check_loop_levels": levels, "result": "Ok" if must(E, p, d == 0) else "Err"})
    E.max_depth = 6
    if n_loop < 4:
        res.inconclusive.append("vacuity: _check_loop paths=%d" % n_loop)
    n_total += n_loop

    # ---- a child CA task is created only after both checks -------------------------------------------
    body = E.prog.find("src/engine.rs", "PubPoint", "process_ca_cer")
    paths = E.explore(body, max_visits=2, nomut=[r"."])
    res.functions.append("routinator::engine::PubPoint::process_ca_cer (MIR)")
    n_total += check_gates(res, E, paths, "process_ca_cer", r"Vec::push$", [
        (r"CaCert::check_loop$", is_ok, "no key loop on the chain"),
        (r"CaCert::chain$", is_ok, "chain depth within max-ca-depth"),
        (r"ProcessPubPoint::process_ca$", ok_some, "processor accepted the child CA"),
    ], key_prefix="mir:depth-gate")
    res.distinct += n_total
    res.bounds += [
        "CaCert::chain: issuer depth and max depth are arbitrary 64-bit values (overflow case included)",
        "_check_loop: chains of up to 3 ancestors above the certificate (recursion inlined 3 deep); deeper chains "
        "repeat the same frame",
    ]
    res.assumptions += [
        "termination itself is argued, not model-checked: every CA task carries depth = parent depth + 1 <= "
        "max-ca-depth (checked), so no task chain is longer than max-ca-depth; each publication point lists "
        "finitely many objects; termination of rpki-rs decoders is outside the claim",
        "key identifiers compare by equality over opaque values",
    ]
    res.rule = ("one case = one feasible path of chain / _check_loop / a push site in process_ca_cer; "
                "evaluations = z3 queries (64-bit bit-vector arithmetic for the depth)")
    mprop.finish_engine(res, E)
