"""C07 Validation terminates on deep or cyclic CA hierarchies (M engine, bit-vector depth arithmetic)."""
import re

import z3

import mir
import mprop
from gating import check_gates, is_ok, ok_some, must, disc_of


def run(res, tier):
    E = mprop.engine(res)
    res.extra.setdefault("source_files_sha256", {}).update(mprop.source_hashes(["src/engine.rs"]))
    fields = mir.struct_fields("CaCert", "src/engine.rs")
    i_len = fields.index("chain_len")
    i_parent = fields.index("parent")
    n_total = 0

    # ---- CaCert::chain: depth is a strictly increasing, bounded measure -------------------------
    body = E.prog.find("src/engine.rs", "CaCert", "chain")
    res.functions.append("routinator::engine::CaCert::chain with CaCert::new inlined (MIR, %d blocks)" % len(body.blocks))
    issuer = mir.Opq("&CaCert", "issuer")
    depth = z3.BitVec("issuer_chain_len", 64)
    maxd = z3.BitVec("max_depth", 64)

    def m_deref(E_, st, frame, callee, argvals, dest_ty):
        return {(): issuer}

    def pre(E_, st, frame):
        st.mem[(("o", issuer.id), "deref", ("f", i_len))] = depth

    paths = E.explore(body, max_visits=2, nomut=[r"."], pre=pre, arg_values={"_4": {(): maxd}},
                      inline=[r"CaCert::new$"],
                      models={r"^<Arc<CaCert> as Deref>::deref$|^<Arc<engine::CaCert> as Deref>::deref$": m_deref})
    n_ok = n_err = 0
    for i, p in enumerate(paths):
        if p.kind != "return":
            continue
        d = p.ret.get(("disc",))
        if d is None:
            res.inconclusive.append("chain path %d: no discriminant" % i)
            continue
        within = z3.And(depth != z3.BitVecVal(2**64 - 1, 64), z3.ULE(depth + 1, maxd))
        if E.feasible(p.cond, d == 0):
            n_ok += 1
            m = E.model(p.cond, z3.And(d == 0, z3.Not(within)))
            if m is not None:
                fn = mprop.write_cex(res, "chain_accepts_too_deep_%d" % i, p, E,
                                     "CaCert::chain returns Ok for issuer depth %s with max depth %s" % (m.eval(depth, True), m.eval(maxd, True)), m)
                res.violation("mir:chain-accepts-beyond-max-depth",
                              "a CA deeper than max-ca-depth is accepted (issuer depth %s, max %s)" % (m.eval(depth, True), m.eval(maxd, True)), fn)
            # the child's depth is exactly parent + 1
            arc = [e for e in p.events if e.kind == "call" and re.search(r"Arc::new$", e.name)]
            if not arc:
                res.inconclusive.append("chain path %d: CaCert value not found" % i)
            else:
                cl = arc[-1].args[0].get((("f", i_len),))
                if cl is None or not mir.is_z(cl):
                    res.inconclusive.append("chain path %d: chain_len of the new CaCert not symbolic" % i)
                else:
                    m = E.model(p.cond, z3.And(d == 0, cl != depth + 1))
                    if m is not None:
                        fn = mprop.write_cex(res, "chain_len_not_incremented_%d" % i, p, E,
                                             "child chain_len %s for issuer chain_len %s" % (m.eval(cl, True), m.eval(depth, True)), m)
                        res.violation("mir:chain-len-not-parent-plus-one",
                                      "the child's depth is not its issuer's depth + 1 (the depth measure does not grow)", fn)
                par = arc[-1].args[0].get((("f", i_parent), "disc"))
                if par is None or not must(E, p, par == 1):
                    fn = mprop.write_cex(res, "chain_no_parent_%d" % i, p, E, "child CaCert created without a parent link")
                    res.violation("mir:chain-parent-missing", "chained CA has no parent link (loop detection would not see its ancestors)", fn)
        else:
            n_err += 1
            uris_missing = p.has(r"ca_repository$|rpki_manifest$")
            if not uris_missing:
                m = E.model(p.cond, within)
                if m is not None:
                    fn = mprop.write_cex(res, "chain_rejects_within_depth_%d" % i, p, E,
                                         "CaCert::chain fails although issuer depth %s + 1 <= max depth %s" % (m.eval(depth, True), m.eval(maxd, True)), m)
                    res.violation("mir:chain-rejects-within-max-depth",
                                  "a CA within max-ca-depth is rejected (issuer depth %s, max %s)" % (m.eval(depth, True), m.eval(maxd, True)), fn)
    if n_ok == 0 or n_err == 0:
        res.inconclusive.append("vacuity: chain ok paths=%d err paths=%d" % (n_ok, n_err))
    n_total += n_ok + n_err
    res.samples.append({"chain_paths": len(paths), "ok": n_ok, "err": n_err})

    # ---- CaCert::root: the depth measure starts at 0 (a trust anchor is 0 CAs away from itself), no parent ----------
    rbody = E.prog.find("src/engine.rs", "CaCert", "root")
    res.functions.append("routinator::engine::CaCert::root with CaCert::new inlined (MIR)")
    n_root = 0
    for i, p in enumerate(E.explore(rbody, max_visits=2, nomut=[r"."], inline=[r"CaCert::new$"])):
        if p.kind != "return":
            continue
        arc = [e for e in p.events if e.kind == "call" and re.search(r"Arc::new$", e.name)]
        if not arc:
            continue
        n_root += 1
        cl = arc[-1].args[0].get((("f", i_len),))
        zero = cl is not None and ((mir.is_z(cl) and must(E, p, cl == 0)) or (isinstance(cl, int) and cl == 0))
        if not zero:
            fn = mprop.write_cex(res, "root_chain_len_%d" % i, p, E, "the trust anchor's chain_len is %r, not 0" % (cl,))
            res.violation("mir:root-depth-not-zero", "the trust anchor starts the depth count at %r instead of 0: CAs exactly max-ca-depth "
                          "away from their trust anchor are refused (or one level too many is accepted)" % (cl,), fn)
        par = arc[-1].args[0].get((("f", i_parent), "disc"))
        if par is None or not must(E, p, par == 0):
            fn = mprop.write_cex(res, "root_has_parent_%d" % i, p, E, "the trust anchor CaCert is created with a parent link")
            res.violation("mir:root-has-parent", "the trust anchor has a parent link", fn)
    if not n_root:
        res.inconclusive.append("vacuity: CaCert::root creates no CaCert on the explored paths")
    n_total += n_root

    # ---- check_loop: Err iff the issuing CA or one of its ancestors carries the key ---------------------
    # (whatever the shape: recursive helper or loop; the chain is laid out in memory, Arc is transparent)
    DEPTH = 3 if tier == "quick" else 6
    body = E.prog.find("src/engine.rs", "CaCert", "check_loop")
    i_cert = fields.index("cert")
    helpers = sorted(set(re.sub(r".*::", "", nm) for nm in E.prog.bodies
                         if re.search(r"engine::<impl at src/engine\.rs:[^>]*>::_\w*check_loop\w*$", nm)))
    res.functions.append("routinator::engine::CaCert::check_loop%s, chain of up to %d ancestors above the issuing CA (MIR)"
                         % (" with " + ", ".join(helpers) + " inlined" if helpers else "", DEPTH))
    step = (("f", i_parent), ("v", "Some"), ("f", 0))
    has_parent = [z3.Int("has_parent_%d" % j) for j in range(DEPTH + 1)]
    key = [z3.Int("key_level_%d" % j) for j in range(DEPTH + 1)]
    child_key = z3.Int("key_child")
    for dj in has_parent:
        E.solver.add(z3.Or(dj == 0, dj == 1))
    E.solver.add(has_parent[DEPTH] == 0)          # bound: the trust anchor is at most DEPTH levels up

    def pre_loop(E_, st, frame):
        loc = ("CA",)
        for j in range(DEPTH + 1):
            st.mem[loc + (("f", i_parent), "disc")] = has_parent[j]
            loc = loc + step

    def level_of(loc):
        return sum(1 for x in loc if x == ("f", i_parent))

    def m_ident(E_, st, frame, callee, argvals, dest_ty):
        return dict(argvals[0])

    def m_ski(E_, st, frame, callee, argvals, dest_ty):
        r = argvals[0].get(())
        if isinstance(r, mir.Ref) and r.loc and r.loc[0] == "CA":
            j = level_of(r.loc)
            return {(): key[j]} if j <= DEPTH else NotImplemented
        if isinstance(r, mir.Opq):
            return {(): child_key}
        return NotImplemented

    E.max_depth = DEPTH + 4
    paths = E.explore(body, max_visits=DEPTH + 3, nomut=[r"."], pre=pre_loop,
                      arg_values={"_1": {(): mir.Ref(("CA",))}},
                      inline=[r"CaCert::_\w*check_loop\w*$"],
                      models={r"^<(ResourceCert|Cert|Arc<CaCert>|Arc<engine::CaCert>) as Deref>::deref$": m_ident,
                              r"subject_key_identifier$": m_ski})
    E.max_depth = 6
    on_chain = []
    reach = z3.BoolVal(True)
    for j in range(DEPTH + 1):
        on_chain.append(z3.And(reach, key[j] == child_key))
        reach = z3.And(reach, has_parent[j] == 1)
    spec_err = z3.Or(on_chain)
    n_loop = 0
    for i, p in enumerate(paths):
        if p.kind == "bound" or any(e.kind == "call" and re.search(r"check_loop", e.name) for e in p.events):
            if E.feasible(p.cond):
                res.inconclusive.append("check_loop: a feasible path leaves the %d-ancestor bound (path %d)" % (DEPTH, i))
            continue
        if p.kind != "return":
            continue
        d = p.ret.get(("disc",))
        if d is None:
            res.inconclusive.append("check_loop path %d: no result discriminant" % i)
            continue
        n_loop += 1
        m = E.model(p.cond, (d == 1) != spec_err)
        if m is not None:
            hp = [m.eval(x, True).as_long() for x in has_parent]
            L = hp.index(0)
            ks = [m.eval(key[j], True).as_long() for j in range(L + 1)]
            ck = m.eval(child_key, True).as_long()
            got = "Err" if m.eval(d, True).as_long() == 1 else "Ok"
            desc = ("issuing CA with %d ancestor(s); key ids from the issuing CA up to the trust anchor: %s; the child "
                    "certificate's key id: %d; check_loop returns %s" % (L, ks, ck, got))
            kind = "accepts-repeated-key" if got == "Ok" else "rejects-without-match"
            fn = mprop.write_cex(res, "check_loop_%s_%d" % (kind.replace("-", "_"), i), p, E, desc, m)
            if not any(v["key"] == "mir:check-loop-" + kind for v in res.violations):
                res.violation("mir:check-loop-" + kind,
                              ("check_loop accepts a certificate whose key already appears on its chain" if got == "Ok" else
                               "check_loop reports a loop although no key on the chain matches") + ": " + desc, fn)
        res.samples.append({"check_loop_path": i, "blocks": len(p.trace)})
    if n_loop < 4:
        res.inconclusive.append("vacuity: check_loop paths=%d" % n_loop)
    n_total += n_loop

    # ---- a child CA task is created only after both checks -------------------------------------------
    body = E.prog.find("src/engine.rs", "PubPoint", "process_ca_cer")
    paths = E.explore(body, max_visits=2, nomut=[r"."])
    res.functions.append("routinator::engine::PubPoint::process_ca_cer (MIR)")
    n_total += check_gates(res, E, paths, "process_ca_cer", r"Vec::push$", [
        (r"CaCert::check_loop$", is_ok, "no key loop on the chain"),
        (r"CaCert::chain$", is_ok, "chain depth within max-ca-depth"),
        (r"ProcessPubPoint::process_ca$", ok_some, "processor accepted the child CA"),
    ], key_prefix="mir:depth-gate")
    # ... and a certificate that is refused for its depth or for repeating a key is only dropped: the publication
    # point (and the run) go on.  An Err out of process_ca_cer becomes a fatal run failure.
    from gating import is_err
    for i, p in enumerate(paths):
        if p.kind != "return":
            continue
        refused = [e for e in p.events if e.kind == "call" and re.search(r"CaCert::(chain|check_loop)$", e.name)
                   and is_err(E, p, e) is not None and must(E, p, is_err(E, p, e))]
        if not refused:
            continue
        n_total += 1
        d = p.ret.get(("disc",))
        if d is None or E.feasible(p.cond, d == 1):
            what = refused[-1].name.split("::")[-1]
            if not any(v["key"] == "mir:refused-ca-aborts-run:" + what for v in res.violations):
                fn = mprop.write_cex(res, "refused_ca_aborts_%s_%d" % (what, i), p, E,
                                     "process_ca_cer returns Err after CaCert::%s refused the certificate: the whole validation "
                                     "run fails instead of the certificate being dropped" % what)
                res.violation("mir:refused-ca-aborts-run:" + what,
                              "a CA certificate beyond max-ca-depth (or repeating a key on its chain) makes process_ca_cer return "
                              "Err (fatal run failure) instead of being dropped (CaCert::%s failed)" % what, fn)
    res.distinct += n_total
    res.bounds += [
        "CaCert::chain: issuer depth and max depth are arbitrary 64-bit values (overflow case included)",
        "check_loop: the issuing CA with 0..3 (thorough: 0..6) ancestors above it (parent links and all key identifiers symbolic): the "
        "result is Err exactly when the child's key identifier equals that of the issuing CA or one of its ancestors "
        "up to and including the trust anchor; deeper chains repeat the same step",
    ]
    res.assumptions += [
        "termination itself is argued, not model-checked: every CA task carries depth = parent depth + 1 <= "
        "max-ca-depth (checked), so no task chain is longer than max-ca-depth; each publication point lists "
        "finitely many objects; termination of rpki-rs decoders is outside the claim",
        "key identifiers compare by equality over opaque values",
    ]
    res.rule = ("one case = one feasible path of chain / _check_loop / a push site in process_ca_cer; "
                "evaluations = z3 queries (64-bit bit-vector arithmetic for the depth)")
    import argslice
    argslice.check_cli_number(res, E, mprop, "max_ca_depth", "--max-ca-depth", False, "CA chains are then cut at another depth than the operator gave")
    mprop.finish_engine(res, E)
