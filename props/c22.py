"""C22 Status and metrics documents are always well-formed.

M engine: one inductive step of the two string escapers' loops over an arbitrary remaining string (z3), a model
of format_args templates for what they write, and a routing check that every string sink goes through them.
"""
import ast
import re

import z3

import mir
import mprop

JSON_F = "src/utils/json.rs"
MET_F = "src/http/metrics.rs"


# ---------------------------------------------------------------------------------------------
# format_args! templates (core::fmt::Arguments::new, see library/core/src/fmt/mod.rs of the MIR toolchain)

def decode_template(raw):
    """bytes -> list of ("lit", bytes) | ("arg", index, flags|None, width|None, precision|None)."""
    out = []
    i = 0
    nxt = 0
    while True:
        n = raw[i]
        i += 1
        if n == 0:
            break
        if n < 0x80:
            out.append(("lit", raw[i:i + n]))
            i += n
        elif n == 0x80:
            ln = int.from_bytes(raw[i:i + 2], "little")
            out.append(("lit", raw[i + 2:i + 2 + ln]))
            i += 2 + ln
        elif n >= 0xC0:
            flags = width = prec = None
            idx = nxt
            if n & 1:
                flags = int.from_bytes(raw[i:i + 4], "little")
                i += 4
            if n & 2:
                width = int.from_bytes(raw[i:i + 2], "little")
                i += 2
            if n & 4:
                prec = int.from_bytes(raw[i:i + 2], "little")
                i += 2
            if n & 8:
                idx = int.from_bytes(raw[i:i + 2], "little")
                i += 2
            if n & 0x30:
                raise ValueError("indirect width / precision")
            out.append(("arg", idx, flags, width, prec))
            nxt = idx + 1
        else:
            raise ValueError("template byte 0x%02x" % n)
    return out


def rust_bytes(lit):
    """Rust (byte) string literal as printed in MIR -> bytes."""
    s = lit.strip()
    if s.startswith("const "):
        s = s[6:]
    is_b = s.startswith("b")
    body = s[2:-1] if is_b else s[1:-1]
    body = re.sub(r"\\u\{([0-9a-fA-F]+)\}", lambda m: chr(int(m.group(1), 16)), body)
    if is_b:
        return ast.literal_eval('b"' + body + '"')
    return ast.literal_eval('"' + body + '"').encode("utf-8")


ZERO_PAD = 1 << 24


def hexdigit(nib, upper=False):
    return z3.If(z3.ULT(nib, 10), nib + 48, nib + (55 if upper else 87))


def render_arg(kind, ty, val, flags, width, prec):
    """Symbolic bytes written for one placeholder: list of (condition, [BV8...]) alternatives, or None."""
    v = val.get(())
    if prec is not None or not mir.is_z(v):
        return None
    if kind == "display" and ty == "char" and v.size() == 32 and width is None:
        return [(z3.ULT(v, 128), [z3.Extract(7, 0, v)])]          # non-ASCII is excluded by the caller's obligation
    if kind in ("lower_hex", "upper_hex") and ty == "u8" and v.size() == 8:
        up = kind == "upper_hex"
        hi, lo = z3.LShR(v, 4), v & 15
        if width is None or not (flags or 0) & ZERO_PAD:
            if width is not None and width > 1:
                return None
            return [(z3.ULT(v, 16), [hexdigit(lo, up)]), (z3.UGE(v, 16), [hexdigit(hi, up), hexdigit(lo, up)])]
        if (flags or 0) & (1 << 23):       # alternate: 0x prefix
            return None
        pad = [z3.BitVecVal(48, 8)] * max(0, width - 2)
        if width >= 2:
            return [(z3.BoolVal(True), pad + [hexdigit(hi, up), hexdigit(lo, up)])]
        return [(z3.ULT(v, 16), [hexdigit(lo, up)]), (z3.UGE(v, 16), [hexdigit(hi, up), hexdigit(lo, up)])]
    if kind == "display" and ty == "u8" and v.size() == 8:
        d2, d1, d0 = z3.UDiv(v, 100) + 48, z3.URem(z3.UDiv(v, 10), 10) + 48, z3.URem(v, 10) + 48
        if width is not None and width >= 3 and (flags or 0) & ZERO_PAD:
            return [(z3.BoolVal(True), [z3.BitVecVal(48, 8)] * (width - 3) + [d2, d1, d0])]
        if width is None or width <= 1:
            return [(z3.ULT(v, 10), [d0]), (z3.And(z3.UGE(v, 10), z3.ULT(v, 100)), [d1, d0]), (z3.UGE(v, 100), [d2, d1, d0])]
    return None


# ---------------------------------------------------------------------------------------------

class Escaper:
    def __init__(self, name, file, fn, needs_escape, valid_chunk):
        self.name, self.file, self.fn = name, file, fn
        self.needs_escape = needs_escape      # BV8 -> Bool : must not appear raw
        self.valid_chunk = valid_chunk        # (BV8 c, [BV8] chunk) -> Bool : chunk is a right encoding of c


def B(ch):
    return z3.BitVecVal(ord(ch), 8)


def json_needs_escape(c):
    return z3.Or(z3.ULT(c, 0x20), c == B('"'), c == B("\\"))


def hexval(b):
    return z3.If(z3.And(z3.UGE(b, 48), z3.ULE(b, 57)), b - 48,
                 z3.If(z3.And(z3.UGE(b, 97), z3.ULE(b, 102)), b - 87,
                       z3.If(z3.And(z3.UGE(b, 65), z3.ULE(b, 70)), b - 55, z3.BitVecVal(255, 8))))


def json_valid_chunk(c, ch):
    if len(ch) == 1:
        return z3.And(ch[0] == c, z3.Not(json_needs_escape(c)))
    if len(ch) == 2:
        short = [(B('"'), 34), (B("\\"), 92), (B("/"), 47), (B("n"), 10), (B("r"), 13), (B("t"), 9), (B("b"), 8), (B("f"), 12)]
        return z3.And(ch[0] == B("\\"), z3.Or([z3.And(ch[1] == e, c == v) for e, v in short]))
    if len(ch) == 6:
        hs = [hexval(x) for x in ch[2:]]
        return z3.And(ch[0] == B("\\"), ch[1] == B("u"), hs[0] == 0, hs[1] == 0, z3.ULE(hs[2], 15), z3.ULE(hs[3], 15),
                      (hs[2] << 4) | hs[3] == c)
    return z3.BoolVal(False)


def label_needs_escape(c):
    return z3.Or(c == B("\\"), c == B('"'), c == B("\n"))


def label_valid_chunk(c, ch):
    if len(ch) == 1:
        return z3.And(ch[0] == c, z3.Not(label_needs_escape(c)))
    if len(ch) == 2:
        return z3.And(ch[0] == B("\\"), z3.Or(z3.And(c == B("\\"), ch[1] == B("\\")), z3.And(c == B('"'), ch[1] == B('"')),
                                              z3.And(c == B("\n"), ch[1] == B("n"))))
    return z3.BoolVal(False)


def closure_predicate(res, prog, body):
    """char -> Bool for a `|ch: char| -> bool` closure, by running its MIR on a symbolic char."""
    c0 = z3.BitVec("pat_char", 32)
    E2 = mir.Engine(prog, res)
    paths = E2.explore(body, max_visits=2, arg_values={"_2": {(): c0}})
    alts = []
    for p in paths:
        if p.kind != "return":
            raise mir.Inconclusive("pattern closure has a non-returning path")
        r = p.ret.get(())
        if not mir.is_z(r):
            raise mir.Inconclusive("pattern closure result not modelled")
        alts.append(z3.And(list(p.cond) + [r]))
    pred = z3.simplify(z3.Or(alts))
    return lambda c: z3.substitute(pred, (c0, c))


def find_write_str(E, file, outer_fn):
    """The fmt::Write::write_str body of the local writer type inside `outer_fn`, and that impl's methods."""
    hits = [(n, bs) for n, bs in E.prog.bodies.items()
            if re.search(r"(^|::)%s::<impl at %s:[^>]*>::write_str$" % (outer_fn, re.escape(file)), n)]
    if len(hits) != 1:
        return None, []
    name = hits[0][0]
    impl = name[:-len("::write_str")]
    methods = sorted(set(n[len(impl) + 2:].split("::")[0] for n in E.prog.bodies if n.startswith(impl + "::")))
    return hits[0][1][0].parse(), methods


def check_escaper(res, esc):
    E = mprop.engine(res)
    body, methods = find_write_str(E, esc.file, esc.fn)
    if body is None:
        # the escaper is not the local fmt::Write adapter the inductive step is written for: decide by the
        # native replay (every 1- and 2-byte ASCII string through the real function, output parsed)
        ok = native(res, esc)
        note = [n for n in res.notes if n.startswith("native replay")][-1:] or [""]
        if ok:
            fn = mprop.write_cex(res, "%s_native" % esc.name, mir.Path(mir.State(), {}, "static"), E,
                                 "%s has no escaping adapter of the expected shape; %s" % (esc.name, note[0]))
            res.violation("native:%s:malformed-output" % esc.name, "%s produces output that does not parse back to the value (%s)" % (esc.name, note[0]), fn)
        else:
            res.inconclusive.append("%s: no single fmt::Write::write_str inside %s%s" % (esc.name, esc.fn, "; native replay passed" if ok is False else ""))
        return
    res.functions.append("%s: %s (MIR, %d blocks)" % (esc.name, body.name, len(body.blocks)))
    bad = {}

    def viol(key, what, p, mdl=None, extra=None):
        if key in bad:
            return
        bad[key] = True
        ok = native(res, esc)
        fn = mprop.write_cex(res, "%s_%s" % (esc.name, re.sub(r"\W+", "_", key)), p, E, what, mdl, extra)
        if ok is False:
            res.inconclusive.append("%s: %s - not reproduced by the native single-byte replay" % (esc.name, what))
        else:
            res.violation("mir:%s:%s" % (esc.name, key), what + ("" if ok else " [native replay unavailable]"), fn)

    if methods != ["write_str"]:
        extra_m = [m for m in methods if m != "write_str" and not m.startswith("{closure")]
        if extra_m:
            viol("extra-methods", "%s's writer overrides %s besides write_str: output can bypass the escaping loop" % (esc.name, extra_m),
                 mir.Path(mir.State(), {}, "static"))

    s0 = z3.BitVec("str_start", 64)
    nbv = z3.BitVec("str_len", 64)
    E.solver.add(z3.ULT(s0, 1 << 40), z3.ULT(nbv, 1 << 40))
    finds = []
    cl = [bs[0] for n, bs in E.prog.bodies.items() if n.startswith(body.name + "::{closure#")]
    cl_pred = {}
    n_ev = [0]

    def strval(s, n):
        return {("s",): s, ("nbv",): n}

    def m_find(E_, st, frame, callee, argvals, dest_ty):
        cur, pat = argvals[0], argvals[1]
        if ("nbv",) not in cur:
            return NotImplemented
        k = len(finds)
        c = z3.BitVec("found_char%d" % k, 32)
        idx = z3.BitVec("found_idx%d" % k, 64)
        d = z3.Int("found%d" % k)
        elems = [v for kk, v in sorted(pat.items(), key=lambda kv: str(kv[0])) if kk and kk[0][0] == "i" and mir.is_z(v)]
        clv = pat.get(("closure",))
        if elems:
            pred = lambda x, elems=elems: z3.Or([x == e for e in elems])
        elif "{closure@" in callee and len(cl) == 1:
            if "p" not in cl_pred:
                cl_pred["p"] = closure_predicate(res, E_.prog, cl[0].parse())
            pred = cl_pred["p"]
        else:
            return NotImplemented
        finds.append({"c": c, "idx": idx, "d": d, "pred": pred, "cur": cur})
        st.cond.append(z3.Or(d == 0, d == 1))
        st.cond.append(z3.Implies(d == 1, z3.And(z3.ULT(idx, cur[("nbv",)]), pred(c), z3.ULT(c, 128))))
        st.mem[("STRBYTES", ("i", "?" + str(idx)))] = z3.Extract(7, 0, c)
        return {("disc",): d, (("v", "Some"), ("f", 0)): idx}

    def m_index_to(E_, st, frame, callee, argvals, dest_ty):
        cur, end = argvals[0], argvals[1].get((("f", 0),))
        if ("nbv",) not in cur or not mir.is_z(end):
            return NotImplemented
        st.cond.append(z3.ULE(end, cur[("nbv",)]))        # otherwise the real code panics
        return strval(cur[("s",)], end)

    def m_index_from(E_, st, frame, callee, argvals, dest_ty):
        cur, start = argvals[0], argvals[1].get((("f", 0),))
        if ("nbv",) not in cur or not mir.is_z(start):
            return NotImplemented
        st.cond.append(z3.ULE(start, cur[("nbv",)]))
        return strval(cur[("s",)] + start, cur[("nbv",)] - start)

    def m_as_bytes(E_, st, frame, callee, argvals, dest_ty):
        cur = argvals[0]
        if ("nbv",) not in cur:
            return NotImplemented
        out = dict(cur)
        out[()] = mir.Ref(("STRBYTES",))
        return out

    def out_event(E_, st, frame, name, val):
        where = (frame["body"].name, st.trace[-1][1] if st.trace else "")
        st.events.append(mir.Event("OUT:" + name, [val], None, where, "call"))
        n_ev[0] += 1
        d = z3.Int("write_result%d" % n_ev[0])
        st.cond.append(z3.Or(d == 0, d == 1))
        return {("disc",): d}

    def m_write_str(E_, st, frame, callee, argvals, dest_ty):
        return out_event(E_, st, frame, "write_str", argvals[1])

    def m_write_fmt(E_, st, frame, callee, argvals, dest_ty):
        return out_event(E_, st, frame, "write_fmt", argvals[1])

    def m_argument(E_, st, frame, callee, argvals, dest_ty):
        m = re.search(r"Argument::<'_>::new_(\w+)::<(.*)>$", callee.strip())
        if not m:
            return NotImplemented
        out = {("akind",): mir.Str(m.group(1)), ("aty",): mir.Str(m.group(2))}
        for k, v in E_._through_ref(st, argvals[0]).items():
            out[("aval",) + k] = v
        return out

    def m_arguments(E_, st, frame, callee, argvals, dest_ty):
        out = {("tmpl",): argvals[0].get(())}
        for k, v in E_._through_ref(st, argvals[1]).items():
            out[("args",) + k] = v
        return out

    def m_char_from(E_, st, frame, callee, argvals, dest_ty):
        v = argvals[0].get(())
        if mir.is_z(v) and v.size() == 8:
            return {(): z3.ZeroExt(24, v)}
        return NotImplemented

    def pre(E_, st, frame):
        E_.store(st, (frame["id"] + ":_2",), strval(s0, nbv))

    paths = E.explore(body, max_visits=1, pre=pre, max_paths=20000, models={
        r"^core::str::<impl str>::find::<": m_find,
        r"^<str as (std::ops::)?Index<(std::ops::)?RangeTo<usize>>>::index$": m_index_to,
        r"^<str as (std::ops::)?Index<(std::ops::)?RangeFrom<usize>>>::index$": m_index_from,
        r"^core::str::<impl str>::as_bytes$": m_as_bytes,
        r"^std::fmt::Formatter::<'_>::write_str$": m_write_str,
        r"^std::fmt::Formatter::<'_>::write_fmt$": m_write_fmt,
        r"^core::fmt::rt::Argument::<'_>::new_": m_argument,
        r"^Arguments::<'_>::new::<": m_arguments,
        r"^<char as From<u8>>::from$": m_char_from,
    })
    if len(finds) < 1:
        res.inconclusive.append("%s: the escaping loop does not search with str::find (shape not modelled)" % esc.name)
        mprop.finish_engine(res, E)
        return
    f0 = finds[0]
    c32, idx, d, pred = f0["c"], f0["idx"], f0["d"], f0["pred"]
    c8 = z3.Extract(7, 0, c32)
    n_cases = 0

    # O1: the search pattern covers every character that must not appear raw, and only single-byte characters
    x = z3.BitVec("any_char", 32)
    m1 = E.model([], z3.And(z3.ULT(x, 128), esc.needs_escape(z3.Extract(7, 0, x)), z3.Not(pred(x))))
    if m1 is not None:
        cv = m1.eval(x, model_completion=True).as_long()
        viol("unescaped-char", "%s does not search for character 0x%02x: it is copied verbatim although it must be escaped" % (esc.name, cv),
             mir.Path(mir.State(), {}, "static"), m1)
    m2 = E.model([], z3.And(z3.UGE(x, 128), z3.ULT(x, 0x110000), pred(x)))
    if m2 is not None:
        cv = m2.eval(x, model_completion=True).as_long()
        viol("multibyte-pattern", "%s searches for U+%04X but escapes only the first byte at the found index" % (esc.name, cv),
             mir.Path(mir.State(), {}, "static"), m2)
    n_cases += 2

    def outputs(p):
        """[(kind, payload)] for the OUT events of a path; None if something is not modelled."""
        outs = []
        for e in p.events:
            if not e.name.startswith("OUT:"):
                continue
            v = e.args[0]
            if e.name == "OUT:write_str":
                if ("nbv",) in v:
                    outs.append(("slice", v))
                elif isinstance(v.get(()), mir.Str):
                    outs.append(("bytes", [(z3.BoolVal(True), [z3.BitVecVal(b, 8) for b in rust_bytes(v[()].s)])]))
                else:
                    return None
            else:
                t = v.get(("tmpl",))
                if not isinstance(t, mir.Str):
                    return None
                try:
                    parts = decode_template(rust_bytes(t.s))
                except Exception:
                    return None
                for part in parts:
                    if part[0] == "lit":
                        outs.append(("bytes", [(z3.BoolVal(True), [z3.BitVecVal(b, 8) for b in part[1]])]))
                        continue
                    _, ai, flags, width, prec = part
                    kind = v.get(("args", ("i", ai), "akind"))
                    ty = v.get(("args", ("i", ai), "aty"))
                    val = {k[3:]: x_ for k, x_ in v.items() if k[:3] == ("args", ("i", ai), "aval")}
                    if kind is None or ty is None:
                        return None
                    r = render_arg(kind.s, ty.s, val, flags, width, prec)
                    if r is None:
                        return None
                    outs.append(("bytes", r))
        return outs

    for i, p in enumerate(paths):
        if p.kind not in ("return", "bound"):
            if p.kind == "panic" and E.feasible(p.cond):
                viol("panic", "%s's write_str can panic" % esc.name, p, E.model(p.cond))
            continue
        outs = outputs(p)
        if outs is None:
            res.inconclusive.append("%s: a write on path %d is not modelled (format argument kind)" % (esc.name, i))
            continue
        found = not E.feasible(p.cond, d != 1)
        notfound = not E.feasible(p.cond, d != 0)
        n_cases += 1
        if notfound:
            # nothing to escape in the rest: the rest is written verbatim, exactly once
            if p.kind != "return":
                viol("no-termination", "%s keeps looping although nothing is left to escape" % esc.name, p)
                continue
            good = len(outs) == 1 and outs[0][0] == "slice" and \
                not E.feasible(p.cond, z3.Not(z3.And(outs[0][1][("s",)] == s0, outs[0][1][("nbv",)] == nbv)))
            if not good:
                viol("rest-not-copied", "%s does not write the remaining text verbatim when it contains nothing to escape" % esc.name, p)
            continue
        if not found:
            continue
        # found at idx: prefix verbatim, then an encoding of the character, then continue behind it
        if not outs:
            if p.kind == "bound":
                viol("dropped", "%s drops the text before and the character at the found index" % esc.name, p)
            continue
        first = outs[0]
        if first[0] != "slice" or E.feasible(p.cond, z3.Not(z3.And(first[1][("s",)] == s0, first[1][("nbv",)] == idx))):
            viol("prefix", "%s does not first write the text before the found character verbatim" % esc.name, p)
            continue
        rest = outs[1:]
        if any(k != "bytes" for k, _ in rest):
            viol("chunk-shape", "%s writes another slice of the input while encoding one character" % esc.name, p)
            continue
        if p.kind == "return":
            # an early return is only right after a failed write (Err is passed on)
            rd = p.ret.get(("disc",))
            if rd is None or E.feasible(p.cond, rd == 0):
                viol("early-ok", "%s returns Ok after encoding only part of the text" % esc.name, p)
            continue
        # p.kind == "bound": the loop continues; all writes of this iteration succeeded
        cur2 = {k[1:]: v for k, v in p.mem.items() if isinstance(k[0], str) and k[0].endswith(":_2") and k[0].startswith("F1:")}
        if ("nbv",) not in cur2 or E.feasible(p.cond, z3.Not(z3.And(cur2[("s",)] == s0 + idx + 1,
                                                                    cur2[("nbv",)] == nbv - idx - 1))):
            viol("continue", "%s does not continue right behind the encoded character" % esc.name, p)
            continue
        # the chunk: every combination of alternatives
        combos = [([], [])]
        for _, alts in rest:
            combos = [(cc + [ac], bb + ab) for cc, bb in combos for ac, ab in alts]
        for cc, chunk in combos:
            if not E.feasible(p.cond, z3.And(cc)):
                continue
            mdl = E.model(p.cond, z3.And(z3.And(cc), z3.Not(esc.valid_chunk(c8, chunk))))
            if mdl is not None:
                cv = mdl.eval(c8, model_completion=True).as_long()
                txt = bytes(mdl.eval(b, model_completion=True).as_long() for b in chunk)
                viol("bad-encoding", "%s encodes character 0x%02x as %r, which is not a right encoding of it" % (esc.name, cv, txt), p, mdl)
                break
    res.distinct += n_cases
    res.samples.append({"escaper": esc.name, "paths": len(paths), "cases": n_cases, "pattern": "closure" if cl else "char array"})
    mprop.finish_engine(res, E)


_native_cache = {}


def native(res, esc):
    """Concrete replay: every single ASCII byte through the real escaper and an independent parser."""
    import nativetest
    test = "c22_native_json_str" if esc.name == "json_str" else "c22_native_label"
    if test not in _native_cache:
        failed, passed, out = nativetest.run_native_test("native_c22", test)
        line = [l for l in out.splitlines() if "NATIVE-FALLBACK" in l]
        res.notes.append("native replay %s: %s" % (test, line[0][:300] if line else "no output"))
        _native_cache[test] = True if failed else (False if passed else None)
    return _native_cache[test]


# ---------------------------------------------------------------------------------------------

def check_wrappers(res):
    """The Display wrappers hand everything to the escaping writer; every string sink uses the wrappers."""
    E = mprop.engine(res)
    n = 0
    sinks = []
    static = mir.Path(mir.State(), {}, "static")

    def body_text(b):
        b.parse()
        return "\n".join(st for blk in b.blocks.values() for st in blk["stmts"])

    for name, bodies in E.prog.bodies.items():
        m = re.search(r"<impl at src/utils/json\.rs:[^>]*>::(member_str|array_str|append_key)$", name)
        if not m:
            continue
        for b in bodies:
            sinks.append(m.group(1))
            n += 1
            if not re.search(r"json_str::<", body_text(b)):
                res.violation("mir:json-sink-unescaped:" + m.group(1),
                              "JsonBuilder::%s writes a quoted string without json_str" % m.group(1),
                              mprop.write_cex(res, "sink_" + m.group(1), static, E, "no json_str call in " + name))
    lb = E.prog.find(MET_F, "LabelValue", "label")
    n += 1
    if not re.search(r"label_value::<", body_text(lb)):
        ok = native(res, Escaper("label_value", MET_F, "label_value", None, None))
        if ok is not False:
            res.violation("mir:label-value-unescaped", "LabelValue::label writes the label value without escaping",
                          mprop.write_cex(res, "label_unescaped", static, E, "LabelValue::label formats the raw value"))
    # the two Display wrappers: fmt() is exactly write!(&mut Writer(f), "{}", self.0)
    for fn_, file in (("json_str", JSON_F), ("label_value", MET_F)):
        hits = [bs[0] for nm, bs in E.prog.bodies.items()
                if re.search(r"(^|::)%s::<impl at %s:[^>]*>::fmt$" % (fn_, re.escape(file)), nm)]
        n += 1
        if len(hits) != 1:
            res.inconclusive.append("%s: Display wrapper not found" % fn_)
            continue
        txt = body_text(hits[0])
        tm = re.findall(r'const (b"(?:[^"\\]|\\.)*")', txt)
        good = len(tm) == 1 and decode_template(rust_bytes(tm[0])) == [("arg", 0, None, None, None)] \
            and re.search(r"Argument::<'_>::new_display::<T>", txt) \
            and re.search(r"as std::fmt::Write>::write_fmt|as Write>::write_fmt", txt)
        if not good:
            res.violation("mir:%s:wrapper" % fn_, "%s's Display wrapper does not pass its value through the escaping writer with a plain {}" % fn_,
                          mprop.write_cex(res, "wrapper_" + fn_, static, E, "fmt body: " + txt[:1500]))
    res.samples.append({"json_string_sinks": sinks})
    res.distinct += n
    if len(sinks) < 3:
        res.inconclusive.append("routing check found only %d JSON string sinks" % len(sinks))
    mprop.finish_engine(res, E)


def run(res, tier):
    res.bounds += [
        "one iteration of the escaping loop of json_str / label_value from an arbitrary remaining string (symbolic "
        "start, length < 2^40, symbolic found index and character): z3 shows that the text before the found "
        "character is written verbatim, the character is written as a right encoding (every alternative of the "
        "format template), the loop continues right behind it, and the rest is written verbatim when nothing is "
        "found; with the search pattern covering every character that needs escaping this is the inductive step "
        "for strings of any length",
        "characters that need escaping are single-byte (ASCII); a pattern matching a multi-byte character is "
        "reported, since the code escapes the byte at the found index",
    ]
    res.assumptions += [
        "str::find(pattern) returns the byte index of the first character matching the pattern or None "
        "(trusted model of the std function); str slicing and as_bytes are offset arithmetic",
        "format_args! templates are decoded as documented in library/core/src/fmt/mod.rs of the MIR toolchain; "
        "modelled placeholders: {} of char (ASCII), {:x}/{:X} of u8 with optional zero-padded width; anything else "
        "is reported as inconclusive",
        "the inner Display implementation reaches the sink only through fmt::Write::write_str (the writer types "
        "define no other method; checked)",
    ]
    res.outside += ["whole-document rendering in http/status.rs (750 lines of builder calls) and http/metrics.rs: "
                    "checked is that every string they emit goes through the escapers (JsonBuilder's string sinks, "
                    "LabelValue::label) and that the escapers are right",
                    "metric names, label names and HELP text (static strings in the source)",
                    "Kani on the escapers: the 1-byte harness found the json_str defect in 644 s but cannot finish the "
                    "proof on the repaired code within 14 GB (core::fmt padding code); abandoned for the MIR check"]
    res.rule = ("one case = one feasible path through one loop iteration of an escaper (plus the pattern-coverage "
                "queries and one routing check per string sink)")
    check_escaper(res, Escaper("json_str", JSON_F, "json_str", json_needs_escape, json_valid_chunk))
    check_escaper(res, Escaper("label_value", MET_F, "label_value", label_needs_escape, label_valid_chunk))
    check_wrappers(res)
