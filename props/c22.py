"""C22 Status and metrics documents are always well-formed (Kani on the string escapers + MIR routing check)."""
import re

import mir
import mprop
from kprop import run_kani_part

SPEC = {
    "groups": ["json"],
    "files": ["src/utils/json.rs", "src/http/metrics.rs", "src/http/status.rs"],
    "harnesses": {
        "quick": ["c22_json_str_1_byte"],
        "thorough": ["c22_json_str_2_bytes"],
    },
    "harness_file": {"c22_json": ("json.rs", "src/utils/json.rs"), "c22_label": ("metrics_http.rs", "src/http/metrics.rs")},
    "timeout": {"quick": 1500, "thorough": 10000, "replay": 900},
    "native_fallback": {"c22_json_str_1_byte": ("native_c22", "c22_native_json_str"),
                        "c22_json_str_2_bytes": ("native_c22", "c22_native_json_str")},
}


def run(res, tier):
    res.functions += ["routinator::utils::json::json_str (through core::fmt, real)",
                      "routinator::http::metrics label-value escaping (through core::fmt, real)"]
    res.bounds += [
        "every ASCII string of exactly 1 byte (quick) / 2 bytes (thorough), written through core::fmt into a fixed "
        "stack sink; the output is run through an RFC 8259 string-content recogniser and decoder compiled into the "
        "harness and must decode to the input; longer strings and non-ASCII outside the bound (the escaper works "
        "byte-wise on ASCII specials and copies everything else)",
    ]
    res.outside += ["whole-document rendering in http/status.rs (750 lines of builder calls) and http/metrics.rs: "
                    "only that every string they emit goes through the escapers is checked (MIR routing check below)"]
    res.rule = ("K: one case = one Kani harness per escaper and length; M: one case = one string sink of JsonBuilder / "
                "LabelValue whose MIR must route the value through the escaper")
    run_kani_part(res, SPEC, tier)
    routing(res)


def routing(res):
    """Every string sink of JsonBuilder calls json_str; LabelValue::label calls the label escaper."""
    E = mprop.engine(res)
    n = 0
    sinks = []
    for name, bodies in E.prog.bodies.items():
        m = re.search(r"<impl at src/utils/json\.rs:[^>]*>::(member_str|array_str|append_key)$", name)
        if not m:
            continue
        for b in bodies:
            b.parse()
            txt = "\n".join(st for blk in b.blocks.values() for st in blk["stmts"])
            sinks.append(m.group(1))
            n += 1
            if not re.search(r"json_str::<", txt):
                res.violation("mir:json-sink-unescaped:" + m.group(1),
                              "JsonBuilder::%s writes a quoted string without json_str" % m.group(1),
                              mprop.write_cex(res, "sink_" + m.group(1), mir.Path(mir.State(), {}, "static"), E, "no json_str call in " + name))
    lb = E.prog.find("src/http/metrics.rs", "LabelValue", "label")
    txt = "\n".join(s for blk in lb.blocks.values() for s in blk["stmts"])
    n += 1
    if not re.search(r"label_value|escape", txt):
        res.violation("mir:label-value-unescaped", "LabelValue::label writes the label value without escaping",
                      mprop.write_cex(res, "label_unescaped", mir.Path(mir.State(), {}, "static"), E, "LabelValue::label formats the raw value"))
    res.samples.append({"json_string_sinks": sinks})
    res.distinct += n
    if n < 4:
        res.inconclusive.append("routing check found only %d sinks" % n)
    mprop.finish_engine(res, E)
