"""C34 Next-run scheduling respects refresh and min-refresh (Kani, symbolic clock)."""
from kprop import run_kani_part

SPEC = {
    "groups": ["history"],
    "files": ["src/payload/history.rs", "src/operation.rs"],
    "stubbing": True,
    "harnesses": {
        "quick": ["c34_wait_no_min_no_expiry", "c34_wait_min_no_expiry", "c34_wait_no_min_expiry", "c34_wait_min_expiry"],
        "thorough": [],
    },
    "harness_file": {"*": ("history.rs", "src/payload/history.rs")},
    "timeout": {"quick": 900, "thorough": 3000},
}


def run(res, tier):
    res.functions += [
        "routinator::payload::history::SharedHistory::mark_update_done",
        "routinator::payload::history::PayloadHistory::refresh_wait",
        "std::time::{SystemTime, Duration} arithmetic and chrono/rpki Time -> SystemTime conversion (real)",
    ]
    res.stubs += [
        "std::time::SystemTime::now -> two arbitrary non-decreasing instants (seconds and nanoseconds symbolic)",
        "chrono::Utc::now -> the epoch (only feeds created / last_update_done, which this property does not read)",
    ]
    res.bounds += [
        "refresh, min-refresh: symbolic whole seconds <= 2^32; min-refresh set / unset; data-set expiry set / unset",
        "expiry is the fixed instant 2001-09-09T01:46:40Z; the clock ranges over [1 s, expiry + 2^33 s] for the "
        "first reading and up to expiry + 2^34 s for the second, so every ordering of now, now+refresh and expiry "
        "occurs (time-translation invariance of the arithmetic is assumed)",
        "one mark_update_done followed by one refresh_wait (the sequence Server::run performs after a regular run)",
    ]
    res.assumptions += ["Server::run calls history.read().refresh_wait() after a successful non-initial "
                        "process_once (checked on the MIR under C32's server part)"]
    res.rule = ("one case = one Kani harness (min-refresh set/unset x expiry set/unset, everything else symbolic); "
                "non-trivial = SUCCESSFUL with cover witnesses; evaluations = CBMC checks decided")
    run_kani_part(res, SPEC, tier)
    # the expiry mark_update_done reads is the current run's: SharedHistory::update installs the run's snapshot on
    # every path (obligation shared with C14)
    import mprop
    import c14
    E = mprop.engine(res)
    res.engines.append("M: symbolic execution of the MIR of SharedHistory::update (snapshot installed on every path)")
    before = len(res.violations)
    c14.check_update_plumbing(res, E, check_install=True)
    # the other obligations of the update plumbing belong to C14 / C17, not to the scheduling property
    res.violations = res.violations[:before] + [v for v in res.violations[before:] if v["key"] == "mir:update-keeps-old-snapshot"]
    mprop.finish_engine(res, E)
