"""C36 RTR client metrics stay consistent under concurrent connections (MC + M)."""
import json
import os
import re

import z3

import mc
import mir
import mprop
from gating import must, disc_of, is_ok


def provenance(p):
    """leaf id of a Deref result -> leaf id of what was dereferenced (from the pure-call memo)."""
    back = {}
    for k, v in p.memo.items():
        if isinstance(k, tuple) and k and k[0] == "deref":
            res = v.get(())
            for part in k[1]:
                if len(part) >= 3 and part[1] == "o" and isinstance(res, mir.Opq):
                    back[res.id] = part[2]
                elif len(part) >= 3 and part[1] == "r" and isinstance(res, mir.Opq):
                    leaf = p.mem.get(part[2])
                    if isinstance(leaf, mir.Opq):
                        back[res.id] = leaf.id
    return back


def origin_load(p, leaf, loads, back):
    seen = 0
    cur = leaf.id if isinstance(leaf, mir.Opq) else None
    while cur is not None and seen < 8:
        if cur in loads:
            return loads[cur]
        cur = back.get(cur)
        seen += 1
    return None


def extract(E, p):
    """[(op, outcome)] for RtrPerAddrMetrics::get; loads are numbered in order."""
    back = provenance(p)
    loads = {}
    seq = []
    guards = {}
    n_load = 0
    for e in p.events:
        if e.kind == "drop":
            leaf = e.args[0].get(()) if e.args else None
            if isinstance(leaf, mir.Opq) and leaf.id in guards:
                seq.append((("unlock",), None))
                guards.pop(leaf.id)
            continue
        if e.kind != "call":
            continue
        if re.search(r"ArcSwapAny::load$|ArcSwap::load$", e.name):
            n_load += 1
            leaf = e.dest.get(())
            if isinstance(leaf, mir.Opq):
                loads[leaf.id] = n_load
            seq.append((("load", n_load), None))
        elif re.search(r"binary_search_by$", e.name):
            src = origin_load(p, e.args[0].get(()), loads, back) if e.args else None
            d = disc_of(E, p, e)
            out = None
            if d is not None:
                if must(E, p, d == 0):
                    out = True       # Ok(idx): found
                elif must(E, p, d == 1):
                    out = False
            if src is None or out is None:
                raise mir.Inconclusive("binary_search_by: provenance %r outcome %r" % (src, out))
            seq.append((("search", src), out))
        elif re.search(r"Mutex::lock$", e.name):
            leaf = e.dest.get(())
            if isinstance(leaf, mir.Opq):
                guards[leaf.id] = True
            seq.append((("lock",), None))
        elif re.search(r"extend_from_slice$", e.name):
            pass
        elif re.search(r"Index::index$", e.name):
            src = origin_load(p, e.args[0].get(()), loads, back) if e.args else None
            if src is not None:          # indexing the freshly built vector has no load behind it
                seq.append((("use", src), None))
        elif re.search(r"ArcSwapAny::store$|ArcSwap::store$", e.name):
            seq.append((("store",), None))
    # collapse: which load is the stored list built from / the returned entry taken from
    out = []
    built = set()
    for op, oc in seq:
        if op[0] == "use":
            built.add(op[1])
            continue
        out.append((op, oc))
    return out, built

def atomic_program(E, res, meth):
    """[(op, arg)] the atomic operations RtrMetricsData::<meth> performs on its counter, with the field touched."""
    body = E.prog.find("src/metrics.rs", "RtrMetricsData", meth)
    rets = [p for p in E.explore(body, max_visits=2, nomut=[r"."]) if p.kind == "return"]
    if len(rets) != 1:
        raise mir.Inconclusive("RtrMetricsData::%s has %d return paths (straight-line counter updates are modelled)" % (meth, len(rets)))
    prog, field = [], set()
    for e in rets[0].events:
        if e.kind != "call" or not re.search(r"Atomic(\w*)::", e.name):
            continue
        op = e.name.rsplit("::", 1)[1]
        tgt = e.args[0].get(()) if e.args else None
        field.add(repr(tgt.loc[-1]) if isinstance(tgt, mir.Ref) and tgt.loc else repr(tgt))
        if op in ("fetch_add", "fetch_sub"):
            v = e.args[1].get(())
            prog.append((op, v if z3.is_expr(v) else z3.BitVecVal(int(v), 64)))
        elif op == "load":
            prog.append((op, e.dest.get(())))
        elif op == "store":
            v = e.args[1].get(())
            if not (z3.is_expr(v) or isinstance(v, int)):
                raise mir.Inconclusive("RtrMetricsData::%s stores a value the engine cannot express: %r" % (meth, v))
            prog.append((op, v if z3.is_expr(v) else z3.BitVecVal(int(v), 64)))
        else:
            raise mir.Inconclusive("RtrMetricsData::%s uses atomic operation %s (not modelled)" % (meth, op))
    return prog, field


def check_counter(res, E, K=3):
    """K connections open and close concurrently; inc/dec are the atomic-operation programs extracted from MIR."""
    inc, f_inc = atomic_program(E, res, "inc_current_connections")
    dec, f_dec = atomic_program(E, res, "dec_current_connections")
    res.functions.append("routinator::metrics::RtrMetricsData::{inc,dec}_current_connections (MIR, atomic operations extracted)")
    show = lambda pr: ["%s(%s)" % (o, z3.simplify(a) if z3.is_expr(a) else a) for o, a in pr]
    res.extra["counter_programs"] = {"inc": show(inc), "dec": show(dec)}
    res.samples.append({"counter_programs": res.extra["counter_programs"]})
    if f_inc != f_dec or len(f_inc) != 1:
        res.violation("mir:metrics:counter-field", "inc_current_connections and dec_current_connections do not update the same single counter (%s vs %s)" % (sorted(f_inc), sorted(f_dec)),
                      mprop.write_cex(res, "counter_field", mir.Path(mir.State(), {}, "static"), E, "fields %s / %s" % (sorted(f_inc), sorted(f_dec))))
        return
    seq = [((o, j), None) for j, (o, _) in enumerate(inc + dec)]
    args = [a for _, a in inc + dec]
    _, nodes = mc.build_automaton([seq])
    loads = [j for j, (o, _) in enumerate(inc + dec) if o == "load"]
    init = {"count": z3.BitVecVal(0, 64)}
    for i in range(K):
        for j in loads:
            init["ld%d_%d" % (i, j)] = z3.BitVecVal(0, 64)

    def sem(node, s, i):
        if node.op[0] == "start":
            return z3.BoolVal(True), {}, None
        o, j = node.op
        a = args[j]
        up = {}
        sub = [(args[k], s["ld%d_%d" % (i, k)]) for k in loads if z3.is_expr(args[k])]
        val = z3.substitute(a, *sub) if (z3.is_expr(a) and sub and o != "load") else a
        if o == "fetch_add":
            up["count"] = s["count"] + val
        elif o == "fetch_sub":
            up["count"] = s["count"] - val
        elif o == "load":
            up["ld%d_%d" % (i, j)] = s["count"]
        elif o == "store":
            up["count"] = val
        return z3.BoolVal(True), up, None

    M = mc.GModel([nodes] * K, init, sem, K * (len(seq) + 1), watch=["count"])
    alldone = lambda s: z3.And([M.at_end(s, i) for i in range(K)])
    tr = M.check(lambda s: z3.And(alldone(s), s["count"] != z3.BitVecVal(0, 64)), "counter-not-zero")
    if tr is not None:
        d = os.path.join(mprop.VERIF, "replays", res.prop)
        os.makedirs(d, exist_ok=True)
        fn = os.path.join(d, "counter-not-zero.schedule.json")
        with open(fn, "w") as f:
            json.dump({"property": res.prop, "what": "open-connection count is not zero after every connection closed",
                       "programs": res.extra["counter_programs"], "schedule": tr}, f, indent=1)
        res.violation("mc:metrics:counter-not-zero", "%d connections open and close concurrently and the open-connection count does not return to zero "
                      "(inc = %s, dec = %s)" % (K, show(inc), show(dec)), fn)
    wit = M.check(lambda s: s["count"] == z3.BitVecVal(K, 64), "counter-witness", final_only=False)
    if wit is None:
        res.inconclusive.append("vacuity: no schedule has all %d connections open at once" % K)
    res.evaluations += M.queries
    res.solver_time += M.solver_time
    res.distinct += 2
    res.bounds.append("%d connections, each inc then dec, every interleaving of the atomic operations of both functions" % K)
    res.assumptions.append("each std atomic method (fetch_add, fetch_sub, load, store) is one indivisible step; memory-ordering effects on a single location do not matter for the count")


def run(res, tier):
    E = mprop.engine(res)
    res.extra.setdefault("source_files_sha256", {}).update(mprop.source_hashes(["src/metrics.rs", "src/rtr.rs"]))
    body = E.prog.find("src/metrics.rs", "RtrPerAddrMetrics", "get")
    res.functions.append("routinator::metrics::RtrPerAddrMetrics::get (MIR, %d blocks)" % len(body.blocks))
    paths = E.explore(body, max_visits=2, nomut=[r"."], keep_drop_events=True)
    seqs = []
    store_src = set()
    ret_src = {}
    for p in paths:
        if p.kind != "return":
            continue
        seq, built = extract(E, p)
        if any(o[0] == "store" for o, _ in seq):
            store_src |= built
        seqs.append((seq, built))
    # programs: annotate store / return with the load they use
    prog = []
    for seq, built in seqs:
        s2 = []
        for op, oc in seq:
            if op[0] == "store":
                src = max(built) if built else 0
                if len(built) != 1:
                    res.notes.append("new list / returned entry use loads %s" % sorted(built))
                    src = min(built) if built else 0   # pessimistic: the oldest snapshot
                s2.append((("store", src), oc))
            else:
                s2.append((op, oc))
        if not any(o[0] == "store" for o, _ in s2):
            src = max(built) if built else 0
            s2.append((("return_from", src), None))
        prog.append(s2)
    uniq = []
    for s in prog:
        if s not in uniq:
            uniq.append(s)
    _, nodes = mc.build_automaton(uniq)
    res.extra["get_paths"] = [[" ".join(map(str, op)) + ("=%s" % o if o is not None else "") for op, o in s] for s in uniq]
    IV = mc.IV
    K = 3
    NA = 2
    init = {"hold": IV(-1), "next_id": IV(1), "orphan": z3.BoolVal(False)}
    for a in range(NA):
        init["list%d" % a] = IV(0)
    addr = [z3.BitVec("addr_%d" % i, mc.W) for i in range(K)]
    for i in range(K):
        for a in range(NA):
            init["snap1_%d_%d" % (i, a)] = IV(0)
            init["snap2_%d_%d" % (i, a)] = IV(0)
        init["ret%d" % i] = IV(0)

    def pick(s, prefix, i, which):
        # value of per-address slot selected by the thread's (symbolic) address
        e = s["%s%d_%d" % (prefix, i, NA - 1)] if which is None else None
        return e

    def sel(vals, a_expr):
        e = vals[NA - 1]
        for a in range(NA - 2, -1, -1):
            e = z3.If(a_expr == IV(a), vals[a], e)
        return e

    def sem(node, s, i):
        op = node.op
        en, up, nxt = z3.BoolVal(True), {}, None
        if op[0] == "load":
            for a in range(NA):
                up["snap%d_%d_%d" % (op[1], i, a)] = s["list%d" % a]
        elif op[0] == "search":
            mine = sel([s["snap%d_%d_%d" % (op[1], i, a)] for a in range(NA)], addr[i])
            t, f = node.next.get(True), node.next.get(False)
            nxt = z3.If(mine != IV(0), IV(t.id) if t else IV(-2), IV(f.id) if f else IV(-2))
        elif op[0] == "lock":
            en = s["hold"] == IV(-1)
            up["hold"] = IV(i)
        elif op[0] == "unlock":
            up["hold"] = z3.If(s["hold"] == IV(i), IV(-1), s["hold"])
        elif op[0] == "store":
            src = op[1] if op[1] in (1, 2) else 1
            for a in range(NA):
                base = s["snap%d_%d_%d" % (src, i, a)]
                newv = z3.If(addr[i] == IV(a), s["next_id"], base)
                # an entry that was in the live list and is dropped or replaced by the store is orphaned
                up_or = z3.And(s["list%d" % a] != IV(0), newv != s["list%d" % a])
                up["orphan"] = z3.Or(up.get("orphan", s["orphan"]), up_or)
                up["list%d" % a] = newv
            up["ret%d" % i] = s["next_id"]
            up["next_id"] = s["next_id"] + 1
        elif op[0] == "return_from":
            src = op[1] if op[1] in (1, 2) else 1
            up["ret%d" % i] = sel([s["snap%d_%d_%d" % (src, i, a)] for a in range(NA)], addr[i])
        return en, up, nxt

    steps = K * (max(len(x) for x in uniq) + 1)
    M = mc.GModel([nodes] * K, init, sem, steps, watch=["list0", "list1", "next_id"])
    for i in range(K):
        M.solver.add(z3.ULT(addr[i], IV(NA)))
    alldone = lambda s: z3.And([M.at_end(s, i) for i in range(K)])
    checks = [
        ("entry-lost-or-replaced", lambda s: s["orphan"],
         "an address's metrics entry that clients already hold is dropped or replaced by a concurrent insertion"),
        ("handle-not-list-entry", lambda s: z3.And(alldone(s), z3.Or([
            s["ret%d" % i] != sel([s["list%d" % a] for a in range(NA)], addr[i]) for i in range(K)])),
         "a client's metrics handle is not the entry recorded for its address"),
    ]
    n = 0
    for key, bad, what in checks:
        tr = M.check(bad, key)
        n += 1
        if tr is not None:
            d = os.path.join(mprop.VERIF, "replays", res.prop)
            os.makedirs(d, exist_ok=True)
            fn = os.path.join(d, "%s.schedule.json" % key)
            with open(fn, "w") as f:
                json.dump({"property": res.prop, "what": what, "get_paths": res.extra["get_paths"], "schedule": tr}, f, indent=1)
            res.violation("mc:metrics:" + key, what, fn)
    wit = M.check(lambda s: z3.And(alldone(s), s["list0"] != IV(0), s["list1"] != IV(0)), "witness")
    if wit is None:
        res.inconclusive.append("vacuity: no schedule registers both addresses")
    else:
        res.samples.append({"witness": ["T%d:%s" % (x["thread"], x["op"]) for x in wit][:30]})
    res.samples.append({"get_paths": res.extra["get_paths"]})
    res.evaluations += M.queries
    res.solver_time += M.solver_time
    res.distinct += n

    # ---- open-connection counter: incremented only when the stream exists, decremented on drop ---------
    body = E.prog.find("src/rtr.rs", "RtrStream", "new")
    res.functions.append("routinator::rtr::RtrStream::{new, drop} (MIR)")
    n2 = 0
    for i, p in enumerate(E.explore(body, max_visits=2, nomut=[r"."])):
        if p.kind != "return":
            continue
        d = p.ret.get(("disc",))
        inc = [e for e in p.events if e.kind == "call" and re.search(r"RtrClientMetrics::update$", e.name)]
        if d is None:
            continue
        n2 += 1
        if must(E, p, d == 1) and inc:
            fn = mprop.write_cex(res, "inc_on_failed_setup_%d" % i, p, E, "connection counted although RtrStream::new fails")
            res.violation("mir:metrics:inc-without-stream", "the open-connection count is incremented for a connection whose setup failed (never decremented)", fn)
        if must(E, p, d == 0) and len(inc) != 1:
            fn = mprop.write_cex(res, "inc_count_%d" % i, p, E, "successful RtrStream::new updates the counter %d times" % len(inc))
            res.violation("mir:metrics:inc-not-once", "a new connection is not counted exactly once", fn)
    dbody = E.prog.find("src/rtr.rs", "RtrStream", "drop", trait="Drop")
    for i, p in enumerate(E.explore(dbody, max_visits=2, nomut=[r"."])):
        if p.kind != "return":
            continue
        n2 += 1
        dec = [e for e in p.events if e.kind == "call" and re.search(r"RtrClientMetrics::update$", e.name)]
        if len(dec) != 1:
            fn = mprop.write_cex(res, "drop_dec_%d" % i, p, E, "RtrStream::drop updates the counter %d times" % len(dec))
            res.violation("mir:metrics:dec-not-once", "closing a connection does not decrement the open-connection count exactly once", fn)
    # the closures really increment / decrement
    for meth, want in (("new", r"inc_current_connections$"), ("drop", r"dec_current_connections$")):
        found = False
        for name, bodies in E.prog.bodies.items():
            if name.startswith("rtr::") and ("::%s::{closure" % meth) in name:
                for b in bodies:
                    b.parse()
                    for blk in b.blocks.values():
                        if any(re.search(want.rstrip("$"), s) for s in blk["stmts"]):
                            found = True
        n2 += 1
        if not found:
            res.violation("mir:metrics:%s-closure" % meth, "RtrStream::%s does not call %s" % (meth, want),
                          mprop.write_cex(res, "closure_%s" % meth, mir.Path(mir.State(), {}, "static"), E, "closure body lacks " + want))
    res.distinct += n2
    check_counter(res, E, 3 if tier == "quick" else 4)
    res.engines.append("MC: z3 BMC (bit-vector) over 3 callers of RtrPerAddrMetrics::get, program extracted from MIR incl. which loaded list feeds the store")
    res.bounds.append("3 concurrent get() calls with addresses drawn from 2 (symbolic), every interleaving of load / search / lock / store / unlock")
    res.assumptions += ["ArcSwap load/store are atomic pointer operations (its lock-free internals are outside); std Mutex",
                        "the insertion index comes from the binary search on the same list the new list is built from (provenance of both is extracted and reported)",
                        "sortedness follows from inserting at the Err(idx) of that search (not model-checked)"]
    res.rule = ("one case = one safety query over all schedules (entry lost/replaced, handle is not the list entry) or one "
                "path of RtrStream::new/drop (inc/dec pairing); evaluations = z3 queries")
    mprop.finish_engine(res, E)
