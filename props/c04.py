"""C04 Store holds only complete, verified publication points (M engine)."""
import re

import z3

import mir
import mprop
from gating import check_gates, is_ok, is_some, ok_some, ok_true, must, disc_of


def run(res, tier):
    E = mprop.engine(res)
    res.extra.setdefault("source_files_sha256", {}).update(mprop.source_hashes(["src/engine.rs", "src/store.rs"]))
    visits = 3 if tier == "quick" else 4
    body = E.prog.find("src/engine.rs", "PubPoint", "process_collected")
    storep = mir.Opq("&mut StoredPoint", "store")
    sp_fields = mir.struct_fields("StoredPoint", "src/store.rs")
    paths = E.explore(body, max_visits=visits, nomut=[r"."], arg_values={"_3": {(): storep}},
                      inline=[r"StoredPoint::update$", r"StoredPoint::_update$", r"UpdateError::fatal$"])
    res.functions += ["engine::PubPoint::process_collected (MIR) with StoredPoint::update, StoredPoint::_update and the "
                      "update closure inlined"]
    total = 0
    # 1. the only replacing event is tmp_file.persist; it is gated
    total += check_gates(res, E, paths, "process_collected", r"persist$", [
        (r"PubPoint::validate_collected_manifest$", ok_some, "fetched manifest valid (signature, CRL, not premature, stale policy)"),
        (r"PubPoint::check_collected_is_newer$", ok_true, "fetched manifest newer than stored"),
        (r"StoredPointHeader::write$", is_ok, "header written to the temporary file"),
        (r"StoredManifest::write$", is_ok, "manifest written to the temporary file"),
    ], key_prefix="mir:store")
    n_persist = 0
    for i, p in enumerate(paths):
        evs = p.events
        pers = [x for x, e in enumerate(evs) if e.kind == "call" and re.search(r"persist$", e.name)]
        # closure invocations: enter:closure@ ... ret:closure@
        calls = []
        x = 0
        while x < len(evs):
            if evs[x].kind == "enter" and evs[x].name.startswith("enter:closure@src/engine.rs"):
                y = x + 1
                while y < len(evs) and not (evs[y].kind == "ret" and evs[y].name.startswith("ret:closure@src/engine.rs")):
                    y += 1
                if y < len(evs):
                    calls.append((x, y))
                x = y
            x += 1
        for px in pers:
            n_persist += 1
            before = [(a, b) for a, b in calls if b < px]
            problems = []
            if not before:
                problems.append("persist without asking the object generator")
            for k, (a, b) in enumerate(before):
                rv = evs[b].dest or {}
                d = rv.get(("disc",))
                od = rv.get((("v", "Ok"), ("f", 0), "disc"))
                inner = evs[a + 1:b]
                if d is None:
                    problems.append("generator result unknown")
                    continue
                if E.feasible(p.cond, d == 1):
                    problems.append("persist after the object generator returned an error (aborted update stored)")
                    continue
                last = (k == len(before) - 1)
                if last:
                    if od is None or E.feasible(p.cond, od == 1):
                        problems.append("persist although the generator had more objects")
                    # "no more objects" must come from the manifest's entry list being exhausted
                    nx = [e for e in inner if e.kind == "call" and re.search(r"Iterator::next$", e.name)]
                    from gating import is_none
                    if not nx or is_none(E, p, nx[-1]) is None or not must(E, p, is_none(E, p, nx[-1])):
                        problems.append("the generator reports completion before the manifest's entry list is exhausted "
                                        "(a listed file would be missing from the stored set)")
                else:
                    lo = [e for e in inner if e.kind == "call" and re.search(r"Repository::load_object$", e.name)]
                    hv = [e for e in inner if e.kind == "call" and re.search(r"ManifestHash::verify$", e.name)]
                    if not lo or ok_some(E, p, lo[-1]) is None or not must(E, p, ok_some(E, p, lo[-1])):
                        problems.append("object stored although it could not be loaded")
                    if not hv or is_ok(E, p, hv[-1]) is None or not must(E, p, is_ok(E, p, hv[-1])):
                        problems.append("object stored although its manifest hash did not verify")
            if problems:
                key = "mir:store:persist:" + re.sub(r"\W+", "-", problems[0])[:50]
                if not any(v["key"] == key for v in res.violations):
                    fn = mprop.write_cex(res, "persist_%d" % i, p, E, "; ".join(problems))
                    res.violation(key, "stored publication point replaced although: " + "; ".join(problems), fn)
        # 2. an aborted generator leaves the store untouched and hands control to the stored version
        for a, b in calls:
            rv = evs[b].dest or {}
            d = rv.get(("disc",))
            if d is not None and not E.feasible(p.cond, d == 0):
                later = [e.name for e in evs[b:] if e.kind == "call" and re.search(r"persist$|StoredPoint::reject$|accept_point$", e.name)]
                if later:
                    fn = mprop.write_cex(res, "abort_then_%d" % i, p, E, "after an aborted object generator: %s" % later)
                    res.violation("mir:store:abort-not-clean", "an aborted update is followed by %s" % later, fn)
        # 2b. the in-memory stored point (manifest, open file) changes only once the new version is persisted
        for loc, at in p.writes:
            if loc[:2] == (("o", storep.id), "deref") and len(loc) >= 3 and loc[2][0] == "f":
                fld = sp_fields[loc[2][1]]
                if fld == "file":
                    # the open handle on the stored version may only be given up once the update can no longer be
                    # abandoned, i.e. after the last call of the object generator
                    later_gen = [e for e in evs[at:] if e.kind in ("call", "enter") and re.search(r"call_mut$|closure@", e.name)]
                    if later_gen:
                        key = "mir:store:in-memory-file-dropped-before-objects-complete"
                        if not any(v["key"] == key for v in res.violations):
                            fn = mprop.write_cex(res, "early_file_write_%d" % i, p, E,
                                                 "StoredPoint.file (the handle on the stored version) is taken while the object "
                                                 "generator can still abort the update")
                            res.violation(key, "the stored point gives up its open file before the fetched objects are complete: "
                                          "after an abandoned update the previous version yields no objects", fn)
                    continue
                if fld not in ("manifest",):
                    continue
                okp = [e for e in evs[:at] if e.kind == "call" and re.search(r"persist$", e.name)]
                if not okp or is_ok(E, p, okp[-1]) is None or not must(E, p, is_ok(E, p, okp[-1])):
                    key = "mir:store:in-memory-%s-changed-before-persist" % fld
                    if not any(v["key"] == key for v in res.violations):
                        fn = mprop.write_cex(res, "early_%s_write_%d" % (fld, i), p, E,
                                             "StoredPoint.%s is overwritten before the new version has been persisted; after "
                                             "an abandoned update the stored point would pair the fetched manifest with the "
                                             "old objects" % fld)
                        res.violation(key, "the stored point's in-memory %s is replaced before the update is complete "
                                      "(an aborted fetch no longer leaves the previous version usable)" % fld, fn)
        # 3. no direct reject of the stored point from the update path
        if any(e.kind == "call" and re.search(r"StoredPoint::reject$", e.name) for e in evs):
            fn = mprop.write_cex(res, "reject_in_update_%d" % i, p, E, "StoredPoint::reject called directly from process_collected")
            res.violation("mir:store:reject-in-update", "process_collected rejects the stored point directly", fn)
    total += n_persist
    if n_persist == 0:
        res.inconclusive.append("vacuity: persist never reached")
    for s in paths[:0]:
        pass
    res.samples.append({"paths": len(paths), "persist_sites_checked": n_persist, "truncated": E.bound_hits})
    res.samples.append({"gate": "persist requires: manifest valid, newer, header+manifest written, every yielded object loaded and hash-verified, generator finished with None, no generator error"})
    res.distinct += total
    res.extra["paths"] = len(paths)
    res.extra["paths_truncated_at_bound"] = E.bound_hits
    res.bounds.append("manifest-entry loop unrolled to %d objects; histories across runs are covered by induction "
                      "on one run from an arbitrary stored state (the stored point is an opaque input)" % (visits - 1))
    res.assumptions += ["NamedTempFile::persist is an atomic rename (file-system axiom)",
                        "the inconsistent-stored-copy reject inside check_collected_is_newer is C05's subject"]
    res.rule = ("one case = one occurrence of tmp_file.persist on a feasible path; obligations decided by z3 on the "
                "path condition; evaluations = z3 queries")
    # nothing destroys the stored version before an update has completed: the engine rejects the stored point only
    # when it is internally inconsistent (obligation shared with C05)
    import c05
    c05.check_newer(res, E, only_reject=True)
    mprop.finish_engine(res, E)
