"""C02 Valid payload is never silently dropped (M engine: failure isolation + liveness of the valid path)."""
import re

import z3

import mir
import mprop
from gating import is_ok, is_err, is_some, ok_some, ok_true, must, disc_of
from kprop import run_kani_part

# the unsafe-VRP filter must not remove VRPs it is not documented to remove (harnesses shared with C08)
KSPEC = {
    "groups": ["validation"],
    "files": ["src/payload/validation.rs"],
    "harnesses": {"quick": ["c08_keep_prefix_nothing_rejected", "c08_keep_prefix_other_family"],
                  "thorough": ["c08_keep_prefix_v4_one_block"]},
    "harness_file": {"*": ("validation.rs", "src/payload/validation.rs")},
    "timeout": {"quick": 900, "thorough": 7200},
}

OBJ_INLINE = [r"engine::PubPoint::process_(cer|ca_cer|router_cert|roa|aspa|gbr)$"]
PROCESSOR = r"ProcessPubPoint::(want|process_roa|process_aspa|process_gbr|process_router_cert|process_ca)$"


def check_commit(res, E):
    """PubPointProcessor::commit hands the publication point's payload on exactly when some payload list of
    payload::validation::PubPoint is non-empty (every Vec field of the struct counts as a payload list)."""
    VF = "src/payload/validation.rs"
    src = open(mir.os.path.join(mir.REPO, VF)).read()
    m = re.search(r"pub struct PubPoint \{(.*?)\n\}", src, re.S)
    fields = mir.struct_fields("PubPoint", VF)
    vec_fields = [f for f in fields if m and re.search(r"\b%s:\s*Vec<" % f, m.group(1))]
    if len(vec_fields) < 2:
        res.inconclusive.append("commit: payload lists of validation::PubPoint not identified (%s)" % vec_fields)
        return 0
    body = E.prog.find(VF, "PubPointProcessor", "commit")
    empt = {fields.index(f): z3.Bool("list_%s_is_empty" % f) for f in vec_fields}

    def m_is_empty(E_, st, frame, callee, argvals, dest_ty):
        r = argvals[0].get(())
        loc = r.loc if isinstance(r, mir.Ref) else None
        idx = None
        if loc:
            for part in reversed(loc):
                if isinstance(part, tuple) and part[0] == "f":
                    idx = part[1]
                    break
        if idx in empt:
            return {(): empt[idx]}
        return NotImplemented

    paths = E.explore(body, max_visits=2, inline=[r"PubPoint::is_empty$"], models={r"^Vec::<.*>::is_empty$": m_is_empty})
    res.functions.append("payload::validation::PubPointProcessor::commit with PubPoint::is_empty inlined (MIR): "
                         "payload lists %s" % vec_fields)
    n = 0
    all_empty = z3.And(list(empt.values()))
    for i, p in enumerate(paths):
        if p.kind != "return":
            continue
        n += 1
        pushed = any(e.kind == "call" and re.search(r"::push(_back)?$", e.name) for e in p.events)
        mdl = E.model(p.cond, all_empty if pushed else z3.Not(all_empty))
        if mdl is not None and not pushed:
            which = [f for f in vec_fields if z3.is_false(mdl.eval(empt[fields.index(f)], True))]
            fn = mprop.write_cex(res, "commit_drops_%d" % i, p, E,
                                 "commit() drops the publication point although its %s list is not empty" % "/".join(which), mdl)
            res.violation("mir:dropped:commit-ignores-" + "-".join(which),
                          "an accepted publication point whose only payload is in `%s` is discarded at commit: its valid "
                          "items never reach the served data set" % "/".join(which), fn)
    if n < 2:
        res.inconclusive.append("vacuity: commit paths=%d" % n)
    return n


def run(res, tier):
    run_kani_part(res, KSPEC, tier)
    res.functions.append("payload::validation::RejectedResources::keep_prefix (Kani: kept when nothing is rejected / when only the other address family is rejected; thorough: exact overlap test against one symbolic IPv4 block)")
    E = mprop.engine(res)
    res.extra.setdefault("source_files_sha256", {}).update(
        mprop.source_hashes(["src/engine.rs", "src/payload/validation.rs"]))
    total = 0
    # ---- (i) a bad object neither rejects the point nor stops the loop ------------------------
    body = E.prog.find("src/engine.rs", "PubPoint", "process_object")
    paths = E.explore(body, inline=OBJ_INLINE, max_visits=2, nomut=[r"."])
    res.functions.append("engine::PubPoint::process_object with all per-type handlers inlined (MIR, %d paths)" % len(paths))
    reached = {}
    for i, p in enumerate(paths):
        if p.kind != "return":
            continue
        total += 1
        d = p.ret.get(("disc",))
        v = p.ret.get((("v", "Ok"), ("f", 0)))
        proc = [e for e in p.events if e.kind == "call" and re.search(PROCESSOR, e.name)]
        proc_failed = any(is_err(E, p, e) is not None and must(E, p, is_err(E, p, e)) for e in proc)
        proc_veto = any(re.search(r"want$", e.name) and False for e in proc)
        if d is None:
            res.inconclusive.append("process_object path %d: no result discriminant" % i)
            continue
        if E.feasible(p.cond, d == 1) and not proc_failed:
            fn = mprop.write_cex(res, "object_error_aborts_%d" % i, p, E,
                                 "process_object returns Err although no processor call failed (a bad object aborts the run)")
            res.violation("mir:isolation:object-failure-is-fatal",
                          "an object-level failure is turned into a failure of the whole run", fn)
        if v is not None and mir.is_z(v) and E.feasible(p.cond, z3.And(d == 0, z3.Not(v))):
            fn = mprop.write_cex(res, "object_rejects_point_%d" % i, p, E,
                                 "process_object returns Ok(false): one object makes the whole publication point be rejected")
            res.violation("mir:isolation:object-rejects-point",
                          "a single object causes the rejection of its whole publication point (valid siblings dropped)", fn)
        # liveness: if every validation call on the path succeeded, the processor must have been reached
        val = [e for e in p.events if e.kind == "call" and re.search(
            r"(Roa|Aspa|SignedObject|Cert)::decode$|(Roa|Aspa|SignedObject)::process$|Cert::validate_(router|ca)$|"
            r"check_crl$|check_loop$|CaCert::chain$", e.name)]
        all_ok = val and all(is_ok(E, p, e) is not None and must(E, p, is_ok(E, p, e)) for e in val)
        kinds = [e.name.split("::")[-2] + "::" + e.name.split("::")[-1] for e in val]
        if all_ok:
            last = val[-1].name
            want = None
            if re.search(r"Roa::process$", last):
                want = r"ProcessPubPoint::process_roa$"
            elif re.search(r"Aspa::process$", last):
                want = r"ProcessPubPoint::process_aspa$"
            elif re.search(r"SignedObject::process$", last):
                want = r"ProcessPubPoint::process_gbr$"
            elif re.search(r"check_crl$", last) and any("validate_router" in k for k in kinds):
                want = r"ProcessPubPoint::process_router_cert$"
            elif re.search(r"CaCert::chain$", last):
                want = r"ProcessPubPoint::process_ca$"
            if want:
                reached[want] = reached.get(want, 0) + 1
                if not p.has(want):
                    fn = mprop.write_cex(res, "valid_object_dropped_%d" % i, p, E,
                                         "every validation step succeeded (%s) but %s is never called" % (kinds, want))
                    res.violation("mir:dropped:" + want.split("::")[-1].rstrip("$"),
                                  "a fully valid object is not handed to the processor (%s missing)" % want, fn)
    for w in (r"ProcessPubPoint::process_roa$", r"ProcessPubPoint::process_aspa$", r"ProcessPubPoint::process_router_cert$",
              r"ProcessPubPoint::process_ca$"):
        if not reached.get(w):
            res.inconclusive.append("vacuity: no all-valid path for %s" % w)
    # a valid child CA becomes a task
    for i, p in enumerate(paths):
        pc = [e for e in p.events if e.kind == "call" and re.search(r"ProcessPubPoint::process_ca$", e.name)]
        if pc and p.kind == "return" and ok_some(E, p, pc[-1]) is not None and must(E, p, ok_some(E, p, pc[-1])):
            if not p.has(r"Vec::push$"):
                fn = mprop.write_cex(res, "child_ca_dropped_%d" % i, p, E, "process_ca returned Some but no CA task is queued")
                res.violation("mir:dropped:child-ca-task", "an accepted child CA is not queued for processing", fn)

    # ---- (ii) reject_point / cancel only in the documented cases --------------------------------
    visits = 3
    body = E.prog.find("src/engine.rs", "PubPoint", "process_stored")
    ps = E.explore(body, max_visits=visits, nomut=[r"."])
    res.functions.append("engine::PubPoint::process_stored (MIR, %d paths)" % len(ps))
    n_rej = n_acc = 0
    for i, p in enumerate(ps):
        if p.kind != "return":
            continue
        rej = p.has(r"PubPoint::reject_point$")
        acc = p.has(r"PubPoint::accept_point$")
        if acc:
            n_acc += 1
        if not rej:
            # liveness: a path on which nothing failed must end in accept_point
            d = p.ret.get(("disc",))
            if d is not None and not E.feasible(p.cond, d == 1) and not acc:
                fn = mprop.write_cex(res, "stored_neither_%d" % i, p, E, "process_stored returns Ok without accepting or rejecting the point")
                res.violation("mir:dropped:stored-point-neither-accepted-nor-rejected", "stored publication point silently dropped", fn)
            continue
        n_rej += 1
        total += 1
        mf = [e for e in p.events if e.kind == "call" and re.search(r"StoredPoint::manifest$", e.name)]
        vs = [e for e in p.events if e.kind == "call" and re.search(r"validate_stored_manifest$", e.name)]
        po = [e for e in p.events if e.kind == "call" and re.search(r"PubPoint::process_object$", e.name)]
        nx = [e for e in p.events if e.kind == "call" and re.search(r"Iterator::next$", e.name)]
        cause = []
        if mf and disc_of(E, p, mf[-1]) is not None and must(E, p, disc_of(E, p, mf[-1]) == 0):
            cause.append("no stored manifest")
        if vs and is_err(E, p, vs[-1]) is not None and must(E, p, is_err(E, p, vs[-1])):
            cause.append("stored manifest invalid")
        if po:
            l = po[-1].dest.get(())
            v = mir.peek(E, p.mem, (("o", l.id), ("v", "Ok"), ("f", 0))) if isinstance(l, mir.Opq) else None
            if v is not None and mir.is_z(v) and must(E, p, z3.Not(v)):
                cause.append("processor vetoed the point")
        if nx and p.has(r"is_fatal$"):
            cause.append("unreadable stored object")
        if not cause:
            fn = mprop.write_cex(res, "stored_rejected_%d" % i, p, E, "reject_point reached without a documented cause")
            res.violation("mir:isolation:stored-point-rejected-without-cause",
                          "process_stored rejects the publication point outside the documented cases", fn)
    if n_rej == 0 or n_acc == 0:
        res.inconclusive.append("vacuity: process_stored rejecting=%d accepting=%d" % (n_rej, n_acc))

    body = E.prog.find("src/engine.rs", "PubPoint", "process_collected")
    pc = E.explore(body, max_visits=visits, nomut=[r"."], inline=[r"StoredPoint::update$", r"StoredPoint::_update$", r"UpdateError::fatal$"])
    res.functions.append("engine::PubPoint::process_collected with update/_update/closure inlined (MIR, %d paths)" % len(pc))
    for i, p in enumerate(pc):
        if p.kind != "return":
            continue
        if p.has(r"PubPoint::reject_point$"):
            total += 1
            po = [e for e in p.events if e.kind == "call" and re.search(r"PubPoint::process_object$", e.name)]
            vetoed = False
            for e in po:
                l = e.dest.get(())
                v = mir.peek(E, p.mem, (("o", l.id), ("v", "Ok"), ("f", 0))) if isinstance(l, mir.Opq) else None
                if v is not None and mir.is_z(v) and must(E, p, z3.Not(v)):
                    vetoed = True
            if not vetoed:
                fn = mprop.write_cex(res, "collected_rejected_%d" % i, p, E,
                                     "reject_point after a successful update although no object made process_object return false")
                res.violation("mir:isolation:collected-point-rejected-without-cause",
                              "process_collected rejects a completely fetched publication point without a processor veto", fn)
        # a completed update with point_ok ends in accept_point
        pers = [e for e in p.events if e.kind == "call" and re.search(r"persist$", e.name)]
        if pers and is_ok(E, p, pers[-1]) is not None and must(E, p, is_ok(E, p, pers[-1])):
            d = p.ret.get(("disc",))
            if d is not None and not E.feasible(p.cond, d == 1):
                if not (p.has(r"PubPoint::accept_point$") or p.has(r"PubPoint::reject_point$")):
                    fn = mprop.write_cex(res, "updated_not_accepted_%d" % i, p, E, "update stored but the point is neither accepted nor rejected")
                    res.violation("mir:dropped:updated-point-not-accepted", "a successfully updated point's payload is not committed", fn)
    total += check_commit(res, E)
    res.distinct += total
    res.samples.append({"process_object_paths": len(paths), "all_valid_paths_reaching_processor": reached,
                        "process_stored_rejecting_paths": n_rej, "process_stored_accepting_paths": n_acc})
    res.samples.append({"rule": "object failure => Ok(true) and no reject; reject_point only for: no stored manifest, invalid stored manifest, unreadable stored object, processor veto"})
    res.bounds.append("all paths of process_object (loop-free); process_stored / process_collected object loops unrolled to 2")
    res.assumptions += ["that rpki-rs accepts every object the RFCs call valid is outside the claim",
                        "the 'appears in the served set' half (filters, de-duplication) is C09's subject"]
    res.rule = ("one case = one feasible path of process_object (failure isolation + valid-path liveness) or one "
                "rejecting path of process_stored/process_collected (documented cause); evaluations = z3 queries")
    mprop.finish_engine(res, E)
