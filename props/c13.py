"""C13 Serial-based synchronisation is exact or refused (Kani)."""
from kprop import run_kani_part

SPEC = {
    "groups": ["history"],
    "files": ["src/payload/history.rs", "src/payload/delta.rs"],
    "stubbing": True,
    "harnesses": {
        "quick": ["c13_window_n0", "c13_window_n1", "c13_window_n2", "c13_window_n3", "c13_diff_session"],
        "thorough": ["c13_window_n4"],
    },
    "harness_file": {"*": ("history.rs", "src/payload/history.rs")},
    "timeout": {"quick": 600, "thorough": 3000},
}


def run(res, tier):
    res.functions += [
        "routinator::payload::history::PayloadHistory::{delta_since, serial}",
        "routinator::payload::history::SharedHistory::diff (incl. std RwLock read path)",
        "rpki::rtr::Serial::{partial_cmp, add, eq} (dependency code, real: RFC 1982 arithmetic)",
    ]
    res.stubs.append("PayloadDelta::merge -> returns an empty delta carrying the newer serial "
                     "(merge content is C12's subject; delta_since never inspects it)")
    res.bounds += [
        "history of exactly n retained deltas, n in {0,1,2,3} (quick) and 4 (thorough), with consecutive target "
        "serials base+1..base+n for a fully symbolic 32-bit base (wrap-around included)",
        "client serial: fully symbolic u32; client session (diff): fully symbolic u16; server session symbolic u64",
        "histories with more than 4 retained deltas are outside the bound",
    ]
    res.assumptions += [
        "retained serials are consecutive (established by push_delta/update: C14)",
        "the HTTP /json-delta session comparison is the same u64 equality and is covered by C15's MIR part",
    ]
    res.rule = ("one case = one Kani harness (one retention depth n, all bases and client serials symbolic); "
                "non-trivial = SUCCESSFUL with its cover witnesses (served / refused) SATISFIED; "
                "evaluations = CBMC checks decided")
    run_kani_part(res, SPEC, tier)
