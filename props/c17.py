"""C17 Notify long-poll never waits for a change that already happened (MC: schedules symbolic, step order from MIR)."""
import json
import os
import re

import z3

import mc
import mir
import mprop
from gating import must


def forced_bool(E, p, v):
    if not mir.is_z(v):
        return None
    if must(E, p, v):
        return True
    if must(E, p, z3.Not(v)):
        return False
    return None


def request_seqs(res, E):
    body = [b for n, bs in E.prog.bodies.items() if n.endswith("handle_notify_get_or_head::{closure#0}") for b in bs]
    if len(body) != 1:
        raise LookupError("notify handler coroutine: %d candidates" % len(body))
    body = body[0].parse()
    res.functions.append("routinator::http::delta::handle_notify_get_or_head (async body, coroutine MIR, %d blocks)" % len(body.blocks))
    paths = E.explore(body, max_visits=2, nomut=[r"."])
    seqs = []
    for p in paths:
        if p.kind != "return":
            continue
        names = [e.name for e in p.events if e.kind == "call"]
        if not names or not names[0].endswith("Request::uri"):
            continue            # resume states of the coroutine: covered by the blocking recv below
        d = p.ret.get(("disc",))
        if d is not None and must(E, p, d == 1):
            continue            # Poll::Pending: the request is suspended inside recv
        seq = []
        for e in p.events:
            if e.kind != "call":
                continue
            if re.search(r"(^|::)need_wait$", e.name):
                leaf = e.dest.get(())
                dd = mir.peek(E, p.mem, (("o", leaf.id), "disc")) if isinstance(leaf, mir.Opq) else None
                if dd is not None and must(E, p, dd == 1):
                    seq.append((("check",), "bad"))      # malformed query: answered at once, never taken below
                    break
                v = mir.peek(E, p.mem, (("o", leaf.id), ("v", "Ok"), ("f", 0))) if isinstance(leaf, mir.Opq) else None
                out = forced_bool(E, p, v)
                if out is None:
                    raise mir.Inconclusive("need_wait outcome not forced on a path")
                seq.append((("check",), out))
            elif e.name.endswith("NotifySender::subscribe"):
                seq.append((("subscribe",), None))
            elif e.name.endswith("Future::poll"):
                seq.append((("recv",), None))
            elif e.name.endswith("PayloadHistory::session_and_serial"):
                seq.append((("read_version",), None))
        if seq:
            seqs.append(seq)
    uniq = []
    for s in seqs:
        if s not in uniq:
            uniq.append(s)
    return uniq


def writer_seq(res, E):
    body = E.prog.find("src/operation.rs", "Server", "process_once")
    res.functions.append("routinator::operation::Server::process_once (MIR): order of update / notify")
    paths = E.explore(body, max_visits=2, nomut=[r"."])
    best = None
    for p in paths:
        if p.kind != "return" or not p.has(r"NotifySender::notify$"):
            continue
        seq = []
        for e in p.events:
            if e.kind != "call":
                continue
            if e.name.endswith("SharedHistory::update"):
                seq.append((("install",), None))
            elif e.name.endswith("NotifySender::notify"):
                seq.append((("notify",), None))
        if best is None:
            best = seq
        elif best != seq:
            raise mir.Inconclusive("process_once has notifying paths with different update/notify order")
    if not best:
        raise mir.Inconclusive("process_once has no notifying path")
    return best

def check_every_change_notifies(res, E):
    """a change of the served version reaches the waiting requests: process_once notifies whenever update() reports
    a change, and update() reports a change whenever it pushed a delta (obligation shared with C14)"""
    import c14
    from gating import must
    body = E.prog.find("src/operation.rs", "Server", "process_once")
    n = 0
    for i, p in enumerate(E.explore(body, max_visits=2, nomut=[r"."])):
        if p.kind != "return":
            continue
        upd = [x for x, e in enumerate(p.events) if e.kind == "call" and e.name.endswith("SharedHistory::update")]
        if not upd:
            continue
        n += 1
        flag = p.events[upd[-1]].dest.get(())
        noti = [x for x, e in enumerate(p.events) if e.kind == "call" and e.name.endswith("NotifySender::notify") and x > upd[-1]]
        if mir.is_z(flag) and E.feasible(p.cond, flag) and not noti:
            fn = mprop.write_cex(res, "changed_without_notify_%d" % i, p, E, "update() may report a change on this path, yet no notification is sent")
            res.violation("mir:change-without-notify", "process_once installs a changed data set without notifying the waiting /json-delta/notify requests", fn)
        elif not mir.is_z(flag):
            res.inconclusive.append("process_once: result of SharedHistory::update is not a Boolean the path branches on")
    if not n:
        res.inconclusive.append("vacuity: process_once has no path through SharedHistory::update")
    res.distinct += n
    before = len(res.violations)
    c14.check_update_plumbing(res, E)
    # of the update plumbing only the reported flag matters here (a version change must reach the waiting requests)
    res.violations = res.violations[:before] + [v for v in res.violations[before:] if v["key"] == "mir:update-flag-wrong"]


def check_need_wait_atomic(res, E):
    body = [b for n, bs in E.prog.bodies.items() if re.search(r"(^|::)need_wait$", n) for b in bs]
    if len(body) != 1:
        return
    for p in E.explore(body[0].parse(), max_visits=2, nomut=[r"."]):
        reads = [e for e in p.events if e.kind == "call" and e.name.endswith("SharedHistory::read")]
        if len(reads) > 1:
            res.inconclusive.append("need_wait reads the history more than once: the atomic 'check' step is not justified")


def check_need_wait_spec(res, E):
    """need_wait (the 'check' step of the model) waits exactly when the presented (session, serial) is the served one."""
    body = [b for n, bs in E.prog.bodies.items() if re.search(r"(^|::)need_wait$", n) for b in bs]
    if len(body) != 1:
        res.inconclusive.append("need_wait: %d bodies" % len(body))
        return
    qs, qn = z3.BitVec("presented_session", 64), z3.BitVec("presented_serial", 32)
    hs, hn = z3.BitVec("served_session", 64), z3.BitVec("served_serial", 32)

    def m_query(E_, st, frame, callee, argvals, dest_ty):
        E_.fresh_n += 1
        d = z3.Int("has_version!%d" % E_.fresh_n)
        st.cond.append(z3.Or(d == 0, d == 1))
        return {("disc",): z3.IntVal(0), (("v", "Ok"), ("f", 0), "disc"): d,
                (("v", "Ok"), ("f", 0), ("v", "Some"), ("f", 0), ("f", 0)): qs,
                (("v", "Ok"), ("f", 0), ("v", "Some"), ("f", 0), ("f", 1)): qn}

    def m_sas(E_, st, frame, callee, argvals, dest_ty):
        return {(("f", 0),): hs, (("f", 1),): hn}

    def m_sess(E_, st, frame, callee, argvals, dest_ty):
        return {(): hs}

    def m_ser(E_, st, frame, callee, argvals, dest_ty):
        return {(): hn}

    def m_tuple_cmp(E_, st, frame, callee, argvals, dest_ty):
        a, b = E_._through_ref(st, argvals[0]), E_._through_ref(st, argvals[1])

        def fld(v, i):
            x = v.get((("f", i),))
            return x if x is not None else v.get((("f", i), ("f", 0)))
        pairs = [(fld(a, 0), fld(b, 0)), (fld(a, 1), fld(b, 1))]
        if not all(mir.is_z(x) and mir.is_z(y) and x.sort() == y.sort() for x, y in pairs):
            return NotImplemented
        eq = z3.And([x == y for x, y in pairs])
        return {(): eq if callee.strip().endswith("::eq") else z3.Not(eq)}

    paths = E.explore(body[0].parse(), max_visits=2, nomut=[r"."], models={
        r"(^|::)version_from_query$": m_query, r"PayloadHistory::session_and_serial$": m_sas,
        r"PayloadHistory::session$|PayloadHistory::rtr_session$": m_sess, r"PayloadHistory::serial$": m_ser,
        r"^<\(u64, (rpki::rtr::)?Serial\) as PartialEq>::(eq|ne)$": m_tuple_cmp})
    res.functions.append("http::delta::need_wait (MIR): waits iff the presented version is the served one")
    n = 0
    for i, p in enumerate(paths):
        if p.kind != "return":
            continue
        d = p.ret.get(("disc",))
        v = p.ret.get((("v", "Ok"), ("f", 0)))
        if d is None or not mir.is_z(v) or not E.feasible(p.cond, d == 0):
            continue
        n += 1
        same = z3.And(qs == hs, qn == hn)
        # a wait for a version that is not the served one is the property's violation; not waiting for the served
        # one only costs a round trip and is not claimed
        mdl = E.model(p.cond, z3.And(d == 0, v, z3.Not(same)))
        if mdl is not None:
            fn = mprop.write_cex(res, "need_wait_stale_%d" % i, p, E,
                                 "need_wait returns Ok(true) (block until the next change) for presented (session %s, serial %s) "
                                 "while the served version is (session %s, serial %s)" % (
                                     mdl.eval(qs, True), mdl.eval(qn, True), mdl.eval(hs, True), mdl.eval(hn, True)), mdl)
            res.violation("mir:need-wait-for-outdated-version",
                          "the notify long-poll decides to wait although the presented version differs from the served one "
                          "(the change the client is waiting for has already happened)", fn)
            break
    res.distinct += n
    if n < 2:
        res.inconclusive.append("vacuity: need_wait Ok paths=%d" % n)


def run(res, tier):
    E = mprop.engine(res)
    res.extra.setdefault("source_files_sha256", {}).update(mprop.source_hashes(["src/http/delta.rs", "src/operation.rs"]))
    req = request_seqs(res, E)
    wr = writer_seq(res, E)
    check_need_wait_atomic(res, E)
    check_need_wait_spec(res, E)
    check_every_change_notifies(res, E)
    _, rnodes = mc.build_automaton(req)
    n_writes = 1 if tier == "quick" else 2
    _, wnodes = mc.build_automaton([wr * n_writes])
    res.extra["request_paths"] = [[" ".join(op) + ("=%s" % o if o is not None else "") for op, o in s] for s in req]
    res.extra["writer_ops"] = [" ".join(op) for op, _ in wr] * n_writes
    IV = mc.IV
    init = {"version": IV(0), "notif": IV(0), "sub": IV(0), "subscribed": z3.BoolVal(False),
            "seen_version": IV(0)}

    def sem(node, s, i):
        op = node.op[0]
        en, up, nxt = z3.BoolVal(True), {}, None
        if op == "check":
            t, f = node.next.get(True), node.next.get(False)
            # the client presents version 0 (the version current when it formed the request)
            nxt = z3.If(s["version"] == IV(0), IV(t.id) if t else IV(-2), IV(f.id) if f else IV(-2))
        elif op == "subscribe":
            up["sub"] = s["notif"]
            up["subscribed"] = z3.BoolVal(True)
        elif op == "recv":
            en = z3.And(s["subscribed"], s["notif"] != s["sub"])
        elif op == "read_version":
            up["seen_version"] = s["version"]
        elif op == "install":
            up["version"] = s["version"] + 1
        elif op == "notify":
            up["notif"] = s["notif"] + 1
        return en, up, nxt

    steps = max(len(x) for x in req) + len(wr) * n_writes + 4
    M = mc.GModel([rnodes, wnodes], init, sem, steps, watch=["version", "notif", "sub"])
    # violation: every writer step done, the served version differs from the presented one, and the
    # request is (still) blocked in recv with no pending notification -> it needs a FURTHER change
    bad = lambda s: z3.And(M.at_end(s, 1), s["version"] != IV(0), M.at_op(s, 0, "recv"),
                           z3.Or(z3.Not(s["subscribed"]), s["notif"] == s["sub"]))
    trace = M.check(bad, "blocked-after-change")
    n = 1
    if trace is not None:
        d = os.path.join(mprop.VERIF, "replays", res.prop)
        os.makedirs(d, exist_ok=True)
        fn = os.path.join(d, "notify_blocked_after_change.schedule.json")
        ok, note = native_replay(res)
        with open(fn, "w") as f:
            json.dump({"property": res.prop, "what": "request blocks although the version changed after it arrived",
                       "threads": {"0": "notify request", "1": "validation thread"}, "schedule": trace,
                       "native_replay": note}, f, indent=1)
        if ok is False:
            res.inconclusive.append("MC schedule did not reproduce natively: " + note)
        else:
            res.violation("mc:notify-missed-update",
                          "a /json-delta/notify request checks the version before subscribing: an update installed and "
                          "notified between the two steps is missed and the request waits for a further change%s"
                          % ("; reproduced natively" if ok else ""), fn)
    # vacuity / liveness witnesses
    w1 = M.check(lambda s: z3.And(M.at_end(s, 0), M.at_end(s, 1), s["seen_version"] != IV(0)), "witness-wakeup")
    n += 1
    if w1 is None:
        res.inconclusive.append("vacuity: no schedule in which the request completes with the new version")
    else:
        res.samples.append({"witness_schedule": ["T%d:%s" % (x["thread"], x["op"]) for x in w1]})
    res.samples.append({"request_paths": res.extra["request_paths"], "writer_ops": res.extra["writer_ops"]})
    res.evaluations += M.queries
    res.solver_time += M.solver_time
    res.distinct += n
    res.engines.append("MC: z3 BMC (bit-vector) over the product of the request automaton and the validation thread's step list, both extracted from MIR")
    res.bounds.append("one notify request presenting the version that is current when it is formed, %d data-changing "
                      "validation run(s); every interleaving of the request's steps (version check, subscribe, "
                      "blocking receive, final version read) with install / notify" % n_writes)
    res.assumptions += [
        "NotifySender is a broadcast channel: a receiver sees exactly the notifications sent after subscribe() (tokio broadcast, rpki-rs)",
        "need_wait reads (session, serial) under one read lock (checked); SharedHistory::update changes the serial atomically (C15)",
        "the validation run changes the data (otherwise nothing is notified and nothing is missed)",
    ]
    res.rule = ("one case = one safety query over all schedules (blocked after a change) plus a completion witness; "
                "evaluations = z3 queries")
    mprop.finish_engine(res, E)


def native_replay(res):
    import nativetest
    failed, passed, out = nativetest.run_native_test("native_c17", "c17_native")
    m = re.search(r"C17-NATIVE (.*)", out)
    res.extra.setdefault("native_replays", []).append({"test": "c17_native_missed_update", "failed": failed,
                                                       "observed": m.group(1) if m else None})
    if failed:
        return True, "native: " + (m.group(1) if m else "")
    if passed:
        return False, "native test passed: " + (m.group(1) if m else "")
    return None, "native replay could not be built/run: " + out[-300:]
