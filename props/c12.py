"""C12 Merged deltas equal the direct delta (M engine: bounded symbolic run of the real merge loops, z3)."""
import glob
import os
import re

import z3

import mir
import mprop
from vcommon import REPO

F = "src/payload/delta.rs"
KEYBITS = 32


def rpki_action_order():
    """Variant order of rpki::rtr::payload::Action from the pinned dependency source (Cargo.lock version)."""
    try:
        lock = open(os.path.join(REPO, "Cargo.lock")).read()
        ver = re.search(r'name = "rpki"\nversion = "([^"]+)"', lock).group(1)
        for p in glob.glob(os.path.expanduser("~/.cargo/registry/src/*/rpki-%s/src/rtr/payload.rs" % ver)):
            m = re.search(r"pub enum Action \{(.*?)\n\}", open(p).read(), re.S)
            if m:
                vs = re.findall(r"^\s{4}(\w+),", m.group(1), re.M)
                if sorted(vs) == ["Announce", "Withdraw"]:
                    return vs, "rpki-%s source" % ver
    except Exception:
        pass
    return ["Announce", "Withdraw"], "default"


class Seq:
    """A delta as z3 arrays (index -> field) plus its length, defined from per-key specs."""

    def __init__(self, name, aspa):
        self.name = name
        self.key = z3.Array(name + "_key", z3.IntSort(), z3.BitVecSort(KEYBITS))
        self.act = z3.Array(name + "_act", z3.IntSort(), z3.IntSort())
        self.prov = z3.Array(name + "_prov", z3.IntSort(), z3.BitVecSort(8)) if aspa else None
        self.orig = z3.Array(name + "_orig", z3.IntSort(), z3.BitVecSort(8)) if aspa else None
        self.n = z3.Int(name + "_n")


def spec_delta(solver, seq, pre, post, K, aspa, A):
    """Constrain seq to be the delta construct(pre, post) must produce (per-key case analysis)."""
    pos = z3.IntVal(0)
    for x in range(K):
        a, b = pre[x], post[x]
        if not aspa:
            present = a != b
            act = z3.If(b != 0, z3.IntVal(A["Announce"]), z3.IntVal(A["Withdraw"]))
            solver.add(z3.Implies(present, z3.And(z3.Select(seq.key, pos) == x, z3.Select(seq.act, pos) == act)))
        else:
            present = a != b
            act = z3.If(a == 0, z3.IntVal(A["Announce"]), z3.If(b == 0, z3.IntVal(A["Withdraw"]), z3.IntVal(A["Update"])))
            prov = b                    # Announce / Update carry the new ASPA; Aspa::withdraw() has empty providers (0)
            solver.add(z3.Implies(present, z3.And(
                z3.Select(seq.key, pos) == x, z3.Select(seq.act, pos) == act,
                z3.Select(seq.prov, pos) == prov,
                z3.Implies(a != 0, z3.Select(seq.orig, pos) == a))))
        pos = z3.If(present, pos + 1, pos)
    solver.add(seq.n == pos)


def run_merge(res, E, aspa, K, tag):
    ty = "AspaDelta" if aspa else "StandardDelta"
    body = E.prog.find(F, ty, "merge")
    push = E.prog.find(F, ty, "push")
    res.functions.append("routinator::payload::delta::%s::merge with %s::push inlined (MIR, %d+%d blocks)"
                         % (ty, ty, len(body.blocks), len(push.blocks)))
    fields = mir.struct_fields(ty, F)
    i_items, i_ann, i_wd = fields.index("items"), fields.index("announce_len"), fields.index("withdraw_len")
    if aspa:
        vs = E.prog.enums["AspaAction"]
        A = {v: vs.index(v) for v in vs}
        order = "crate enum AspaAction"
    else:
        vs, order = rpki_action_order()
        A = {v: vs.index(v) for v in vs}
    res.notes.append("%s: action discriminants %s (%s)" % (ty, A, order))
    is_ann = (lambda a: z3.Or(a == A["Announce"], a == A["Update"])) if aspa else (lambda a: a == A["Announce"])
    is_wd = lambda a: a == A["Withdraw"]

    # three consecutive data sets over the keys 0..K-1: 0 = key absent, p > 0 = present (with provider set p)
    hi = 3 if aspa else 1
    sets = [[z3.BitVec("%s_set%s_%d" % (tag, nm, x), 8) for x in range(K)] for nm in "abc"]
    for s_ in sets:
        for v in s_:
            E.solver.add(z3.ULE(v, hi))
    d1, d2, dd = Seq(tag + "_d1", aspa), Seq(tag + "_d2", aspa), Seq(tag + "_direct", aspa)
    spec_delta(E.solver, d1, sets[0], sets[1], K, aspa, A)
    spec_delta(E.solver, d2, sets[1], sets[2], K, aspa, A)
    spec_delta(E.solver, dd, sets[0], sets[2], K, aspa, A)
    side = [d1, d2]
    counter = [0]

    def elem_fields(seq, idx):
        out = {}
        if not aspa:
            out[(("f", 0),)] = z3.Select(seq.key, idx)
            out[(("f", 1), "disc")] = z3.Select(seq.act, idx)
        else:
            out[(("f", 0), ("f", 0))] = z3.Select(seq.key, idx)
            out[(("f", 0), ("f", 1))] = z3.Select(seq.prov, idx)
            out[(("f", 1), "disc")] = z3.Select(seq.act, idx)
            out[(("f", 1), ("v", "Update"), ("f", 0))] = z3.Select(seq.orig, idx)
            out[(("f", 1), ("v", "Withdraw"), ("f", 0))] = z3.Select(seq.orig, idx)
        return out

    def m_default(E_, st, frame, callee, argvals, dest_ty):
        return {(("f", i_items), "len"): z3.IntVal(0),
                (("f", i_ann),): z3.BitVecVal(0, 64), (("f", i_wd),): z3.BitVecVal(0, 64)}

    def m_deref(E_, st, frame, callee, argvals, dest_ty):
        r = argvals[0].get(())
        if not isinstance(r, mir.Ref):
            return NotImplemented
        v = E_.load(st, r.loc)
        if ("w",) not in v:
            return NotImplemented
        w = v[("w",)].as_long()
        return {("w",): v[("w",)], ("s",): z3.IntVal(0), ("n",): side[w].n}

    def m_iter(E_, st, frame, callee, argvals, dest_ty):
        v = argvals[0]
        if ("w",) not in v:
            return NotImplemented
        return {k: v[k] for k in (("w",), ("s",), ("n",))}

    def m_next(E_, st, frame, callee, argvals, dest_ty):
        r = argvals[0].get(())
        if not isinstance(r, mir.Ref):
            return NotImplemented
        cur = E_.load(st, r.loc)
        if ("w",) not in cur:
            return NotImplemented
        s0, n0 = cur[("s",)], cur[("n",)]
        has = n0 > 0
        new = dict(cur)
        new[("s",)] = z3.simplify(z3.If(has, s0 + 1, s0))
        new[("n",)] = z3.simplify(z3.If(has, n0 - 1, n0))
        E_.store(st, r.loc, new)
        counter[0] += 1
        loc = ("ELEM%d" % counter[0],)
        E_.store(st, loc, elem_fields(side[cur[("w",)].as_long()], s0))
        return {("disc",): z3.If(has, z3.IntVal(1), z3.IntVal(0)), (("v", "Some"), ("f", 0)): mir.Ref(loc)}

    def m_cloned(E_, st, frame, callee, argvals, dest_ty):
        v = argvals[0]
        if ("w",) not in v:
            return NotImplemented
        return {k: v[k] for k in (("w",), ("s",), ("n",))}

    def m_key(E_, st, frame, callee, argvals, dest_ty):
        v = E_._through_ref(st, argvals[0])
        k = v.get((("f", 0),))
        if k is None:
            return NotImplemented
        return {(): k}

    def m_vecpush(E_, st, frame, callee, argvals, dest_ty):
        r = argvals[0].get(())
        if not isinstance(r, mir.Ref):
            return NotImplemented
        cur = E_.load(st, r.loc)
        if ("len",) not in cur:
            return NotImplemented
        k = cur[("len",)].as_long()
        new = dict(cur)
        for key, v in argvals[1].items():
            new[(("e", k),) + key] = v
        new[("len",)] = z3.IntVal(k + 1)
        E_.store(st, r.loc, new)
        return {(): mir.Str("()")}

    def m_extend(E_, st, frame, callee, argvals, dest_ty):
        """Delta::extend(iter) == push for every remaining element (extend's own body is checked separately)."""
        r = argvals[0].get(())
        it = argvals[1]
        if not isinstance(r, mir.Ref) or ("w",) not in it:
            return NotImplemented
        cur = E_.load(st, r.loc)
        seq = side[it[("w",)].as_long()]
        s0, n0 = it[("s",)], it[("n",)]
        ann = cur[(("f", i_ann),)]
        wd = cur[(("f", i_wd),)]
        for j in range(K):
            a = z3.Select(seq.act, s0 + j)
            ann = ann + z3.If(z3.And(j < n0, is_ann(a)), z3.BitVecVal(1, 64), z3.BitVecVal(0, 64))
            wd = wd + z3.If(z3.And(j < n0, is_wd(a)), z3.BitVecVal(1, 64), z3.BitVecVal(0, 64))
        new = dict(cur)
        new[(("f", i_ann),)] = ann
        new[(("f", i_wd),)] = wd
        new[(("f", i_items), "tail_w")] = it[("w",)]
        new[(("f", i_items), "tail_s")] = s0
        new[(("f", i_items), "tail_n")] = n0
        E_.store(st, r.loc, new)
        return {(): mir.Str("()")}

    consts = {}
    if not aspa:
        for v in A:
            consts[r"^(const )?rpki::rtr::(payload::)?Action::%s$" % v] = {("disc",): z3.IntVal(A[v])}

    def pre(E_, st, frame):
        for w, a in enumerate(("_1", "_2")):
            loc = ("IN%d" % w,)
            st.mem[loc + (("f", i_items), "w")] = z3.IntVal(w)
            E_.store(st, (frame["id"] + ":" + a,), {(): mir.Ref(loc)})

    paths = E.explore(body, max_visits=2 * K + 3, pre=pre, consts=consts, max_paths=400000,
                      inline=[r"%s(::<.*>)?::push$" % ty],
                      models={
                          r"^<%s(<.*>)? as Default>::default$" % ty: m_default,
                          r"^<Vec<.*> as Deref>::deref$": m_deref,
                          r"^core::slice::<impl \[.*\]>::iter$": m_iter,
                          r"^<std::slice::Iter<.*> as Iterator>::next$": m_next,
                          r"^<std::slice::Iter<.*> as Iterator>::cloned::<": m_cloned,
                          r"Aspa::key$": m_key,
                          r"^Vec::<.*>::push$": m_vecpush,
                          r"%s(::<.*>)?::extend::<" % ty: m_extend,
                      })
    n_ret = 0
    shapes = set()
    reported = set()
    for i, p in enumerate(paths):
        if p.kind == "bound":
            res.inconclusive.append("%s::merge: a feasible path exceeds %d loop iterations with %d keys" % (ty, 2 * K + 3, K))
            continue
        if p.kind != "return":
            if p.kind == "panic" and E.feasible(p.cond):
                fn = mprop.write_cex(res, "%s_panic_%d" % (tag, i), p, E, "merge panics", E.model(p.cond))
                res.violation("mir:merge:%s:panic" % tag, "%s::merge can panic on consecutive deltas" % ty, fn)
            continue
        n_ret += 1
        ret = p.ret
        ln = ret.get((("f", i_items), "len"))
        if ln is None:
            res.inconclusive.append("%s::merge: returned value has no modelled item list" % ty)
            continue
        m = ln.as_long()
        tn = ret.get((("f", i_items), "tail_n"))
        nt = z3.If(tn > 0, tn, z3.IntVal(0)) if tn is not None else z3.IntVal(0)
        good = [m + nt == dd.n]

        def same(out_key, out_act, out_prov, out_orig, idx):
            c = [out_key == z3.Select(dd.key, idx), out_act == z3.Select(dd.act, idx)]
            if aspa:
                c.append(out_prov == z3.Select(dd.prov, idx))
                c.append(z3.Implies(out_act != A["Announce"], out_orig == z3.Select(dd.orig, idx)))
            return z3.And(c)

        shape = []
        for k in range(m):
            base = (("f", i_items), ("e", k))
            if not aspa:
                kk = ret.get(base + (("f", 0),))
                aa = ret.get(base + (("f", 1), "disc"))
                pp = oo = None
            else:
                kk = ret.get(base + (("f", 0), ("f", 0)))
                pp = ret.get(base + (("f", 0), ("f", 1)))
                aa = ret.get(base + (("f", 1), "disc"))
                # the payload of the pushed action: whichever variant is live
                ou = ret.get(base + (("f", 1), ("v", "Update"), ("f", 0)))
                ow = ret.get(base + (("f", 1), ("v", "Withdraw"), ("f", 0)))
                oo = None
                if aa is not None:
                    zero = z3.BitVecVal(0, 8)
                    oo = z3.If(aa == A["Update"], ou if mir.is_z(ou) else zero, ow if mir.is_z(ow) else zero)
                    if not mir.is_z(ou) and E.feasible(p.cond, aa == A["Update"]) or \
                            not mir.is_z(ow) and E.feasible(p.cond, aa == A["Withdraw"]):
                        kk = None       # payload of the live variant unknown to the encoder
            if not all(mir.is_z(v) for v in ([kk, aa] + ([pp] if aspa else []))):
                res.inconclusive.append("%s::merge: pushed element %d on path %d not fully modelled" % (ty, k, i))
                good = None
                break
            good.append(same(kk, aa, pp, oo, z3.IntVal(k)))
            shape.append(str(z3.simplify(aa)))
        if good is None:
            continue
        if tn is not None:
            tw = ret[(("f", i_items), "tail_w")].as_long()
            ts = ret[(("f", i_items), "tail_s")]
            seq = side[tw]
            for j in range(K):
                idx = ts + j
                good.append(z3.Implies(j < nt, same(
                    z3.Select(seq.key, idx), z3.Select(seq.act, idx),
                    z3.Select(seq.prov, idx) if aspa else None, z3.Select(seq.orig, idx) if aspa else None,
                    z3.IntVal(m) + j)))
        # counts equal the listed actions of the direct delta
        ann = z3.BitVecVal(0, 64)
        wd = z3.BitVecVal(0, 64)
        for j in range(K):
            a = z3.Select(dd.act, j)
            ann = ann + z3.If(z3.And(j < dd.n, is_ann(a)), z3.BitVecVal(1, 64), z3.BitVecVal(0, 64))
            wd = wd + z3.If(z3.And(j < dd.n, is_wd(a)), z3.BitVecVal(1, 64), z3.BitVecVal(0, 64))
        ra, rw = ret.get((("f", i_ann),)), ret.get((("f", i_wd),))
        if not (mir.is_z(ra) and mir.is_z(rw)):
            res.inconclusive.append("%s::merge: counters not modelled on path %d" % (ty, i))
            continue
        items_ok = z3.And(good)
        counts_ok = z3.And(ra == ann, rw == wd)
        shapes.add((tuple(shape), tn is not None))
        for what, cond_ok, key in (("lists different actions than the direct delta", items_ok, "items"),
                                   ("has counts that differ from the direct delta's", counts_ok, "counts")):
            if key in reported:
                continue
            mdl = E.model(p.cond, z3.Not(cond_ok))
            if mdl is not None:
                reported.add(key)
                cex = {nm: [mdl.eval(v, model_completion=True).as_long() for v in s_] for nm, s_ in zip("abc", sets)}
                desc = "%s::merge(construct(a,b), construct(b,c)) %s for a=%s b=%s c=%s (per key 0..%d: 0 absent%s)" % (
                    ty, what, cex["a"], cex["b"], cex["c"], K - 1, ", n = provider set n" if aspa else ", 1 present")
                fn = mprop.write_cex(res, "%s_%s_%d" % (tag, key, i), p, E, desc, mdl)
                ok = replay(res, aspa, cex, K)
                if ok is False:
                    res.inconclusive.append("counterexample %s did not reproduce natively" % desc)
                else:
                    res.violation("mir:merge:%s:%s" % (tag, key), desc + ("" if ok else " [native replay unavailable]"), fn)
                break
    res.distinct += len(shapes)
    res.samples.append({"function": ty + "::merge", "keys": K, "returning_paths": n_ret, "distinct_output_shapes": len(shapes)})
    if n_ret < 4:
        res.inconclusive.append("%s::merge: only %d returning paths explored" % (ty, n_ret))


NATIVE_TMPL = """// generated by props/c12.py: native replay of a solver-found triple of data sets
use super::*;
use std::sync::Arc;
use rpki::resources::Asn;

const ASPA: bool = @ASPA@;
const STD: [&[u32]; 3] = [@STD@];
const SETS: [&[(u32, u32)]; 3] = [@SETS@];

fn aspas(set: &[(u32, u32)]) -> Vec<(Aspa, PayloadInfo)> {
    set.iter().map(|(c, p)| (
        Aspa::new(Asn::from_u32(*c), ProviderAsns::try_from_iter([Asn::from_u32(64500 + *p)]).unwrap()),
        PayloadInfo::from(Arc::new(crate::slurm::ExceptionInfo::default()))
    )).collect()
}

#[test]
fn c12_native_merge() {
    let (merged, direct) = if ASPA {
        let s: Vec<_> = SETS.iter().map(|x| aspas(x)).collect();
        let it = |i: usize| s[i].iter().map(|(a, b)| (a, b));
        let d1 = AspaDelta::construct(it(0), it(1));
        let d2 = AspaDelta::construct(it(1), it(2));
        let m = AspaDelta::merge(&d1, &d2);
        let wd = m.items.iter().filter(|i| matches!(i.1, AspaAction::Withdraw(_))).count();
        println!("NATIVE-C12 counters announce_len={} withdraw_len={} listed announce/update={} withdraw={}",
                 m.announce_len, m.withdraw_len, m.items.len() - wd, wd);
        assert!(m.announce_len == m.items.len() - wd && m.withdraw_len == wd, "merged counters differ from the listed actions");
        (format!("{:?}", m), format!("{:?}", AspaDelta::construct(it(0), it(2))))
    }
    else {
        let d1 = StandardDelta::<u32>::construct(STD[0].iter(), STD[1].iter());
        let d2 = StandardDelta::<u32>::construct(STD[1].iter(), STD[2].iter());
        let m = StandardDelta::merge(&d1, &d2);
        let wd = m.items.iter().filter(|i| matches!(i.1, Action::Withdraw)).count();
        println!("NATIVE-C12 counters announce_len={} withdraw_len={} listed announce={} withdraw={}",
                 m.announce_len, m.withdraw_len, m.items.len() - wd, wd);
        assert!(m.announce_len == m.items.len() - wd && m.withdraw_len == wd, "merged counters differ from the listed actions");
        (format!("{:?}", m),
         format!("{:?}", StandardDelta::<u32>::construct(STD[0].iter(), STD[2].iter())))
    };
    println!("NATIVE-C12 merged={} direct={}", merged.replace('\\n', " "), direct.replace('\\n', " "));
    assert_eq!(merged, direct, "merged delta differs from the direct delta");
}
"""


def replay(res, aspa, cex, K):
    """Run the real construct / merge natively on the concrete data sets; True = the mismatch reproduces."""
    import nativetest
    from vcommon import VERIF
    gen = os.path.join(VERIF, "native", "c12_generated.rs")
    std = ", ".join("&[" + ", ".join("%d" % x for x, v in enumerate(cex[nm]) if v) + "]" for nm in "abc")
    sets = ", ".join("&[" + ", ".join("(%d, %d)" % (x, v) for x, v in enumerate(cex[nm]) if v) + "]" for nm in "abc")
    with open(gen, "w") as f:
        f.write(NATIVE_TMPL.replace("@ASPA@", "true" if aspa else "false")
                .replace("@STD@", std if not aspa else "&[], &[], &[]")
                .replace("@SETS@", sets if aspa else "&[], &[], &[]"))
    failed, passed, out = nativetest.run_native_test("native_c12", "c12_native_merge")
    line = [l for l in out.splitlines() if "NATIVE-C12" in l]
    res.notes.append("native replay: " + (" | ".join(line)[:900] if line else "no output: " + out[-400:]))
    if failed:
        return True
    if passed:
        return False
    return None


def check_wrappers(res, E):
    """PayloadDelta::merge merges field by field, old first; extend pushes every element."""
    n = 0
    body = E.prog.find(F, "PayloadDelta", "merge")
    fields = mir.struct_fields("PayloadDelta", F)
    i_serial = fields.index("serial")
    old_serial, new_serial = z3.BitVec("old_serial", 32), z3.BitVec("new_serial", 32)

    def pre(E_, st, frame):
        st.mem[("OLD", ("f", i_serial))] = old_serial
        st.mem[("NEW", ("f", i_serial))] = new_serial

    paths = [p for p in E.explore(body, max_visits=2, pre=pre, arg_values={"_1": {(): mir.Ref(("OLD",))}, "_2": {(): mir.Ref(("NEW",))}})
             if p.kind == "return"]
    seen = []
    for p in paths:
        for e in p.events:
            m = re.search(r"(StandardDelta|AspaDelta)(::<.*>)?::merge$", e.name)
            if e.kind != "call" or not m:
                continue
            locs = []
            for a in e.args[:2]:
                r = a.get(())
                locs.append(r.loc if isinstance(r, mir.Ref) else None)
            seen.append((m.group(1), locs))
    ok = len(paths) == 1 and len(seen) == 3
    used = set()
    for t, locs in seen:
        if None in locs or len(locs[0]) != 2 or len(locs[1]) != 2:
            ok = False
            continue
        # same field of old (_1) and new (_2), old first
        if locs[0][0] != "OLD" or locs[1][0] != "NEW" or locs[0][1] != locs[1][1]:
            ok = False
        else:
            used.add(fields[locs[0][1][1]])
    n += 1
    if not ok or used != {"origins", "router_keys", "aspas"}:
        fn = mprop.write_cex(res, "wrapper", paths[0] if paths else mir.Path(mir.State(), {}, "static"), E,
                             "PayloadDelta::merge does not merge origins, router_keys and aspas field by field (old, new): %s" % (seen,))
        res.violation("mir:merge:wrapper", "PayloadDelta::merge does not merge each payload type's old delta with its new delta", fn)
    # serial of the merged delta is the new delta's
    n += 1
    for p in paths:
        vals = [v for k, v in p.ret.items() if k and k[0] == ("f", i_serial)]
        if not (len(vals) == 1 and mir.is_z(vals[0]) and not E.feasible(p.cond, vals[0] != new_serial)):
            fn = mprop.write_cex(res, "wrapper_serial", p, E, "merged delta's serial is %s, not the newer delta's serial" % (vals,))
            res.violation("mir:merge:serial", "PayloadDelta::merge does not give the merged delta the newer delta's serial", fn)
    for ty in ("StandardDelta", "AspaDelta"):
        b = E.prog.find(F, ty, "extend")
        ps = [p for p in E.explore(b, max_visits=2) if p.kind == "return"]
        n += 1
        calls = [e for p in ps for e in p.events if e.kind == "call"]
        cl = [b2 for nm, bs in E.prog.bodies.items() if nm.endswith("::extend::{closure#0}") and ty in (E.prog.self_type(nm) or "") for b2 in bs]
        good = len(ps) == 1 and len(calls) == 1 and calls[0].name.endswith("Iterator::for_each") and len(cl) == 1
        if good:
            cps = [p for p in E.explore(cl[0].parse(), max_visits=2) if p.kind == "return"]
            ccalls = [e for p in cps for e in p.events if e.kind == "call"]
            good = len(cps) == 1 and len(ccalls) == 1 and ccalls[0].name.endswith(ty + "::push")
        if not good:
            fn = mprop.write_cex(res, "extend_" + ty, ps[0] if ps else mir.Path(mir.State(), {}, "static"), E,
                                 "%s::extend is not `for each item: push(item)`" % ty)
            res.violation("mir:merge:extend:" + ty, "%s::extend does not push every element of its iterator" % ty, fn)
    res.distinct += n


def run(res, tier):
    K = 3 if tier == "quick" else 4
    res.bounds += [
        "three consecutive data sets a, b, c over a universe of %d keys (every subset; for ASPAs every assignment of "
        "absent / provider set 1..3 per key): the real StandardDelta::merge and AspaDelta::merge loops are executed "
        "symbolically (up to %d iterations, push inlined) on d1 = delta(a,b), d2 = delta(b,c) and the result - "
        "items, order, actions, ASPA provider payloads and both counters - is compared with delta(a,c); "
        "more keys per delta are outside the bound" % (K, 2 * K + 3),
        "histories longer than three data sets follow by folding: merge's output satisfies the same delta(a,c) "
        "specification its inputs are assumed to satisfy (one inductive step over the history)",
    ]
    res.assumptions += [
        "input deltas are what construct must produce for consecutive sets (the per-key specification that C11 "
        "checks construct against; for AspaDelta the specification is read off AspaDelta::construct: Announce / "
        "Update(old providers) / Withdraw(old providers) with Aspa::withdraw() carrying no providers)",
        "slice::Iter::next / Vec::push / Vec deref / Iterator::cloned replaced by sequence models (z3 arrays); "
        "Delta::extend replaced by 'push every remaining element' after checking its body is for_each(push)",
        "P::cmp is the integer order on keys (any total order behaves the same in a merge-join); ProviderAsns "
        "equality is equality of provider-set ids",
    ]
    res.outside += ["SharedHistory's use of merge (C13)", "the fuzz targets"]
    res.rule = ("one case = one feasible path through the merge loop (a sequence of per-key cases) for which z3 "
                "proves the output equals the direct delta for every data-set triple driving that path; "
                "non-trivial = distinct output shapes (action sequence, tail)")
    E = mprop.engine(res)
    run_merge(res, E, False, K, "std")
    mprop.finish_engine(res, E)
    E = mprop.engine(res)
    run_merge(res, E, True, K, "aspa")
    mprop.finish_engine(res, E)
    E = mprop.engine(res)
    check_wrappers(res, E)
    mprop.finish_engine(res, E)
