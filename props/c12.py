"""C12 Merged deltas equal the direct delta (Kani)."""
from kprop import run_kani_part

SPEC = {
    "groups": ["delta"],
    "files": ["src/payload/delta.rs"],
    "harnesses": {
        "quick": ["c12_counts_1_1_1", "c12_counts_1_0_1", "c12_counts_0_1_0"],
        "thorough": ["c12_counts_2_1_2", "c12_counts_1_2_1", "c12_counts_2_2_2", "c12_items_1_1_1", "c12_items_1_0_1", "c12_items_0_1_0", "c12_items_2_1_2"],
    },
    "harness_file": {"*": ("delta.rs", "src/payload/delta.rs")},
    "timeout": {"quick": 900, "thorough": 7200},
    "jobs": {"quick": 3, "thorough": 6},
}


def run(res, tier):
    res.functions += ["routinator::payload::delta::StandardDelta::<u8>::{merge, construct}"]
    res.bounds += [
        "three consecutive data sets a, b, c of sizes (1,1,1) (1,0,1) (0,1,0) (quick) and (2,1,2) (1,2,1) (2,2,2) "
        "(thorough) with fully symbolic contents: merge(construct(a,b), construct(b,c)) is compared item by item, "
        "action by action and count by count with construct(a,c); longer histories follow by folding (argued)",
    ]
    res.assumptions += ["construct is correct (C11)"]
    res.outside += ["AspaDelta::merge's provider change-and-change-back table (not covered by a harness)"]
    res.rule = ("one case = one Kani harness (one triple of set sizes); non-trivial = SUCCESSFUL with a cover "
                "witness; evaluations = CBMC checks")
    run_kani_part(res, SPEC, tier)
