"""C09 Served data set is the documented composition of validated payload (M engine)."""
import re

import z3

import mir
import mprop
from gating import disc_of, must, is_true, is_false


def iterations(evs, next_pat=r"Iterator::next$"):
    """Split a path's events into loop iterations at Iterator::next calls."""
    idx = [i for i, e in enumerate(evs) if e.kind == "call" and re.search(next_pat, e.name)]
    out = []
    for k, i in enumerate(idx):
        j = idx[k + 1] if k + 1 < len(idx) else len(evs)
        out.append((evs[i], evs[i + 1:j]))
    return out


def run(res, tier):
    E = mprop.engine(res)
    res.extra.setdefault("source_files_sha256", {}).update(
        mprop.source_hashes(["src/payload/validation.rs", "src/slurm.rs", "src/payload/snapshot.rs"]))
    F = "src/payload/validation.rs"
    FP = E.prog.enums["FilterPolicy"]
    REJ = FP.index("Reject")
    total = 0
    sb = mir.struct_fields("SnapshotBuilder", F)
    selfp = mir.Opq("&mut SnapshotBuilder", "self")
    policy = z3.Int("unsafe_vrps_policy")
    E.fact("unsafe_policy_dom", z3.And(policy >= 0, policy < len(FP)))

    def pre(E_, st, frame):
        st.mem[(("o", selfp.id), "deref", ("f", sb.index("unsafe_vrps")), "disc")] = policy

    # ---- process_origin ------------------------------------------------------------------------
    body = E.prog.find(F, "SnapshotBuilder", "process_origin")
    res.functions.append("SnapshotBuilder::process_origin (MIR, %d blocks)" % len(body.blocks))
    paths = E.explore(body, max_visits=2, arg_values={"_1": {(): selfp}}, pre=pre, nomut=[r"."],
                      noop=[r"AllVrpMetrics::update", r"VrpMetrics"])
    seen = {"in": 0, "out": 0}
    for i, p in enumerate(paths):
        if p.kind != "return":
            continue
        total += 1
        keep = [e for e in p.events if e.kind == "call" and re.search(r"RejectedResources::keep_prefix$", e.name)]
        drop = [e for e in p.events if e.kind == "call" and re.search(r"LocalExceptions::drop_origin$", e.name)]
        ins = [e for e in p.events if e.kind == "call" and re.search(r"HashMap::<.*>::entry$|HashMap::entry$", e.name)]
        if not keep:
            fn = mprop.write_cex(res, "origin_no_unsafe_test_%d" % i, p, E, "process_origin does not consult the rejected resources")
            res.violation("mir:compose:origin-unsafe-filter-missing", "published origins are not tested against rejected CAs' resources", fn)
            continue
        k = keep[-1].dest.get(())
        unsafe_rejected = z3.And(z3.Not(k), policy == REJ)
        if ins:
            seen["in"] += 1
            if len(ins) > 1:
                fn = mprop.write_cex(res, "origin_twice_%d" % i, p, E, "an origin is entered twice")
                res.violation("mir:compose:origin-inserted-twice", "one published origin is inserted more than once", fn)
            m = E.model(p.cond, unsafe_rejected)
            if m is not None:
                fn = mprop.write_cex(res, "unsafe_origin_served_%d" % i, p, E, "origin overlapping rejected resources is inserted under policy reject", m)
                res.violation("mir:compose:unsafe-origin-served-under-reject", "an unsafe VRP is served although unsafe-vrps = reject", fn)
            if not drop or not mir.is_z(drop[-1].dest.get(())) or E.feasible(p.cond, drop[-1].dest.get(())):
                fn = mprop.write_cex(res, "filtered_origin_served_%d" % i, p, E, "origin inserted although the SLURM filter matched / was not consulted")
                res.violation("mir:compose:slurm-filtered-origin-served", "a SLURM-filtered origin is served", fn)
        else:
            seen["out"] += 1
            # dropped: must be justified by (unsafe & reject) or SLURM filter
            just = [unsafe_rejected]
            if drop and mir.is_z(drop[-1].dest.get(())):
                just.append(drop[-1].dest.get(()))
            m = E.model(p.cond, z3.Not(z3.Or(just)))
            if m is not None:
                pol = FP[m.eval(policy, True).as_long()]
                fn = mprop.write_cex(res, "origin_dropped_%d" % i, p, E,
                                     "origin dropped although not (unsafe and reject) and not SLURM-filtered (policy %s)" % pol, m)
                res.violation("mir:compose:origin-dropped-without-filter:" + pol,
                              "a published origin is dropped although no documented filter applies (unsafe policy %s)" % pol, fn)
    if not seen["in"] or not seen["out"]:
        res.inconclusive.append("vacuity: process_origin inserting=%d dropping=%d" % (seen["in"], seen["out"]))

    # ---- process_key: per-ASN loop --------------------------------------------------------------
    body = E.prog.find(F, "SnapshotBuilder", "process_key")
    res.functions.append("SnapshotBuilder::process_key (MIR, %d blocks)" % len(body.blocks))
    visits = 3 if tier == "quick" else 4
    paths = E.explore(body, max_visits=visits, arg_values={"_1": {(): selfp}}, nomut=[r"."],
                      noop=[r"AllVrpMetrics::update"])
    n_iter = 0
    for i, p in enumerate(paths):
        if p.kind != "return":
            continue
        its = iterations(p.events)
        if not its:
            continue
        # the function may only return once the ASN iterator is exhausted
        last_next, _ = its[-1]
        d = disc_of(E, p, last_next)
        if d is None or not must(E, p, d == 0):
            fn = mprop.write_cex(res, "key_loop_exit_%d" % i, p, E,
                                 "process_key returns before the router key's ASN list is exhausted (remaining ASNs are dropped)")
            res.violation("mir:compose:router-key-loop-exits-early",
                          "after one ASN of a router key is handled the remaining ASNs are silently dropped", fn)
        for nx, evs in its[:-1]:
            n_iter += 1
            drop = [e for e in evs if e.kind == "call" and re.search(r"LocalExceptions::drop_router_key$", e.name)]
            ins = [e for e in evs if e.kind == "call" and re.search(r"HashMap::<.*>::entry$|HashMap::entry$", e.name)]
            if not drop:
                fn = mprop.write_cex(res, "key_no_filter_%d" % i, p, E, "router key not tested against SLURM filters")
                res.violation("mir:compose:router-key-filter-missing", "router keys bypass the SLURM filters", fn)
                continue
            dv = drop[-1].dest.get(())
            if ins and (not mir.is_z(dv) or E.feasible(p.cond, dv)):
                fn = mprop.write_cex(res, "filtered_key_served_%d" % i, p, E, "router key inserted although filtered")
                res.violation("mir:compose:slurm-filtered-key-served", "a SLURM-filtered router key is served", fn)
            if not ins and (not mir.is_z(dv) or E.feasible(p.cond, z3.Not(dv))):
                fn = mprop.write_cex(res, "key_dropped_%d" % i, p, E, "router key for one ASN neither filtered nor inserted")
                res.violation("mir:compose:router-key-dropped-without-filter", "a router key is dropped although no filter applies", fn)
    total += n_iter
    if n_iter == 0:
        res.inconclusive.append("vacuity: process_key loop never iterates")

    # ---- process_aspa: merge per customer -----------------------------------------------------------
    body = E.prog.find(F, "SnapshotBuilder", "process_aspa")
    paths = E.explore(body, max_visits=2, arg_values={"_1": {(): selfp}}, nomut=[r"."], noop=[r"AllVrpMetrics::update"])
    res.functions.append("SnapshotBuilder::{process_aspa, process_pub_point, insert_assertions, into_snapshot closure} (MIR)")
    kinds = set()
    for i, p in enumerate(paths):
        if p.kind != "return":
            continue
        total += 1
        if not p.has(r"HashMap::<.*>::entry$|HashMap::entry$"):
            fn = mprop.write_cex(res, "aspa_dropped_%d" % i, p, E, "ASPA neither inserted nor merged")
            res.violation("mir:compose:aspa-dropped", "a published ASPA is dropped by the snapshot builder", fn)
        if p.has(r"SmallAsnSet::union$"):
            kinds.add("merge")
            if not p.has(r"collect"):
                fn = mprop.write_cex(res, "aspa_union_unused_%d" % i, p, E, "provider union computed but not stored")
                res.violation("mir:compose:aspa-union-not-stored", "providers of a repeated customer are not merged", fn)
        if p.has(r"VacantEntry.*::insert$|::insert$"):
            kinds.add("insert")
    if kinds != {"merge", "insert"}:
        res.violation("mir:compose:aspa-merge-missing", "process_aspa lacks the insert / merge-by-union arms (%s)" % sorted(kinds),
                      mprop.write_cex(res, "aspa_arms", paths[0], E, "arms found: %s" % sorted(kinds)))

    # ---- process_pub_point hands every list to its handler ----------------------------------------------
    body = E.prog.find(F, "SnapshotBuilder", "process_pub_point")
    paths = E.explore(body, max_visits=2, nomut=[r"."])
    handlers = set()
    for nm in ("process_origin", "process_key", "process_aspa"):
        for k in range(3):
            try:
                cb = E.prog.find(F, "SnapshotBuilder", "process_pub_point", closure=k)
            except LookupError:
                continue
            for cp in E.explore(cb, max_visits=2, nomut=[r"."]):
                for e in cp.events:
                    m = re.search(r"SnapshotBuilder::(process_origin|process_key|process_aspa)$", e.name)
                    if m and e.kind == "call":
                        handlers.add(m.group(1))
    n_foreach = max((sum(1 for e in p.events if e.kind == "call" and re.search(r"for_each", e.name)) for p in paths if p.kind == "return"), default=0)
    total += 1
    if handlers != {"process_origin", "process_key", "process_aspa"} or n_foreach < 3:
        res.violation("mir:compose:pub-point-list-not-processed",
                      "process_pub_point does not hand all three payload lists to their handlers (handlers %s, for_each calls %d)" % (sorted(handlers), n_foreach),
                      mprop.write_cex(res, "pub_point_lists", paths[0], E, "handlers %s for_each %d" % (sorted(handlers), n_foreach)))
    if not any(p.has(r"SnapshotBuilder::update_refresh$") for p in paths):
        res.violation("mir:compose:pub-point-refresh-ignored", "process_pub_point ignores the point's refresh time",
                      mprop.write_cex(res, "pub_point_refresh", paths[0], E, "no update_refresh"))

    # ---- too large ASPA dropped, others kept -----------------------------------------------------------------
    cb = E.prog.find(F, "SnapshotBuilder", "into_snapshot", closure=0)
    for i, p in enumerate(E.explore(cb, max_visits=2, nomut=[r"."])):
        if p.kind != "return":
            continue
        t = [e for e in p.events if e.kind == "call" and re.search(r"ProviderAsns::try_from_iter", e.name)]
        d = p.ret.get(("disc",))
        if not t or d is None:
            continue
        total += 1
        td = disc_of(E, p, t[-1])
        if td is not None and must(E, p, td == 0) and not must(E, p, d == 1):
            fn = mprop.write_cex(res, "encodable_aspa_dropped_%d" % i, p, E, "an encodable ASPA is dropped")
            res.violation("mir:compose:encodable-aspa-dropped", "an ASPA whose provider set is encodable is dropped", fn)
        if td is not None and must(E, p, td == 1) and not must(E, p, d == 0):
            fn = mprop.write_cex(res, "oversized_aspa_kept_%d" % i, p, E, "an ASPA too large to encode is kept")
            res.violation("mir:compose:oversized-aspa-kept", "an ASPA too large to encode is not dropped", fn)

    # ---- prefix-length limits in PubPoint::add_roa ------------------------------------------------------------------
    body = E.prog.find(F, "PubPoint", "add_roa")
    res.functions.append("payload::validation::PubPoint::add_roa (MIR, %d blocks)" % len(body.blocks))
    lim4 = (z3.Int("limit_v4_disc"), z3.BitVec("limit_v4", 8))
    lim6 = (z3.Int("limit_v6_disc"), z3.BitVec("limit_v6", 8))
    E.solver.add(z3.And(lim4[0] >= 0, lim4[0] <= 1, lim6[0] >= 0, lim6[0] <= 1))
    av = {"_4": {("disc",): lim4[0], (("v", "Some"), ("f", 0)): lim4[1]},
          "_5": {("disc",): lim6[0], (("v", "Some"), ("f", 0)): lim6[1]}}
    paths = E.explore(body, max_visits=visits, nomut=[r"."], arg_values=av, pure=[r"Prefix::is_v4$", r"Prefix::len$"])
    n_roa = 0
    native_done = {}
    for i, p in enumerate(paths):
        if p.kind != "return":
            continue
        its = iterations(p.events)
        if not its:
            continue
        d = disc_of(E, p, its[-1][0])
        if d is None or not must(E, p, d == 0):
            fn = mprop.write_cex(res, "add_roa_exit_%d" % i, p, E, "add_roa returns before all origins of the ROA were handled")
            res.violation("mir:compose:roa-loop-exits-early", "after one over-long prefix the ROA's remaining origins are dropped", fn)
        for nx, evs in its[:-1]:
            n_roa += 1
            v4 = [e for e in evs if re.search(r"Prefix::is_v4$", e.name)]
            ln = [e for e in evs if re.search(r"Prefix::len$", e.name)]
            pushed = any(e.kind == "call" and re.search(r"Vec::<.*>::push$|Vec::push$", e.name) for e in evs)
            if not v4:
                # the origin's family is not consulted in this iteration: it is a free Boolean (both families can
                # occur here unless other calls on the path say otherwise - hence the native replay below)
                isv4 = z3.Bool("origin_family_v4_%d_%d" % (i, n_roa))
                family_free = True
            else:
                isv4 = v4[-1].dest.get(())
                family_free = False
            if ln and mir.is_z(ln[-1].dest.get(())):
                L = ln[-1].dest.get(())
                too_long = z3.Or(z3.And(isv4, lim4[0] == 1, z3.UGT(L, lim4[1])),
                                 z3.And(z3.Not(isv4), lim6[0] == 1, z3.UGT(L, lim6[1])))
            else:
                # the length was never read: legal only when the applicable limit is None
                too_long = z3.BoolVal(False)
                if E.feasible(p.cond, z3.Or(z3.And(isv4, lim4[0] == 1), z3.And(z3.Not(isv4), lim6[0] == 1))):
                    too_long = None
            if too_long is None and family_free:
                too_long = z3.BoolVal(False)      # decided together with the family-free candidate below
            if too_long is None:
                fn = mprop.write_cex(res, "add_roa_limit_unread_%d" % i, p, E, "prefix length not compared although a limit is configured")
                res.violation("mir:compose:length-limit-not-applied", "the prefix-length limit is not applied to an origin", fn)
                continue
            m = E.model(p.cond, too_long) if pushed else E.model(p.cond, z3.Not(too_long))
            if m is not None and family_free:
                if "family_free" not in native_done:
                    import nativetest
                    native_done["family_free"] = nativetest.run_native_test("native_c09", "c09_native_limits_per_family")
                    res.evaluations += 1
                failed, passed, out = native_done["family_free"]
                what = ("the limit applied to an origin does not depend on that origin's address family: "
                        + ("an origin longer than its family's limit is kept" if pushed else "an origin within its family's limit is dropped"))
                if failed:
                    if "reported" not in native_done:
                        native_done["reported"] = True
                        fn = mprop.write_cex(res, "add_roa_limit_family_%d" % i, p, E, what + "\n\nnative replay (mixed-family ROA content through the real add_roa):\n" + out[-3000:], m)
                        res.violation("mir:compose:length-limit-wrong-family", "prefix-length limit: " + what + "; reproduced natively with a ROA carrying both families", fn)
                elif "noted" not in native_done:
                    native_done["noted"] = True
                    res.inconclusive.append("add_roa does not consult the origin's family per origin; candidate (%s) did not reproduce natively" % what)
            elif m is not None:
                what = "origin longer than the limit is kept" if pushed else "origin within the limit is dropped"
                fn = mprop.write_cex(res, "add_roa_limit_%d" % i, p, E, what, m)
                res.violation("mir:compose:length-limit-wrong:" + ("kept" if pushed else "dropped"), "prefix-length limit: " + what, fn)
    total += n_roa
    if n_roa == 0:
        res.inconclusive.append("vacuity: add_roa never iterates")

    # ---- router keys / ASPAs only when enabled ----------------------------------------------------------------------------
    rep = mir.struct_fields("ValidationReport", F)
    for meth, flag, add in (("process_router_cert", "enable_bgpsec", r"PubPoint::add_router_key$"),
                            ("process_aspa", "enable_aspa", r"PubPoint::add_aspa$")):
        body = E.prog.find(F, "PubPointProcessor", meth, trait="ProcessPubPoint")
        sp = mir.Opq("&mut PubPointProcessor", "self")
        rp = mir.Opq("&ValidationReport", "report")
        en = z3.Bool(flag)
        ppf = mir.struct_fields("PubPointProcessor", F)

        def pre2(E_, st, frame, sp=sp, rp=rp, en=en, flag=flag):
            st.mem[(("o", sp.id), "deref", ("f", ppf.index("report")))] = rp
            st.mem[(("o", rp.id), "deref", ("f", rep.index(flag)))] = en
        for i, p in enumerate(E.explore(body, max_visits=2, nomut=[r"."], arg_values={"_1": {(): sp}}, pre=pre2)):
            if p.kind != "return":
                continue
            total += 1
            if p.has(add) and E.feasible(p.cond, z3.Not(en)):
                fn = mprop.write_cex(res, "%s_disabled_%d" % (meth, i), p, E, "%s adds payload although %s is off" % (meth, flag))
                res.violation("mir:compose:%s-ignored" % flag, "%s payload is collected although %s is disabled" % (meth, flag), fn)
    res.distinct += total
    res.samples.append({"process_origin": seen, "process_key_iterations": n_iter, "add_roa_iterations": n_roa,
                        "pub_point_handlers": sorted(handlers)})
    res.samples.append({"rule": "origin served iff not(unsafe and reject) and not SLURM-filtered; router key per ASN served iff not filtered, loop runs to exhaustion; ASPA merged by union; over-long prefixes skipped per family limit"})
    res.bounds.append("all paths of each builder function; loops over ASNs / ROA origins unrolled to %d iterations" % (visits - 1))
    res.assumptions += [
        "HashMap's entry API keeps one value per key (each distinct item once); PayloadCollection::from_iter sorts",
        "RejectedResources::keep_prefix (C08), LocalExceptions::drop_* (SLURM matching) and SmallAsnSet::union are opaque here",
        "ProviderAsns::try_from_iter fails exactly when the set is too large to encode (rpki-rs)",
    ]
    res.outside += ["SLURM matching semantics inside drop_origin/drop_router_key; ASPA assertions are not implemented upstream (XXX)"]
    res.rule = ("one case = one returning path (process_origin, process_aspa, processors) or one loop iteration "
                "(process_key per ASN, add_roa per origin); z3 decides whether the insert/skip decision can disagree "
                "with the documented filter; evaluations = z3 queries")
    import argslice
    for nm, fl in (("limit_v4_len", "--limit-v4-len"), ("limit_v6_len", "--limit-v6-len")):
        argslice.check_cli_number(res, E, mprop, nm, fl, True, "VRPs are then filtered against another prefix length than the operator gave")
    for nm, fl in (("enable_bgpsec", "--enable-bgpsec"), ("enable_aspa", "--enable-aspa")):
        argslice.check_cli_flag(res, E, mprop, nm, fl, "router keys / ASPAs are then served or withheld against the operator's setting")
    mprop.finish_engine(res, E)
