"""C37 Each repository is fetched at most once per run (MC: schedules symbolic, step order from MIR)."""
import re

import z3

import mir
import mc
import mprop


def forced(E, p, expr):
    if not E.feasible(p.cond, z3.Not(expr)):
        return True
    if not E.feasible(p.cond, expr):
        return False
    return None


def extract(E, p, self_id, field_names, fetch_pat):
    """Visible-operation sequence [(op, outcome)] of one MIR path."""
    seq = []
    guards = {}     # guard leaf id -> unlock op
    held = []       # stack of (kind, lock)
    for e in p.events:
        nm = e.name
        if e.kind == "drop":
            leaf = e.args[0].get(()) if e.args else None
            if isinstance(leaf, mir.Opq) and leaf.id in guards:
                op = guards.pop(leaf.id)
                seq.append((op, None))
                if op[0].startswith("rw_unlock"):
                    held = [h for h in held if h[1] != op[1]]
            continue
        if e.kind not in ("call", "pure"):
            continue
        m = re.search(r"RwLock::(read|write)$", nm)
        if m:
            a = e.args[0].get(())
            lock = None
            if isinstance(a, mir.Ref) and len(a.loc) >= 3 and a.loc[0] == ("o", self_id) and a.loc[1] == "deref":
                lock = field_names[a.loc[2][1]]
            if lock is None:
                raise mir.Inconclusive("cannot identify rwlock at %s" % (e.where,))
            kind = "rw_" + m.group(1)
            seq.append(((kind, lock), None))
            leaf = e.dest.get(())
            guards[leaf.id] = ("rw_unlock_" + m.group(1), lock)
            held.append((m.group(1), lock))
            continue
        if re.search(r"Mutex::lock$", nm):
            a = e.args[0].get(())
            leaf = e.dest.get(())
            if isinstance(a, mir.Ref) and a.loc[0] == ("o", self_id):
                seq.append((("named_lock",), None))
                guards[leaf.id] = ("named_unlock",)
            else:
                seq.append((("mutex_lock",), None))
                guards[leaf.id] = ("mutex_unlock",)
            continue
        if re.search(r"HashSet::contains$|HashMap::get$|HashMap::contains_key$", nm):
            if held and held[-1][1] == "running":
                # look-up of the per-key mutex without creating it
                r = e.dest.get(())
                d = mir.peek(E, p.mem, (("o", r.id), "disc")) if isinstance(r, mir.Opq) else (e.dest.get(("disc",)) if e.dest else None)
                out = forced(E, p, d == 1) if d is not None else (forced(E, p, r) if mir.is_z(r) else None)
                if out is None:
                    raise mir.Inconclusive("outcome of the look-up in `running` not forced at %s" % (e.where,))
                seq.append((("observe_running",), out))
                continue
            if not held or held[-1][1] != "updated":
                raise mir.Inconclusive("membership test outside the `updated` lock at %s" % (e.where,))
            r = e.dest.get(())
            if mir.is_z(r):
                out = forced(E, p, r)
            else:
                d = mir.peek(E, p.mem, (("o", r.id), "disc")) if isinstance(r, mir.Opq) else None
                out = forced(E, p, d == 1) if d is not None else None
            if out is None:
                raise mir.Inconclusive("membership outcome not forced at %s" % (e.where,))
            seq.append((("observe_member",), out))
            continue
        if re.search(r"Entry::or_default$", nm):
            if not held or held[-1] != ("write", "running"):
                raise mir.Inconclusive("entry().or_default() outside running.write() at %s" % (e.where,))
            seq.append((("entry_or_default",), None))
            continue
        if re.search(r"HashMap::remove$", nm):
            if not held or held[-1] != ("write", "running"):
                raise mir.Inconclusive("remove outside running.write()")
            seq.append((("map_remove",), None))
            continue
        if re.search(r"HashSet::insert$|HashMap::insert$", nm):
            if held and held[-1] == ("write", "running"):
                seq.append((("running_insert",), None))
                continue
            if not held or held[-1] != ("write", "updated"):
                raise mir.Inconclusive("insert outside updated.write()")
            seq.append((("member_insert",), None))
            continue
        if re.search(fetch_pat, nm):
            seq.append((("fetch_begin",), None))
            seq.append((("fetch_end",), None))
            continue
    # guards not dropped explicitly (moved out) are ignored
    return seq


def _compressible(seq, i):
    op = seq[i][0]
    if i + 2 >= len(seq):
        return False
    mid, end = seq[i + 1], seq[i + 2]
    return (end[0][0] in ("rw_unlock_read", "rw_unlock_write") and end[0][1] == op[1]
            and mid[0][0] not in ("rw_read", "rw_write", "mutex_lock", "named_lock", "fetch_begin"))


def non_compressible_sections(seqs):
    """Raw prefixes (program points) at which SOME path holds its guard across more than one operation."""
    bad = set()
    for seq in seqs:
        for i, (op, oc) in enumerate(seq):
            if op[0] in ("rw_read", "rw_write") and not _compressible(seq, i):
                bad.add(tuple(x[0] for x in seq[:i + 1]))
    return bad


def compress(seq, bad=frozenset()):
    """A guarded section that contains exactly one data operation is one atomic step (the guard makes it
    atomic with respect to every other section of the same lock); sections holding more than one visible
    operation keep their explicit lock / unlock steps.  The metrics mutex protects data no property reads."""
    out = []
    i = 0
    while i < len(seq):
        op, oc = seq[i]
        if op[0] in ("rw_read", "rw_write") and _compressible(seq, i) \
                and tuple(x[0] for x in seq[:i + 1]) not in bad:
            out.append(seq[i + 1])
            i += 3
            continue
        if op[0] == "named_lock":
            j = i + 1
            while j < len(seq) and seq[j][0][0] != "named_unlock":
                j += 1
            if all(x[0][0] not in ("fetch_begin", "member_insert", "map_remove", "entry_or_default", "observe_member",
                                   "observe_running", "running_insert",
                                   "mutex_lock", "rw_read", "rw_write") for x in seq[i + 1:j]):
                i = j + 1
                continue
        out.append((op, oc))
        i += 1
    return out


def check_transport(res, E, label, file, method, fetch_pat, exclude_pat, threads, result_is_result):
    body = E.prog.find(file, "Run", method)
    fields = mir.struct_fields("Run", file)
    selfp = mir.Opq("&Run", "self")
    paths = E.explore(body, max_visits=2, nomut=[r"."], keep_drop_events=True, arg_values={"_1": {(): selfp}})
    res.functions.append("%s::Run::%s (MIR, %d blocks, %d paths)" % (label, method, len(body.blocks), len(paths)))
    seqs = []
    for p in paths:
        if p.kind != "return":
            continue
        if exclude_pat and any(e.kind == "call" and re.search(exclude_pat, e.name) for e in p.events):
            # dubious-host path: no fetch by design (C31)
            dub = [e for e in p.events if e.kind == "call" and re.search(r"has_dubious_authority$", e.name)]
            if dub and mir.is_z(dub[-1].dest.get(())) and forced(E, p, dub[-1].dest.get(())) is True:
                continue
        if result_is_result:
            d = p.ret.get(("disc",))
            if d is not None and forced(E, p, d == 1) is True:
                continue        # Err: the run fails as a whole
        s = extract(E, p, selfp.id, fields, fetch_pat)
        if s:
            seqs.append(s)
    bad = non_compressible_sections(seqs)
    seqs = [compress(x, bad) for x in seqs]
    # de-duplicate
    uniq = []
    for s in seqs:
        if s not in uniq:
            uniq.append(s)
    uniq = mc.label_divergences(uniq)
    n_choice = len({op for s in uniq for op, _ in s if op[0] == "choice"})
    if n_choice:
        res.notes.append("%s: %d branch(es) not decided by a modelled operation are environment choices in the automaton" % (label, n_choice))
    root, nodes = mc.build_automaton(uniq)
    maxlen = max(len(s) for s in uniq) + 1
    steps = threads * maxlen
    M = mc.Model(nodes, threads, steps, ["updated", "running"])
    M.unroll()
    res.extra.setdefault("automaton", {})[label] = {
        "paths": len(uniq), "nodes": len(nodes), "longest": [" ".join(map(str, op)) + ("=%s" % o if o is not None else "") for op, o in max(uniq, key=len)]}
    checks = [
        ("fetched-twice", lambda s: z3.UGE(s["fetch_count"], mc.IV(2)),
         "%s: the same module/repository is fetched twice in one run" % label),
        ("return-during-fetch", lambda s: s["ret_during_fetch"],
         "%s: a user returns (and goes on to read the data) while the fetch is still in progress" % label),
        ("return-before-marked-updated", lambda s: s["ret_before_member"],
         "%s: a user returns before the module/repository is marked as updated" % label),
    ]
    n = 0
    for key, bad, what in checks:
        trace = M.check(bad, key, final_only=True)
        n += 1
        if trace is not None:
            sched = [(st["thread"], st["choice"]) if "choice" in st else st["thread"] for st in trace]
            sim = mc.simulate(nodes, threads, sched, ["updated", "running"])
            confirmed = sim is not None and (
                (key == "fetched-twice" and sim["fetch_count"] >= 2) or
                (key == "return-during-fetch" and sim["ret_during_fetch"]) or
                (key == "return-before-marked-updated"))
            import json
            import os
            d = os.path.join(mprop.VERIF, "replays", res.prop)
            os.makedirs(d, exist_ok=True)
            fn = os.path.join(d, "%s_%s.schedule.json" % (label, key))
            with open(fn, "w") as f:
                json.dump({"property": res.prop, "what": what, "threads": threads,
                           "schedule": trace, "concrete_resimulation_confirms": bool(confirmed)}, f, indent=1)
            native = ""
            uses_choice = any("choice" in st for st in trace)
            if confirmed and label == "rsync" and (key == "fetched-twice" or uses_choice):
                import nativetest
                test = "c37_native_failed_start_fetched_once" if uses_choice else "c37_native_second_thread_after_remove"
                failed, passed, out = nativetest.run_native_test("native_c37", test)
                m = re.search(r"C37-NATIVE fetches=(\d+)|C37-NATIVE-FAILED-START attempts=(\d+)", out)
                cnt = (m.group(1) or m.group(2)) if m else None
                res.extra.setdefault("native_replays", []).append(
                    {"test": test, "fetches": int(cnt) if cnt else None, "test_failed": failed})
                with open(fn.replace(".json", ".native.log"), "w") as f:
                    f.write(out[-6000:])
                if failed:
                    native = "; reproduced natively (%s): the real rsync::Run::load_module attempted the fetch %s times" % (test, cnt or "?")
                elif passed:
                    res.inconclusive.append("rsync: MC schedule for %s did not reproduce with the real code (native test %s passed)" % (key, test))
                    continue
                else:
                    native = "; native replay could not be built/run"
            if confirmed:
                res.violation("mc:%s:%s" % (label, key), what + " (schedule re-simulated concretely%s)" % native, fn)
            else:
                res.inconclusive.append("%s: solver schedule for %s did not re-simulate" % (label, key))
    # vacuity: a schedule exists in which a fetch happens and all threads finish
    end_ids = [x.id for x in nodes if x.op[0] == "end"]
    wit = M.check(lambda s: z3.And([s["fetch_count"] == mc.IV(1)] + [z3.Or([s["pc%d" % i] == mc.IV(e) for e in end_ids]) for i in range(threads)]),
                  "witness", final_only=True)
    if wit is None:
        res.inconclusive.append("%s: vacuity - no schedule completes all threads with one fetch" % label)
    else:
        res.samples.append({"transport": label, "witness_schedule": ["T%d:%s" % (st["thread"], st["op"]) for st in wit][:40]})
    res.evaluations += M.queries + 1
    res.solver_time += M.solver_time
    res.distinct += n
    return M


def run(res, tier):
    E = mprop.engine(res)
    res.extra.setdefault("source_files_sha256", {}).update(
        mprop.source_hashes(["src/collector/rsync.rs", "src/collector/rrdp/base.rs", "src/utils/sync.rs"]))
    threads = 3
    check_transport(res, E, "rsync", "src/collector/rsync.rs", "load_module", r"RsyncCommand::update$",
                    r"has_dubious_authority$", threads, False)
    check_transport(res, E, "rrdp", "src/collector/rrdp/base.rs", "load_repository", r"RepositoryUpdate::try_update$",
                    r"has_dubious_authority$", threads, True)
    res.engines.append("MC: z3 BMC over the product of %d copies of the MIR-extracted operation automaton" % threads)
    res.bounds += [
        "%d threads requesting the SAME module / repository; each runs load_module / load_repository once; every "
        "interleaving of their visible operations (rwlock acquire/release, map/set operations, mutex lock/unlock, "
        "fetch begin/end) is covered by the symbolic scheduler" % threads,
        "different keys do not interact (separate map entries) and are outside the model; >3 threads outside the bound",
    ]
    res.assumptions += [
        "primitive semantics trusted: std RwLock (writer exclusive, readers shared), Mutex, HashMap/HashSet per key, "
        "Arc<Mutex> identity = the entry present in `running` when entry().or_default() ran",
        "paths that return Err (the whole run fails) and the dubious-host path (no fetch by design, C31) are excluded",
        "the ORDER of the operations and the branch structure come from the MIR of the current tree",
    ]
    res.rule = ("one case = one safety query over all schedules (fetched twice / return during fetch / return before "
                "marked updated) per transport, plus a completion witness; evaluations = z3 queries")
    mprop.finish_engine(res, E)
