"""C20 Route origin validation follows RFC 6811 (Kani differential)."""
from kprop import run_kani_part

SPEC = {
    "groups": ["snapshot", "validity"],
    "files": ["src/validity.rs", "src/payload/snapshot.rs"],
    "harnesses": {
        "quick": ["c20_one_vrp_v4", "c20_one_vrp_v6", "c20_one_vrp_mixed"],
        "thorough": ["c20_two_vrps_v4", "c20_two_vrps_v6"],
    },
    "harness_file": {"*": ("validity.rs", "src/validity.rs")},
    "timeout": {"quick": 300, "thorough": 3000},
}


def run(res, tier):
    res.functions += [
        "routinator::validity::RouteValidity::{new,state,reason}",
        "rpki::resources::Prefix::covers (dependency code, real)",
        "rpki::resources::MaxLenPrefix::resolved_max_len (dependency code, real)",
        "routinator::payload::snapshot::PayloadSnapshot::origins",
    ]
    res.bounds += [
        "quick: data set of exactly 1 VRP (symbolic prefix bits, length, optional max-len, ASN), "
        "1 symbolic route; IPv4/IPv4, IPv6/IPv6 and mixed families; unwind 3",
        "thorough: additionally data sets of exactly 2 VRPs of one family (both symbolic)",
        "data sets with more than 2 VRPs are outside the bound (the loop body is identical per VRP)",
    ]
    res.assumptions += [
        "the snapshot is built directly from a sorted origin vector (harness helper compiled into "
        "payload::snapshot); how snapshots are produced is C09's subject",
        "HTTP/CLI front-end parsing of prefixes and ASNs is outside the claim",
    ]
    res.rule = ("one case = one Kani harness instance (a family of VRP/route shapes with all "
                "contents symbolic); non-trivial = CBMC reported SUCCESSFUL and at least one "
                "kani::cover! reachability witness was SATISFIED; evaluations = CBMC checks decided")
    run_kani_part(res, SPEC, tier)
    check_batch(res)


def check_batch(res):
    """RouteValidityList::from_requests (validate --input, POST /validity): every request is answered by
    RouteValidity::new on that request's own prefix and origin AS (M engine; native replay on a difference)."""
    import re
    import mir
    import mprop
    E = mprop.engine(res)
    res.engines.append("M: symbolic execution of the MIR of RouteValidityList::from_requests")
    body = E.prog.find("src/validity.rs", "RouteValidityList", "from_requests")
    res.functions.append("routinator::validity::RouteValidityList::from_requests (+ its closure) (MIR)")
    req_fields = mir.struct_fields("Request", "src/validity.rs")
    i_p, i_a = req_fields.index("prefix"), req_fields.index("asn")
    problems = []
    n = 0

    def from_item(leaf, item_id, idx):
        return isinstance(leaf, mir.Opq) and re.match(r"o%dderef\.%d$" % (item_id, idx), leaf.origin or "") is not None

    paths = [p for p in E.explore(body, max_visits=3, nomut=[r"."]) if p.kind == "return"]
    mapped = [p for p in paths if p.has(r"Iterator::map$") and p.has(r"Iterator::collect$")]
    if mapped and len(mapped) == len(paths):
        closures = [bs[0] for nm, bs in E.prog.bodies.items() if re.search(r"from_requests::\{closure#\d+\}$", nm)]
        if len(closures) != 1:
            res.inconclusive.append("from_requests: %d closures (one expected)" % len(closures))
        for cb in closures:
            item = mir.Opq("&validity::Request", "request")
            for p in E.explore(cb.parse(), max_visits=2, nomut=[r"."], arg_values={"_2": {(): item}}):
                if p.kind != "return":
                    continue
                n += 1
                new = [e for e in p.events if e.kind == "call" and re.search(r"RouteValidity::new$", e.name)]
                ret = p.ret.get(())
                if len(new) != 1 or not (isinstance(ret, mir.Opq) and isinstance(new[0].dest.get(()), mir.Opq) and ret.id == new[0].dest.get(()).id):
                    problems.append((p, "a request is not answered by exactly one RouteValidity::new result"))
                elif not (from_item(new[0].args[0].get(()), item.id, i_p) and from_item(new[0].args[1].get(()), item.id, i_a)):
                    problems.append((p, "RouteValidity::new is not called with the request's own prefix and origin AS"))
    else:
        # explicit loop: whatever is pushed in an iteration is RouteValidity::new of that iteration's request
        for p in paths:
            evs = p.events
            for x, e in enumerate(evs):
                if not (e.kind == "call" and re.search(r"Vec::<.*>::push$|Vec::push$", e.name) and len(e.args) > 1):
                    continue
                n += 1
                start = max([y for y, f in enumerate(evs[:x]) if f.kind == "call" and f.name.endswith("Iterator::next")] or [0])
                nxt = evs[start].dest.get((("v", "Some"), ("f", 0))) if evs[start].dest else None
                new = [f for f in evs[start:x] if f.kind == "call" and re.search(r"RouteValidity::new$", f.name)]
                v = e.args[1].get(())
                if not new or not (isinstance(v, mir.Opq) and isinstance(new[-1].dest.get(()), mir.Opq) and v.id == new[-1].dest.get(()).id):
                    problems.append((p, "an entry of the batch result is not the RouteValidity::new result for its own request (it is %r)" % (v,)))
        if not n:
            res.inconclusive.append("from_requests: neither a map/collect nor a push loop found")
    res.distinct += n
    res.samples.append({"batch_obligations": n, "shape": "map/collect" if mapped and len(mapped) == len(paths) else "loop"})
    if problems:
        import nativetest
        failed, passed, out = nativetest.run_native_test("native_c20", "c20_native_batch_equals_single")
        m = re.search(r"C20-NATIVE-BATCH (.*)", out)
        res.evaluations += 1
        p, what = problems[0]
        fn = mprop.write_cex(res, "batch_entry", p, E, what + "\n\nnative replay: " + (m.group(1) if m else out[-2000:]))
        if failed:
            res.violation("mir:batch-entry-not-own-verdict", "validate --input / POST /validity: " + what + "; reproduced natively: " + (m.group(1)[:400] if m else "test failed"), fn)
        elif passed:
            res.inconclusive.append("batch path: %s - not reproduced natively" % what)
        else:
            res.inconclusive.append("batch path: %s - native replay could not be built" % what)
    mprop.finish_engine(res, E)
