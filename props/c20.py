"""C20 Route origin validation follows RFC 6811 (Kani differential)."""
from kprop import run_kani_part

SPEC = {
    "groups": ["snapshot", "validity"],
    "files": ["src/validity.rs", "src/payload/snapshot.rs"],
    "harnesses": {
        "quick": ["c20_one_vrp_v4", "c20_one_vrp_v6", "c20_one_vrp_mixed"],
        "thorough": ["c20_two_vrps_v4", "c20_two_vrps_v6"],
    },
    "harness_file": {"*": ("validity.rs", "src/validity.rs")},
    "timeout": {"quick": 300, "thorough": 3000},
}


def run(res, tier):
    res.functions += [
        "routinator::validity::RouteValidity::{new,state,reason}",
        "rpki::resources::Prefix::covers (dependency code, real)",
        "rpki::resources::MaxLenPrefix::resolved_max_len (dependency code, real)",
        "routinator::payload::snapshot::PayloadSnapshot::origins",
    ]
    res.bounds += [
        "quick: data set of exactly 1 VRP (symbolic prefix bits, length, optional max-len, ASN), "
        "1 symbolic route; IPv4/IPv4, IPv6/IPv6 and mixed families; unwind 3",
        "thorough: additionally data sets of exactly 2 VRPs of one family (both symbolic)",
        "data sets with more than 2 VRPs are outside the bound (the loop body is identical per VRP)",
    ]
    res.assumptions += [
        "the snapshot is built directly from a sorted origin vector (harness helper compiled into "
        "payload::snapshot); how snapshots are produced is C09's subject",
        "HTTP/CLI front-end parsing of prefixes and ASNs is outside the claim",
    ]
    res.rule = ("one case = one Kani harness instance (a family of VRP/route shapes with all "
                "contents symbolic); non-trivial = CBMC reported SUCCESSFUL and at least one "
                "kani::cover! reachability witness was SATISFIED; evaluations = CBMC checks decided")
    run_kani_part(res, SPEC, tier)
