"""C32 Failed runs are retried at most once (M engine)."""
import re

import z3

import mir
import mprop


def must(E, p, expr):
    return not E.feasible(p.cond, z3.Not(expr))


def outcome(E, p, ev, retry_ev):
    """Classify a run event: 'ok' | 'retry' | 'fatal' (None if undetermined)."""
    leaf = ev.dest.get(())
    d = mir.peek(E, p.mem, (("o", leaf.id), "disc")) if isinstance(leaf, mir.Opq) else ev.dest.get(("disc",))
    if d is None:
        return None
    if must(E, p, d == 0):
        return "ok"
    if must(E, p, d == 1):
        if retry_ev is None:
            return "fatal?"
        r = retry_ev.dest.get(())
        if r is not None and mir.is_z(r):
            if must(E, p, r):
                return "retry"
            if must(E, p, z3.Not(r)):
                return "fatal"
        return None
    return None


def runs_of(E, p, run_pat):
    """[(event index, outcome)] for each run event on the path."""
    out = []
    evs = p.events
    for i, e in enumerate(evs):
        if e.kind == "call" and re.search(run_pat, e.name):
            retry_ev = None
            for f in evs[i + 1:]:
                if f.kind == "call" and re.search(run_pat, f.name):
                    break
                if f.kind == "call" and re.search(r"RunFailed::should_retry$", f.name):
                    retry_ev = f
                    break
            out.append((i, outcome(E, p, e, retry_ev), e))
    return out


def ret_is_err(E, p):
    d = p.ret.get(("disc",))
    return d is not None and must(E, p, d == 1)


_REPLAYED = set()
COMMANDS = {"Vrps::run": ["vrps"], "Validate::get_snapshot": ["validate", "-a", "64496", "-p", "192.0.2.0/24"],
            "Update::run": ["update"]}


def native_replay(res, label, outcomes):
    """Replay a run-outcome sequence against the real binary through the
    cfg(routinator_verif) hook; reproduced = more than two runs were started."""
    import hookreplay
    binary, err = hookreplay.build_binary()
    if binary is None:
        return "native replay: hooked build failed: " + err[-400:], False
    n, code, tail = hookreplay.run_command(binary, outcomes, COMMANDS[label], timeout=8)
    res.extra.setdefault("native_replays", []).append(
        {"command": COMMANDS[label], "forced_outcomes": outcomes, "runs_started": n, "exit_code": code})
    if n <= 2:
        # the path may need Engine::sanitize to fail as well: same outcomes over a cache with an unreadable archive
        n2, code2, tail2 = hookreplay.run_command(binary, outcomes + ["retry"] * 8, COMMANDS[label], timeout=8, broken_rrdp_archive=True)
        res.extra["native_replays"].append({"command": COMMANDS[label], "forced_outcomes": outcomes + ["retry"] * 8,
                                            "cache": "zero-length RRDP archive (sanitize fails)", "runs_started": n2, "exit_code": code2})
        if n2 > 2:
            n, code, tail = n2, code2, "with a zero-length RRDP archive in the cache (Engine::sanitize fails):\n" + tail2
    extra = ("native replay (real binary, cfg routinator_verif hook): forced outcomes %s -> %d validation runs "
             "started, exit code %s\n%s" % (outcomes, n, code, tail))
    return extra, n > 2


def check_oneshot(res, E, label, body, visits):
    paths = E.explore(body, max_visits=visits)
    res.functions.append("routinator::operation::%s (MIR, %d blocks)" % (label, len(body.blocks)))
    n_rel = 0
    worst = 0
    for n, p in enumerate(paths):
        runs = runs_of(E, p, r"ValidationReport::process$")
        if not runs:
            continue
        n_rel += 1
        worst = max(worst, len(runs))
        if len(res.samples) < 8 and len(runs) >= 2:
            res.samples.append({"command": label, "kind": p.kind,
                                "run_outcomes": [o for _, o, _ in runs]})
        if len(runs) > 2:
            key = "mir:%s-more-than-two-runs" % label.split("::")[0].lower()
            if not any(v["key"] == key for v in res.violations) and key not in _REPLAYED:
                _REPLAYED.add(key)
                outs = [o if o in ("retry", "fatal") else "ok" for _, o, _ in runs]
                extra, reproduced = native_replay(res, label, outs)
                fn = mprop.write_cex(res, "%s_third_run_%d" % (label.split("::")[0].lower(), n), p, E,
                                     "%s performs a third validation run after two retryable failures "
                                     "(outcomes %s)" % (label, [o for _, o, _ in runs]), extra=extra)
                if reproduced:
                    res.violation(key, "%s: a third ValidationReport::process after two retryable failures "
                                  "(the retry loop is not bounded; reproduced with the real binary)" % label, fn)
                else:
                    res.inconclusive.append("%s: MIR path with >2 runs did not reproduce natively (%s)" % (label, fn))
            continue
        if p.kind == "return":
            outs = [o for _, o, _ in runs]
            if outs and outs[-1] in ("retry", "fatal", "fatal?") and not ret_is_err(E, p):
                fn = mprop.write_cex(res, "%s_failed_run_not_error_%d" % (label.split("::")[0].lower(), n), p, E,
                                     "%s returns without an error although its last run failed" % label)
                res.violation("mir:%s-failure-not-reported" % label.split("::")[0].lower(),
                              "%s: last run failed but the command does not return an error" % label, fn)
    res.distinct += n_rel
    res.extra.setdefault("max_runs_on_a_path", {})[label] = worst
    res.extra.setdefault("paths", {})[label] = len(paths)
    res.extra.setdefault("paths_truncated_at_bound", {})[label] = E.bound_hits
    return n_rel


def recv_model(E, st, frame, callee, argvals, dest_ty):
    """Signal channel: only Timeout or Disconnected (no user signals)."""
    E.fresh_n += 1
    d = z3.Int("recv_err!%d" % E.fresh_n)
    E.fact("recv_err!%d" % E.fresh_n, z3.And(d >= 0, d <= 1))
    return {("disc",): z3.IntVal(1), (("v", "Err"), ("f", 0), "disc"): d}


def check_server(res, E, visits):
    body = E.prog.find("src/operation.rs", "Server", "run", closure=0)
    res.functions.append("routinator::operation::Server::run validation-thread closure (MIR, %d blocks)" % len(body.blocks))
    paths = E.explore(body, max_visits=visits, max_paths=400000,
                      models={r"Receiver::<.*>::recv_timeout$": recv_model},
                      noop=[r"LocalExceptions::load$", r"LogOutput::(start|flush)$"])
    n_rel = 0
    for n, p in enumerate(paths):
        runs = runs_of(E, p, r"Server::process_once$")
        if len(runs) < 2:
            continue
        n_rel += 1
        info = []
        for i, o, e in runs:
            init = e.args[5].get(()) if len(e.args) > 5 else None
            is_init = None
            if init is not None and mir.is_z(init):
                if must(E, p, init):
                    is_init = True
                elif must(E, p, z3.Not(init)):
                    is_init = False
            info.append((is_init, o))
        if len(res.samples) < 12 and any(o == "retry" for _, o in info):
            res.samples.append({"command": "server", "kind": p.kind, "runs(initial,outcome)": info})
        # fatal failure followed by another run
        for k, (ii, o) in enumerate(info[:-1]):
            if o in ("fatal",):
                fn = mprop.write_cex(res, "server_run_after_fatal_%d" % n, p, E,
                                     "server starts another run after a fatal failure: %s" % info)
                res.violation("mir:server-run-after-fatal", "server runs again after a fatal failure", fn)
        retried = [k for k, (ii, o) in enumerate(info[:-1]) if o == "retry" and ii is False]
        if len(retried) >= 2:
            if not any(v["key"] == "mir:server-second-retry" for v in res.violations):
                fn = mprop.write_cex(res, "server_second_retry_%d" % n, p, E,
                                     "server retries a non-initial retryable failure twice: %s" % info)
                res.violation("mir:server-second-retry",
                              "server retries more than once after its initial run", fn)
        # an initial run is only ever the first one
        if any(ii is True for ii, o in info[1:]):
            fn = mprop.write_cex(res, "server_initial_twice_%d" % n, p, E,
                                 "a second run is started in initial mode: %s" % info)
            res.violation("mir:server-initial-twice", "a run other than the first is started as initial", fn)
    res.distinct += n_rel
    res.extra.setdefault("paths", {})["Server"] = len(paths)
    res.extra.setdefault("paths_truncated_at_bound", {})["Server"] = E.bound_hits
    if n_rel == 0:
        res.inconclusive.append("vacuity: no server path with two runs")


def run(res, tier):
    E = mprop.engine(res)
    res.extra.setdefault("source_files_sha256", {}).update(mprop.source_hashes(["src/operation.rs"]))
    visits = 4 if tier == "quick" else 6
    n = 0
    n += check_oneshot(res, E, "Vrps::run", E.prog.find("src/operation.rs", "Vrps", "run"), visits)
    n += check_oneshot(res, E, "Validate::get_snapshot", E.prog.find("src/operation.rs", "Validate", "get_snapshot"), visits)
    n += check_oneshot(res, E, "Update::run", E.prog.find("src/operation.rs", "Update", "run"), visits)
    if n == 0:
        res.inconclusive.append("vacuity: no path with a validation run in the one-shot commands")
    check_server(res, E, 4 if tier == "quick" else 5)
    res.bounds += [
        "one-shot commands: every block visited at most %d times (retry loops unrolled to %d iterations); "
        "a path with more than two ValidationReport::process events inside that bound is the violation" % (visits, visits),
        "server validation thread: outer loop unrolled to %d runs; the signal channel only times out or "
        "disconnects (user signals ReloadTals/RotateLog are not injected)" % (4 if tier == "quick" else 5),
    ]
    res.assumptions += [
        "ValidationReport::process, Engine::sanitize, RunFailed::should_retry are opaque: every outcome sequence is explored",
        "unwind (panic) edges not followed; logging has no effect",
    ]
    res.rule = ("one case = one feasible MIR path containing at least one validation run (one-shot) or two runs "
                "(server), classified by the outcome (ok / retryable / fatal) of each run as forced by the path "
                "condition; evaluations = z3 queries")
    mprop.finish_engine(res, E)
