"""C27 Corrupt local data never crashes Routinator (M engine: file-controlled allocation sizes and panic paths)."""
import re

import z3

import mir
import mprop

ALLOC = r"(vec::from_elem|Vec::<.*>::with_capacity|Vec::with_capacity|HashMap::<.*>::with_capacity|HashMap::with_capacity|" \
        r"String::with_capacity|Vec::<.*>::reserve|Vec::reserve|VecDeque::<.*>::with_capacity|BytesMut::with_capacity)$"
LIMIT = 1 << 20     # an allocation request above 1 MiB that is driven by a length field is "far beyond the file's size"
PANICKY = r"(core::panicking::|::unwrap$|::expect$|unwrap_failed|expect_failed|panic_fmt|slice_index|panic_bounds_check)"


def digest_len(E_, st, frame, callee, argvals, dest_ty):
    """Digest lengths are properties of the algorithm, not of the file: at most 64 bytes."""
    E_.fresh_n += 1
    v = z3.BitVec("digest_len!%d" % E_.fresh_n, 64)
    st.cond.append(z3.ULE(v, z3.BitVecVal(64, 64)))
    return {(): v}


def bodies_in_scope(E):
    out = []
    for name, bs in E.prog.bodies.items():
        m = re.search(r"<impl at (src/[\w/]+\.rs):", name)
        f = m.group(1) if m else ""
        last = name.split("::")[-1]
        if f == "src/utils/binio.rs" and last == "parse":
            out += [(name, b) for b in bs]
        elif f == "src/store.rs" and last == "read" and re.search(r"store::<impl", name):
            out += [(name, b) for b in bs]
        elif f == "src/collector/rrdp/archive.rs" and last == "parse":
            out += [(name, b) for b in bs]
    return out


def label(E, name, body):
    st = E.prog.self_type(name)
    ret = body.ret
    return "%s %s -> %s" % (name.split("<impl at ")[1].split(":")[0] if "<impl at" in name else "", name.split("::")[-1], ret[:60])


def run(res, tier):
    E = mprop.engine(res)
    res.extra.setdefault("source_files_sha256", {}).update(
        mprop.source_hashes(["src/utils/binio.rs", "src/store.rs", "src/collector/rrdp/archive.rs"]))
    scope = bodies_in_scope(E)
    n_paths = 0
    n_alloc = 0
    reported = set()
    for name, body in scope:
        body.parse()
        lab = label(E, name, body)
        res.functions.append(lab)
        try:
            paths = E.explore(body, max_visits=3, nomut=[r"."], follow_panics=True, max_paths=5000,
                              models={r"DigestAlgorithm::digest_len$": digest_len})
        except mir.Inconclusive as e:
            res.inconclusive.append("%s: %s" % (lab, e))
            continue
        for i, p in enumerate(paths):
            n_paths += 1
            for e in p.events:
                if e.kind == "panic":
                    key = "mir:panic:%s:%s" % (lab.split(" -> ")[1][:40], e.name[:40])
                    if key not in reported:
                        reported.add(key)
                        fn = mprop.write_cex(res, "panic_%d_%s" % (len(reported), re.sub(r"\W+", "_", lab)[:40]), p, E,
                                             "arithmetic/assert panic reachable while parsing: %s in %s" % (e.name, lab))
                        res.violation(key, "parsing can panic (%s) in %s" % (e.name, lab), fn)
                if e.kind != "call":
                    continue
                if re.search(ALLOC, e.name):
                    n_alloc += 1
                    size = e.args[-1].get(()) if e.args else None
                    if not mir.is_z(size) or not z3.is_bv(size):
                        continue
                    m = E.model(p.cond, z3.UGT(size, z3.BitVecVal(LIMIT, size.size())))
                    if m is not None:
                        val = m.eval(size, model_completion=True).as_long()
                        what = e.name.split("::")[-2] + "::" + e.name.split("::")[-1] if "::" in e.name else e.name
                        key = "mir:unbounded-alloc:%s:%s" % (lab.split(" -> ")[1][:40], what)
                        if key not in reported:
                            reported.add(key)
                            ok, note = native_replay(res, lab, what)
                            fn = mprop.write_cex(res, "alloc_%d_%s" % (len(reported), re.sub(r"\W+", "_", lab)[:40]), p, E,
                                                 "%s is called with a size taken from the file without a bound (e.g. %d) in %s. %s"
                                                 % (e.name, val, lab, note), m)
                            if ok is False:
                                res.inconclusive.append("allocation counterexample did not reproduce natively: " + lab)
                            else:
                                res.violation(key, "%s: allocation size %d requested from a length field before any data is read "
                                              "(panics with 'capacity overflow' / aborts on allocation failure)%s"
                                              % (lab, val, "; reproduced natively" if ok else ""), fn)
                elif re.search(PANICKY, e.name) and not re.search(r"Result::.*expect|Option::.*expect", "") :
                    key = "mir:panic-call:%s:%s" % (lab.split(" -> ")[1][:40], e.name.split("::")[-1])
                    if key not in reported:
                        reported.add(key)
                        fn = mprop.write_cex(res, "panic_call_%d" % len(reported), p, E, "%s reachable while parsing in %s" % (e.name, lab))
                        res.violation(key, "parsing can reach %s in %s" % (e.name, lab), fn)
        res.samples.append({"function": lab, "paths": len(paths)})
    n_paths += check_mmap_kernel(res, E, reported)
    n_paths += check_fits_contract(res, E, reported)
    res.distinct += n_paths
    res.extra["functions_in_scope"] = len(scope)
    res.extra["allocation_sites_checked"] = n_alloc
    if len(scope) < 15 or n_alloc < 5:
        res.inconclusive.append("vacuity: %d functions, %d allocation sites" % (len(scope), n_alloc))
    res.bounds.append("every Parse impl of utils/binio.rs, every record reader of store.rs and RepositoryState::parse: all paths "
                      "(loops unrolled 2x), every value read from the source is a free bit-vector; an allocation request "
                      "larger than %d bytes/elements that the file content can force is a violation" % LIMIT)
    res.assumptions += ["the reader (io::Read) may return any bytes and any error; read_exact fails at EOF",
                        "rpki-rs / chrono functions called on the parsed values (URI validation, timestamp_opt) do not panic"]
    res.bounds.append("utils/archive.rs: the three functions through which every access to the memory-mapped archive goes "
                      "(Mmap::read, write, read_into) for every 64-bit position, length and mapping size: no panicking "
                      "terminator and every slice range inside the mapping")
    res.bounds.append("utils/archive.rs: Archive::fits for every 64-bit on-disk size of an empty object implies what "
                      "publish_replace asserts about the remainder")
    res.outside += ["the rest of utils/archive.rs: header arithmetic such as ObjectHeader::data_start (start + SIZE + name_len) "
                    "can overflow on corrupt headers in overflow-checks builds only (release builds wrap and then fail the "
                    "range check in Mmap::read); StorageRead's file fallback (Vec::with_capacity(len)) is reachable only "
                    "where mmap is unavailable (not on Linux)"]
    res.rule = ("one case = one feasible path of a record parser; for every allocation call on it z3 searches for file "
                "content that makes the requested size exceed the limit; panicking terminators and panic calls on a path are violations")
    mprop.finish_engine(res, E)


def check_fits_contract(res, E, reported):
    """find_empty hands an empty object to publish_replace when Archive::fits(empty.size, object_size) holds, and
    publish_replace asserts that a remainder can hold an object header. empty.size is read from the file: for every
    64-bit value of it (corrupt or not) `fits` must imply what the assert demands, or a corrupt size field panics."""
    src = open(mir.os.path.join(mir.REPO, "src/utils/archive.rs")).read()
    m = re.search(r"const SIZE:\s+u64 = usize_to_u64\((.*?)\);", src, re.S)
    sizes = {"u64": 8, "u8": 1, "usize": 8, "u32": 4, "u16": 2}
    hdr_n = sum(sizes[t] for t in re.findall(r"size_of::<(\w+)>", m.group(1))) if m else None
    fb = [b.parse() for n_, bs in E.prog.bodies.items()
          if re.search(r"utils::archive::<impl at src/utils/archive\.rs:[^>]*>::fits$", n_) for b in bs]
    asserts = len(re.findall(r"assert!\(empty\.size >= ObjectHeader::SIZE\)", src))
    if len(fb) != 1 or not hdr_n:
        res.inconclusive.append("fits contract: Archive::fits / ObjectHeader::SIZE not found")
        return 0
    if asserts == 0:
        return 0          # nothing asserts on the remainder any more: no panic to guard against
    hdr = z3.BitVecVal(hdr_n, 64)
    e, o = z3.BitVec("empty_size_on_disk", 64), z3.BitVec("new_object_size", 64)
    paths = E.explore(fb[0], max_visits=2, arg_values={"_1": {(): e}, "_2": {(): o}}, consts={r"ObjectHeader::SIZE": hdr})
    res.functions.append("utils::archive::Archive::<Meta>::fits against publish_replace's remainder assertion, any on-disk size (MIR)")
    n = 0
    for i, p in enumerate(paths):
        if p.kind != "return":
            continue
        r = p.ret.get(())
        if not mir.is_z(r):
            res.inconclusive.append("fits contract: result not symbolic")
            continue
        n += 1
        # the new object's size is page-rounded and sane; the empty size is whatever the file says
        pre = z3.And(o != 0, z3.URem(o, 256) == 0, z3.ULT(o, 1 << 48), z3.ULT(e, 1 << 62))
        bad = z3.And(pre, r, z3.UGT(e, o), z3.ULT(e - o, hdr))
        mdl = E.model(p.cond, bad)
        if mdl is not None and "fits" not in reported:
            reported.add("fits")
            ev, ov = mdl.eval(e, True).as_long(), mdl.eval(o, True).as_long()
            fn = mprop.write_cex(res, "fits_contract_%d" % i, p, E,
                                 "fits(%d, %d) holds although the remainder of %d bytes cannot hold an object header (%d bytes): "
                                 "publish_replace's assert!(empty.size >= ObjectHeader::SIZE) panics" % (ev, ov, ev - ov, hdr_n), mdl)
            res.violation("mir:archive:corrupt-empty-size-panics",
                          "an empty object whose size field is corrupt (e.g. %d) is accepted by Archive::fits for an object of %d "
                          "bytes and makes publish_replace panic on its remainder assertion" % (ev, ov), fn)
    return n


def check_mmap_kernel(res, E, reported):
    """Mmap::read / write / read_into (every access to a memory-mapped archive goes through them): for any
    position, length and mapping size there is no panicking terminator, and every slice range handed to
    Index<Range> lies inside the mapping (start <= end <= len)."""
    n = 0
    names = [(nm, b) for nm, bs in E.prog.bodies.items() for b in bs
             if re.search(r"mmapimpl::<impl at src/utils/archive\.rs:[^>]*>::(read|write|read_into)$", nm)]
    if len(names) < 3:
        res.inconclusive.append("mmap kernel: only %d of Mmap::read/write/read_into found" % len(names))
    maplen = z3.BitVec("mmap_len", 64)
    selfp = mir.Opq("&Mmap", "self")

    def m_from_raw_parts(E_, st, frame, callee, argvals, dest_ty):
        ln = argvals[1].get(())
        if not mir.is_z(ln):
            return NotImplemented
        return {(): mir.Opq("&[u8]", "mapping"), ("nbv",): ln}

    for nm, body in names:
        body.parse()
        lab = "Mmap::" + nm.split("::")[-1]
        res.functions.append("utils::archive::mmapimpl::%s (MIR, %d blocks, as_slice inlined)" % (lab, len(body.blocks)))
        bad_ranges = []

        def m_index(E_, st, frame, callee, argvals, dest_ty, bad_ranges=bad_ranges):
            sl, rg = argvals[0], argvals[1]
            ln = sl.get(("nbv",))
            a, b = rg.get((("f", 0),)), rg.get((("f", 1),))
            if not (mir.is_z(ln) and mir.is_z(a) and mir.is_z(b)):
                bad_ranges.append((None, list(st.cond), st))
                return NotImplemented
            m = E_.model(st.cond, z3.Not(z3.And(z3.ULE(a, b), z3.ULE(b, ln))))
            if m is not None:
                bad_ranges.append((m, list(st.cond), st.fork()))
            st.cond.append(z3.And(z3.ULE(a, b), z3.ULE(b, ln)))
            return {(): mir.Opq(dest_ty or "&[u8]", "subslice"), ("nbv",): b - a}

        def pre(E_, st, frame):
            st.mem[(("o", selfp.id), "deref", ("f", 1))] = maplen

        pos, ln = z3.BitVec("position", 64), z3.BitVec("length", 64)
        third = {(): ln} if lab.endswith("::read") else {(): mir.Opq("&[u8]", "buffer"), ("nbv",): ln}

        def m_len(E_, st, frame, callee, argvals, dest_ty):
            v = argvals[0].get(("nbv",))
            return {(): v} if mir.is_z(v) else NotImplemented

        def replay(mdl_cond, what):
            m = E.model(list(mdl_cond) + [maplen == 4096]) or E.model(list(mdl_cond))
            if m is None:
                return None, ""
            vals = {k: m.eval(v, model_completion=True).as_long() for k, v in (("pos", pos), ("len", ln), ("map", maplen))}
            if vals["map"] != 4096:
                return None, " (no model with a 4096-byte mapping; not replayed)"
            ok = native_mmap(res, lab.split("::")[-1], vals["pos"], vals["len"])
            return ok, " position=%d length=%d mapping=4096 bytes" % (vals["pos"], vals["len"])

        try:
            paths = E.explore(body, max_visits=2, follow_panics=True, max_paths=2000, pre=pre,
                              arg_values={"_1": {(): selfp}, "_2": {(): pos}, "_3": third}, nomut=[r"."],
                              inline=[r"Mmap::as_slice(_mut)?$"],
                              models={r"^std::slice::from_raw_parts(_mut)?::<": m_from_raw_parts,
                                      r"^core::slice::<impl \\[u8\\]>::len$": m_len,
                                      r"^<\[u8\] as (std::ops::)?Index(Mut)?<(std::ops::)?Range<usize>>>::index(_mut)?$": m_index})
        except mir.Inconclusive as e:
            res.inconclusive.append("%s: %s" % (lab, e))
            continue
        n += len(paths)
        for m, cond, st in bad_ranges:
            key = "mir:mmap-range:" + lab
            if key in reported:
                continue
            reported.add(key)
            if m is None:
                res.inconclusive.append("%s: slice range not modelled" % lab)
                continue
            p = mir.Path(st, {}, "panic")
            ok, note = replay(cond + [z3.BoolVal(True)], "range")
            fn = mprop.write_cex(res, "mmap_range_" + lab.split("::")[-1], p, E,
                                 "%s slices the mapping with a range outside it (start > end or end > len): "
                                 "core::slice::index panics%s" % (lab, note), m)
            if ok is False:
                res.inconclusive.append("%s: out-of-range slice did not reproduce natively%s" % (lab, note))
                continue
            res.violation(key, "%s: position/length from the archive file make the slice range start > end or "
                               "end > mapping length (slice index panic; abort under panic=abort)%s%s"
                          % (lab, note, "; reproduced natively" if ok else ""), fn)
        for i, p in enumerate(paths):
            for e in p.events:
                if e.kind == "panic":
                    key = "mir:mmap-panic:%s:%s" % (lab, e.name[:50])
                    if key in reported:
                        continue
                    reported.add(key)
                    ok, note = replay(p.cond, "panic")
                    fn = mprop.write_cex(res, "mmap_panic_%s_%d" % (lab.split("::")[-1], i), p, E,
                                         "%s reachable in %s:%s" % (e.name, lab, note), E.model(p.cond))
                    if ok is False:
                        res.inconclusive.append("%s: panic path did not reproduce natively%s" % (lab, note))
                        continue
                    res.violation(key, "%s can panic (%s) on a position/length taken from the archive file%s%s"
                                  % (lab, e.name[:80], note, "; reproduced natively" if ok else ""), fn)
        res.samples.append({"function": lab, "paths": len(paths)})
    return n


def native_mmap(res, method, pos, ln):
    """Real Mmap over a 4096-byte file; the call must return (Ok or Err), not panic."""
    import nativetest
    from vcommon import VERIF
    call = {"read": "m.read(POS, LEN as usize).map(|_| ())",
            "read_into": "{ let mut buf = vec![0u8; (LEN as usize).min(1 << 20)]; m.read_into(POS, &mut buf).map(|_| ()) }",
            "write": "{ let buf = vec![0u8; (LEN as usize).min(1 << 20)]; m.write(POS, &buf).map(|_| ()) }"}[method]
    src = """// generated by props/c27.py: native replay of a solver-found position/length against a real mapping
use super::mmapimpl::Mmap;
use std::io::Write;
const POS: u64 = %d;
const LEN: u64 = %d;
#[test]
fn c27_native_mmap() {
    let mut file = tempfile::tempfile().unwrap();
    file.write_all(&[0u8; 4096]).unwrap();
    #[allow(unused_mut)]
    let mut m = Mmap::new(&mut file, true).unwrap().unwrap();
    let r = std::panic::catch_unwind(std::panic::AssertUnwindSafe(|| %s));
    println!("C27-NATIVE-MMAP %s(pos={}, len={}) on a 4096-byte mapping: {}", POS, LEN,
             match &r { Ok(Ok(_)) => "Ok".to_string(), Ok(Err(e)) => format!("Err({})", e), Err(_) => "PANIC".to_string() });
    assert!(r.is_ok(), "Mmap::%s panicked");
}
""" % (pos, ln, call, method, method)
    with open(mir.os.path.join(VERIF, "native", "c27_mmap_generated.rs"), "w") as f:
        f.write(src)
    failed, passed, out = nativetest.run_native_test("native_c27_mmap", "c27_native_mmap")
    obs = re.findall(r"C27-NATIVE-MMAP (.*)", out)
    res.extra.setdefault("native_replays", []).append({"test": "c27_native_mmap", "failed": failed, "observed": obs[:2] or [out[-300:]]})
    return True if failed else (False if passed else None)


_NATIVE = {}


def native_replay(res, lab, what):
    if "r" in _NATIVE:
        return _NATIVE["r"]
    import nativetest
    failed, passed, out = nativetest.run_native_test("native_c27", "c27_native")
    obs = re.findall(r"C27-NATIVE (.*)", out)
    res.extra.setdefault("native_replays", []).append({"test": "c27_native_*", "failed": failed, "observed": obs[:6]})
    if failed:
        r = (True, "native replay: crafted length fields make the real parsers panic: " + "; ".join(obs[:4]))
    elif passed:
        r = (False, "native tests passed")
    else:
        r = (None, "native replay could not be built/run")
    _NATIVE["r"] = r
    return r
