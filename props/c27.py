"""C27 Corrupt local data never crashes Routinator (M engine: file-controlled allocation sizes and panic paths)."""
import re

import z3

import mir
import mprop

ALLOC = r"(vec::from_elem|Vec::<.*>::with_capacity|Vec::with_capacity|HashMap::<.*>::with_capacity|HashMap::with_capacity|" \
        r"String::with_capacity|Vec::<.*>::reserve|Vec::reserve|VecDeque::<.*>::with_capacity|BytesMut::with_capacity)$"
LIMIT = 1 << 20     # an allocation request above 1 MiB that is driven by a length field is "far beyond the file's size"
PANICKY = r"(core::panicking::|::unwrap$|::expect$|unwrap_failed|expect_failed|panic_fmt|slice_index|panic_bounds_check)"


def digest_len(E_, st, frame, callee, argvals, dest_ty):
    """Digest lengths are properties of the algorithm, not of the file: at most 64 bytes."""
    E_.fresh_n += 1
    v = z3.BitVec("digest_len!%d" % E_.fresh_n, 64)
    st.cond.append(z3.ULE(v, z3.BitVecVal(64, 64)))
    return {(): v}


def bodies_in_scope(E):
    out = []
    for name, bs in E.prog.bodies.items():
        m = re.search(r"<impl at (src/[\w/]+\.rs):", name)
        f = m.group(1) if m else ""
        last = name.split("::")[-1]
        if f == "src/utils/binio.rs" and last == "parse":
            out += [(name, b) for b in bs]
        elif f == "src/store.rs" and last == "read" and re.search(r"store::<impl", name):
            out += [(name, b) for b in bs]
        elif f == "src/collector/rrdp/archive.rs" and last == "parse":
            out += [(name, b) for b in bs]
    return out


def label(E, name, body):
    st = E.prog.self_type(name)
    ret = body.ret
    return "%s %s -> %s" % (name.split("<impl at ")[1].split(":")[0] if "<impl at" in name else "", name.split("::")[-1], ret[:60])


def run(res, tier):
    E = mprop.engine(res)
    res.extra.setdefault("source_files_sha256", {}).update(
        mprop.source_hashes(["src/utils/binio.rs", "src/store.rs", "src/collector/rrdp/archive.rs"]))
    scope = bodies_in_scope(E)
    n_paths = 0
    n_alloc = 0
    reported = set()
    for name, body in scope:
        body.parse()
        lab = label(E, name, body)
        res.functions.append(lab)
        try:
            paths = E.explore(body, max_visits=3, nomut=[r"."], follow_panics=True, max_paths=5000,
                              models={r"DigestAlgorithm::digest_len$": digest_len})
        except mir.Inconclusive as e:
            res.inconclusive.append("%s: %s" % (lab, e))
            continue
        for i, p in enumerate(paths):
            n_paths += 1
            for e in p.events:
                if e.kind == "panic":
                    key = "mir:panic:%s:%s" % (lab.split(" -> ")[1][:40], e.name[:40])
                    if key not in reported:
                        reported.add(key)
                        fn = mprop.write_cex(res, "panic_%d_%s" % (len(reported), re.sub(r"\W+", "_", lab)[:40]), p, E,
                                             "arithmetic/assert panic reachable while parsing: %s in %s" % (e.name, lab))
                        res.violation(key, "parsing can panic (%s) in %s" % (e.name, lab), fn)
                if e.kind != "call":
                    continue
                if re.search(ALLOC, e.name):
                    n_alloc += 1
                    size = e.args[-1].get(()) if e.args else None
                    if not mir.is_z(size) or not z3.is_bv(size):
                        continue
                    m = E.model(p.cond, z3.UGT(size, z3.BitVecVal(LIMIT, size.size())))
                    if m is not None:
                        val = m.eval(size, model_completion=True).as_long()
                        what = e.name.split("::")[-2] + "::" + e.name.split("::")[-1] if "::" in e.name else e.name
                        key = "mir:unbounded-alloc:%s:%s" % (lab.split(" -> ")[1][:40], what)
                        if key not in reported:
                            reported.add(key)
                            ok, note = native_replay(res, lab, what)
                            fn = mprop.write_cex(res, "alloc_%d_%s" % (len(reported), re.sub(r"\W+", "_", lab)[:40]), p, E,
                                                 "%s is called with a size taken from the file without a bound (e.g. %d) in %s. %s"
                                                 % (e.name, val, lab, note), m)
                            if ok is False:
                                res.inconclusive.append("allocation counterexample did not reproduce natively: " + lab)
                            else:
                                res.violation(key, "%s: allocation size %d requested from a length field before any data is read "
                                              "(panics with 'capacity overflow' / aborts on allocation failure)%s"
                                              % (lab, val, "; reproduced natively" if ok else ""), fn)
                elif re.search(PANICKY, e.name) and not re.search(r"Result::.*expect|Option::.*expect", "") :
                    key = "mir:panic-call:%s:%s" % (lab.split(" -> ")[1][:40], e.name.split("::")[-1])
                    if key not in reported:
                        reported.add(key)
                        fn = mprop.write_cex(res, "panic_call_%d" % len(reported), p, E, "%s reachable while parsing in %s" % (e.name, lab))
                        res.violation(key, "parsing can reach %s in %s" % (e.name, lab), fn)
        res.samples.append({"function": lab, "paths": len(paths)})
    res.distinct += n_paths
    res.extra["functions_in_scope"] = len(scope)
    res.extra["allocation_sites_checked"] = n_alloc
    if len(scope) < 15 or n_alloc < 5:
        res.inconclusive.append("vacuity: %d functions, %d allocation sites" % (len(scope), n_alloc))
    res.bounds.append("every Parse impl of utils/binio.rs, every record reader of store.rs and RepositoryState::parse: all paths "
                      "(loops unrolled 2x), every value read from the source is a free bit-vector; an allocation request "
                      "larger than %d bytes/elements that the file content can force is a violation" % LIMIT)
    res.assumptions += ["the reader (io::Read) may return any bytes and any error; read_exact fails at EOF",
                        "rpki-rs / chrono functions called on the parsed values (URI validation, timestamp_opt) do not panic"]
    res.outside += ["utils/archive.rs (mmap-backed object archive): object lengths there come from archive headers and are "
                    "bounds-checked against the mapping; not covered"]
    res.rule = ("one case = one feasible path of a record parser; for every allocation call on it z3 searches for file "
                "content that makes the requested size exceed the limit; panicking terminators and panic calls on a path are violations")
    mprop.finish_engine(res, E)


_NATIVE = {}


def native_replay(res, lab, what):
    if "r" in _NATIVE:
        return _NATIVE["r"]
    import nativetest
    failed, passed, out = nativetest.run_native_test("native_c27", "c27_native")
    obs = re.findall(r"C27-NATIVE (.*)", out)
    res.extra.setdefault("native_replays", []).append({"test": "c27_native_*", "failed": failed, "observed": obs[:6]})
    if failed:
        r = (True, "native replay: crafted length fields make the real parsers panic: " + "; ".join(obs[:4]))
    elif passed:
        r = (False, "native tests passed")
    else:
        r = (None, "native replay could not be built/run")
    _NATIVE["r"] = r
    return r
