"""C03 A publication point contributes one consistent object set (M engine + K)."""
import re

import mir
import mprop

INLINE = [r"PubPoint::process_collected$", r"StoredPoint::update$", r"StoredPoint::_update$", r"UpdateError::fatal$"]


def run(res, tier):
    E = mprop.engine(res)
    body = E.prog.find("src/engine.rs", "PubPoint", "process")
    res.extra.setdefault("source_files_sha256", {}).update(
        mprop.source_hashes(["src/engine.rs", "src/store.rs", "src/payload/validation.rs"]))
    visits = 3 if tier == "quick" else 4
    paths = E.explore(body, inline=INLINE, max_visits=visits)
    res.functions += [
        "routinator::engine::PubPoint::process (MIR)",
        "routinator::engine::PubPoint::process_collected (MIR, inlined) and its update closure (inlined at the "
        "call inside StoredPoint::_update)",
        "routinator::store::StoredPoint::{update,_update} (MIR, inlined)",
    ]
    res.bounds.append("every block visited at most %d times per frame: the manifest-entry loop in "
                      "StoredPoint::_update is unrolled to %d object(s); longer manifests are outside the bound "
                      "(any entry may be the aborting one, so the order of entries is covered)" % (visits, visits - 1))
    res.assumptions += [
        "every call without a model (collector, store, rpki-rs validation, processor methods) may return any value "
        "of its type (Ok/Err/Some/None ...)",
        "unwind (panic) edges are not followed; logging has no effect",
    ]
    n_switch = 0
    n_rel = 0
    for n, p in enumerate(paths):
        if p.kind not in ("return",):
            continue
        names = p.names()
        ps = p.index(r"PubPoint::process_stored$")
        if ps < 0:
            continue
        # payload-contributing calls of the fetched set before the switch to the stored set
        contrib = [i for i, e in enumerate(p.events[:ps])
                   if e.kind == "call" and re.search(r"PubPoint::process_object$", e.name)]
        if not contrib:
            continue
        n_switch += 1
        last = contrib[-1]
        restart = [i for i, e in enumerate(p.events[last:ps])
                   if e.kind == "call" and re.search(r"(ProcessPubPoint>?::|::)restart$", e.name)]
        n_rel += 1
        if len(res.samples) < 6:
            res.samples.append(mprop.path_sample(p, 40))
        if not restart:
            if any(v["key"] == "mir:no-restart-before-process-stored" for v in res.violations):
                res.extra["violating_paths"] = res.extra.get("violating_paths", 1) + 1
                continue
            fn = mprop.write_cex(
                res, "stored_after_aborted_update_%d" % n, p, E,
                "objects of the fetched manifest were handed to the processor (process_object), the update was "
                "abandoned, and the stored point is processed with the same processor without "
                "ProcessPubPoint::restart in between")
            res.violation("mir:no-restart-before-process-stored",
                          "PubPoint::process falls back to process_stored after an aborted fetched update without "
                          "calling ProcessPubPoint::restart (payload of both object sets is committed together)", fn)
    res.distinct += n_rel
    res.extra["paths"] = len(paths)
    res.extra["paths_truncated_at_bound"] = E.bound_hits
    res.extra["paths_switching_to_stored_after_partial_update"] = n_switch
    if n_switch == 0:
        res.inconclusive.append("vacuity: no path reaches process_stored after a partially processed fetched update")
    res.rule = ("one case = one feasible MIR path through process -> process_collected -> StoredPoint::update -> "
                "update closure that hands at least one fetched object to the processor and then falls back to "
                "process_stored; the assertion (restart in between) is evaluated on each; evaluations = z3 "
                "feasibility queries")
    mprop.finish_engine(res, E)
    check_restart(res)


def check_restart(res):
    """PubPointProcessor::restart / PubPoint::restart clear every payload list that commit() looks at."""
    E = mprop.engine(res)
    fields = mir.struct_fields("PubPoint", "src/payload/validation.rs")
    selfp = mir.Opq("&mut PubPoint", "self")
    body = E.prog.find("src/payload/validation.rs", "PubPoint", "restart")
    res.functions.append("routinator::payload::validation::PubPoint::{restart, is_empty} and "
                         "PubPointProcessor::{restart, commit} (MIR)")

    def touched(paths, pat):
        out = []
        for p in paths:
            if p.kind != "return":
                continue
            s = set()
            for e in p.events:
                if e.kind == "call" and re.search(pat, e.name) and e.args:
                    a = e.args[0].get(())
                    if isinstance(a, mir.Ref) and a.loc[:2] == (("o", selfp.id), "deref") and len(a.loc) >= 3:
                        s.add(fields[a.loc[2][1]])
            out.append((p, s))
        return out
    rp = touched(E.explore(body, max_visits=2, arg_values={"_1": {(): selfp}}), r"Vec::clear$")
    ib = E.prog.find("src/payload/validation.rs", "PubPoint", "is_empty")
    ip = touched(E.explore(ib, max_visits=2, nomut=[r"."], arg_values={"_1": {(): selfp}}), r"Vec::is_empty$")
    examined = set()
    for _, s in ip:
        examined |= s
    # every Vec field of the struct counts as payload
    src = open(mir.os.path.join(mir.REPO, "src/payload/validation.rs")).read()
    m = re.search(r"pub struct PubPoint \{(.*?)\n\}", src, re.S)
    vec_fields = set(re.findall(r"(\w+): Vec<", m.group(1))) if m else set()
    need = examined | vec_fields
    n = 0
    for p, cleared in rp:
        n += 1
        missing = sorted(need - cleared)
        if missing:
            fn = mprop.write_cex(res, "restart_keeps_%s" % "_".join(missing), p, E,
                                 "PubPoint::restart does not clear %s (is_empty examines %s, Vec fields %s)"
                                 % (missing, sorted(examined), sorted(vec_fields)))
            res.violation("mir:restart-keeps:" + ",".join(missing),
                          "restart() keeps payload of the abandoned object set: %s not cleared" % ", ".join(missing), fn)
        # refresh is reset from orig_refresh
        i_r, i_o = fields.index("refresh"), fields.index("orig_refresh")
        base = (("o", selfp.id), "deref")
        new_r = mir.peek(E, p.mem, base + (("f", i_r),))
        orig = mir.peek(E, p.mem, base + (("f", i_o),))
        if new_r is None or orig is None or new_r is not orig:
            fn = mprop.write_cex(res, "restart_refresh", p, E, "PubPoint::restart does not reset refresh to orig_refresh")
            res.violation("mir:restart-refresh-not-reset", "restart() does not reset the refresh time", fn)
    # the processor's restart delegates to it
    pb = E.prog.find("src/payload/validation.rs", "PubPointProcessor", "restart", trait="ProcessPubPoint")
    for p in E.explore(pb, max_visits=2):
        if p.kind == "return":
            n += 1
            if not p.has(r"PubPoint::restart$"):
                fn = mprop.write_cex(res, "processor_restart", p, E, "PubPointProcessor::restart does not restart its PubPoint")
                res.violation("mir:processor-restart-noop", "ProcessPubPoint::restart of the payload processor does not clear the collected data", fn)
    if n < 2:
        res.inconclusive.append("vacuity: restart paths=%d" % n)
    res.samples.append({"restart_clears": sorted(rp[0][1]) if rp else [], "is_empty_examines": sorted(examined),
                        "vec_fields": sorted(vec_fields)})
    res.distinct += n
    mprop.finish_engine(res, E)
