"""C25 RRDP updates reproduce the server state or report failure (M engine: delta selection + update gating)."""
import re

import z3

import mir
import mprop
from gating import check_gates, is_ok, ok_true, is_none, must, disc_of

N = 4   # bound on the notification's delta list


def check_calc_deltas(res, E):
    body = E.prog.find("src/collector/rrdp/base.rs", "RepositoryUpdate", "calc_deltas")
    res.functions.append("routinator::collector::rrdp::base::RepositoryUpdate::calc_deltas (MIR, %d blocks)" % len(body.blocks))
    st_fields = mir.struct_fields("RepositoryState", "src/collector/rrdp/archive.rs")
    serials = z3.Array("delta_serial", z3.IntSort(), z3.BitVecSort(64))
    n = z3.Int("n_deltas")
    notify_serial = z3.BitVec("notify_serial", 64)
    state_serial = z3.BitVec("state_serial", 64)
    max_count = z3.BitVec("max_delta_count", 64)
    statep = mir.Opq("&RepositoryState", "state")
    E.solver.add(n >= 0, n <= N)
    # list as sort_deltas() leaves it: ascending by serial (duplicates and gaps possible)
    for i in range(N - 1):
        E.solver.add(z3.Implies(i + 1 < n, z3.ULE(z3.Select(serials, i), z3.Select(serials, i + 1))))

    def slice_val(s, ln):
        return {(): mir.Opq("&[DeltaInfo]", "slice"), ("s",): s, ("n",): ln}

    def elem(idx):
        return {(): mir.Opq("&DeltaInfo", "elem"), ("idx",): idx}

    def m_deltas(E_, st, frame, callee, argvals, dest_ty):
        return slice_val(z3.IntVal(0), n)

    def m_serial(E_, st, frame, callee, argvals, dest_ty):
        return {(): notify_serial}

    notify_session, state_session = z3.Int("notify_session"), z3.Int("state_session")

    def m_session(E_, st, frame, callee, argvals, dest_ty):
        return {(): notify_session}

    def m_last(E_, st, frame, callee, argvals, dest_ty):
        v = argvals[0]
        out = {("disc",): z3.If(v[("n",)] > 0, z3.IntVal(1), z3.IntVal(0))}
        for k, x in elem(v[("s",)] + v[("n",)] - 1).items():
            out[(("v", "Some"), ("f", 0)) + k] = x
        return out

    def m_first(E_, st, frame, callee, argvals, dest_ty):
        v = argvals[0]
        out = {("disc",): z3.If(v[("n",)] > 0, z3.IntVal(1), z3.IntVal(0))}
        for k, x in elem(v[("s",)]).items():
            out[(("v", "Some"), ("f", 0)) + k] = x
        return out

    def m_dserial(E_, st, frame, callee, argvals, dest_ty):
        return {(): z3.Select(serials, argvals[0][("idx",)])}

    def m_map(E_, st, frame, callee, argvals, dest_ty):
        # Option<&DeltaInfo>::map(|delta| delta.serial())
        v = argvals[0]
        idx = v.get((("v", "Some"), ("f", 0), "idx"))
        if idx is None:
            return NotImplemented
        return {("disc",): v[("disc",)], (("v", "Some"), ("f", 0)): z3.Select(serials, idx)}

    def m_index(E_, st, frame, callee, argvals, dest_ty):
        v = argvals[0]
        start = argvals[1].get((("f", 0),))
        if start is None or not mir.is_z(start):
            return NotImplemented
        k = z3.BV2Int(start)
        st.cond.append(k <= v[("n",)])      # otherwise the real code panics (slice index out of range)
        return slice_val(v[("s",)] + k, v[("n",)] - k)

    def m_into_iter(E_, st, frame, callee, argvals, dest_ty):
        v = argvals[0]
        if ("n",) not in v:
            return NotImplemented
        return {(): mir.Opq("slice::Iter<DeltaInfo>", "iter"), ("s",): v[("s",)], ("n",): v[("n",)]}

    def m_next(E_, st, frame, callee, argvals, dest_ty):
        r = argvals[0].get(())
        if not isinstance(r, mir.Ref):
            return NotImplemented
        cur = E_.load(st, r.loc)
        if ("n",) not in cur:
            return NotImplemented
        s0, n0 = cur[("s",)], cur[("n",)]
        has = n0 > 0
        new = dict(cur)
        new[("s",)] = z3.If(has, s0 + 1, s0)
        new[("n",)] = z3.If(has, n0 - 1, n0)
        E_.store(st, r.loc, new)
        out = {("disc",): z3.If(has, z3.IntVal(1), z3.IntVal(0))}
        for k, x in elem(s0).items():
            out[(("v", "Some"), ("f", 0)) + k] = x
        return out

    def pre(E_, st, frame):
        st.mem[(("o", statep.id), "deref", ("f", st_fields.index("serial")))] = state_serial
        st.mem[(("o", statep.id), "deref", ("f", st_fields.index("session")))] = state_session
        # max_delta_count: any field read of type usize from the collector config becomes this variable

    paths = E.explore(body, max_visits=N + 2, nomut=[r"."], arg_values={"_3": {(): statep}}, pre=pre, max_paths=200000, models={
        r"NotificationFile::deltas$": m_deltas, r"NotificationFile::serial$": m_serial, r"NotificationFile::session_id$": m_session,
        r"<impl \[DeltaInfo\]>::last$": m_last, r"<impl \[DeltaInfo\]>::first$": m_first,
        r"DeltaInfo::serial$": m_dserial, r"Option::<&DeltaInfo>::map::<u64": m_map,
        r"^<\[DeltaInfo\] as (std::ops::)?Index<(std::ops::)?RangeFrom<usize>>>::index$": m_index,
        r"^<&\[DeltaInfo\] as IntoIterator>::into_iter$|<impl \[DeltaInfo\]>::iter$": m_into_iter,
        r"^<std::slice::Iter<'_, DeltaInfo> as Iterator>::next$": m_next,
    })
    n_ok = 0
    for i, p in enumerate(paths):
        if p.kind != "return":
            continue
        d = p.ret.get(("disc",))
        if d is None or not E.feasible(p.cond, d == 0):
            continue
        n_ok += 1
        ms = E.model(p.cond, z3.And(d == 0, notify_session != state_session))
        if ms is not None and not any(v["key"] == "mir:calc-deltas:other-session-accepted" for v in res.violations):
            fn = mprop.write_cex(res, "calc_deltas_other_session_%d" % i, p, E,
                                 "calc_deltas returns Ok although the notification's session id differs from the local state's "
                                 "(local serial %s, notified serial %s): deltas of another session would be applied, or the copy "
                                 "declared current" % (ms.eval(state_serial, True), ms.eval(notify_serial, True)), ms)
            res.violation("mir:calc-deltas:other-session-accepted",
                          "calc_deltas accepts a notification of a different session (no snapshot fallback): the local copy of the "
                          "old session is reported as up to date / updated by deltas of the new one", fn)
        s2 = p.ret.get((("v", "Ok"), ("f", 0), "s"))
        n2 = p.ret.get((("v", "Ok"), ("f", 0), "n"))
        if s2 is None:
            # the literal empty slice: only right when the serials are equal
            m = E.model(p.cond, z3.And(d == 0, notify_serial != state_serial))
            if m is not None:
                fn = mprop.write_cex(res, "empty_but_behind_%d" % i, p, E, "no deltas selected although the serials differ", m)
                res.violation("mir:calc-deltas:empty-but-behind", "calc_deltas selects no delta although the local serial differs from the notified one", fn)
            continue
        good = [s2 + n2 == n, n2 >= 1]
        for k in range(N):
            good.append(z3.Implies(k < n2, z3.Select(serials, s2 + k) == state_serial + 1 + k))
        good.append(z3.Select(serials, s2 + n2 - 1) == notify_serial)
        m = E.model(p.cond, z3.And(d == 0, z3.Not(z3.And(good))))
        if m is not None:
            nn = m.eval(n, True).as_long()
            lst = [m.eval(z3.Select(serials, k), True).as_long() for k in range(nn)]
            sel = (m.eval(s2, True).as_long(), m.eval(n2, True).as_long())
            desc = ("local serial %d, notification serial %d, delta serials %s: calc_deltas returns Ok with the slice "
                    "[%d..%d) = %s, which is not exactly %d+1 .. %d without gap or duplicate"
                    % (m.eval(state_serial, True).as_long(), m.eval(notify_serial, True).as_long(), lst,
                       sel[0], sel[0] + sel[1], lst[sel[0]:sel[0] + sel[1]],
                       m.eval(state_serial, True).as_long(), m.eval(notify_serial, True).as_long()))
            kind = "gap-or-duplicate"
            ok, note = native_replay(res, m.eval(state_serial, True).as_long(), m.eval(notify_serial, True).as_long(), lst)
            fn = mprop.write_cex(res, "calc_deltas_%s_%d" % (kind, i), p, E, desc + "\n" + note, m)
            if ok is False:
                res.inconclusive.append("calc_deltas counterexample did not reproduce natively: " + note)
            elif not any(v["key"] == "mir:calc-deltas:" + kind for v in res.violations):
                res.violation("mir:calc-deltas:" + kind, desc + ("; reproduced natively" if ok else ""), fn)
        res.samples.append({"calc_deltas_ok_path_blocks": len(p.trace)})
    if n_ok == 0:
        res.inconclusive.append("vacuity: calc_deltas has no Ok path")
    res.extra["calc_deltas_paths"] = len(paths)
    res.distinct += n_ok
    return n_ok


def check_check_deltas(res, E):
    """Notification::check_deltas: Ok only if every listed delta whose serial the local state knows has the
    known hash (a rewritten delta, applied or not, forces a snapshot)."""
    body = E.prog.find("src/collector/rrdp/update.rs", "Notification", "check_deltas")
    res.functions.append("routinator::collector::rrdp::update::Notification::check_deltas (MIR, %d blocks)" % len(body.blocks))
    serials = z3.Array("cd_delta_serial", z3.IntSort(), z3.BitVecSort(64))
    dhash = z3.Array("cd_delta_hash", z3.IntSort(), z3.IntSort())
    known = z3.Array("cd_state_has", z3.BitVecSort(64), z3.BoolSort())
    shash = z3.Array("cd_state_hash", z3.BitVecSort(64), z3.IntSort())
    n = z3.Int("cd_n_deltas")
    st_fields = mir.struct_fields("RepositoryState", "src/collector/rrdp/archive.rs")
    state_serial = z3.BitVec("cd_state_serial", 64)
    statep = mir.Opq("&RepositoryState", "state")
    E.solver.add(n >= 0, n <= N)

    def m_deltas(E_, st, frame, callee, argvals, dest_ty):
        return {(): mir.Opq("&[DeltaInfo]", "slice"), ("s",): z3.IntVal(0), ("n",): n}

    def m_into_iter(E_, st, frame, callee, argvals, dest_ty):
        v = argvals[0]
        if ("n",) not in v:
            return NotImplemented
        return {(): mir.Opq("slice::Iter<DeltaInfo>", "iter"), ("s",): v[("s",)], ("n",): v[("n",)]}

    def m_next(E_, st, frame, callee, argvals, dest_ty):
        r = argvals[0].get(())
        if not isinstance(r, mir.Ref):
            return NotImplemented
        cur = E_.load(st, r.loc)
        if ("n",) not in cur:
            return NotImplemented
        s0, n0 = cur[("s",)], cur[("n",)]
        has = n0 > 0
        new = dict(cur)
        new[("s",)] = z3.simplify(z3.If(has, s0 + 1, s0))
        new[("n",)] = z3.simplify(z3.If(has, n0 - 1, n0))
        E_.store(st, r.loc, new)
        return {("disc",): z3.If(has, z3.IntVal(1), z3.IntVal(0)),
                (("v", "Some"), ("f", 0)): mir.Opq("&DeltaInfo", "elem"), (("v", "Some"), ("f", 0), "idx"): s0}

    def m_dserial(E_, st, frame, callee, argvals, dest_ty):
        idx = argvals[0].get(("idx",))
        return {(): z3.Select(serials, idx)} if idx is not None else NotImplemented

    def m_deref(E_, st, frame, callee, argvals, dest_ty):
        return dict(argvals[0]) if ("idx",) in argvals[0] else NotImplemented

    def m_hash(E_, st, frame, callee, argvals, dest_ty):
        idx = argvals[0].get(("idx",))
        return {(): z3.Select(dhash, idx)} if idx is not None else NotImplemented

    def m_get(E_, st, frame, callee, argvals, dest_ty):
        k = E_._through_ref(st, argvals[1]).get(())
        if not mir.is_z(k):
            return NotImplemented
        E_.fresh_n += 1
        loc = ("STATEHASH%d" % E_.fresh_n,)
        st.mem[loc] = z3.Select(shash, k)
        return {("disc",): z3.If(z3.Select(known, k), z3.IntVal(1), z3.IntVal(0)), (("v", "Some"), ("f", 0)): mir.Ref(loc)}

    def pre(E_, st, frame):
        st.mem[(("o", statep.id), "deref", ("f", st_fields.index("serial")))] = state_serial

    paths = E.explore(body, max_visits=N + 2, nomut=[r"."], arg_values={"_2": {(): statep}}, pre=pre, max_paths=200000, models={
        r"NotificationFile::deltas$": m_deltas,
        r"^<&\[DeltaInfo\] as IntoIterator>::into_iter$|<impl \[DeltaInfo\]>::iter$": m_into_iter,
        r"^<std::slice::Iter<'_, DeltaInfo> as Iterator>::next$": m_next,
        r"DeltaInfo::serial$": m_dserial, r"^<DeltaInfo as Deref>::deref$": m_deref,
        r"UriAndHash::hash$": m_hash, r"^HashMap::<u64, .*Hash>::get::<u64>$": m_get,
    })
    n_ok = 0
    for i, p in enumerate(paths):
        if p.kind == "bound":
            if E.feasible(p.cond):
                res.inconclusive.append("check_deltas: a feasible path exceeds %d iterations" % (N + 2))
            continue
        if p.kind != "return":
            continue
        d = p.ret.get(("disc",))
        if d is None or not E.feasible(p.cond, d == 0):
            continue
        n_ok += 1
        mism = z3.Or([z3.And(k < n, z3.Select(known, z3.Select(serials, k)),
                             z3.Select(dhash, k) != z3.Select(shash, z3.Select(serials, k))) for k in range(N)])
        m = E.model(p.cond, z3.And(d == 0, mism))
        if m is not None and not any(v["key"] == "mir:check-deltas:rewritten-delta-accepted" for v in res.violations):
            nn = m.eval(n, True).as_long()
            lst = [(m.eval(z3.Select(serials, k), True).as_long(), m.eval(z3.Select(dhash, k), True).as_long()) for k in range(nn)]
            kn = [(sv, m.eval(z3.Select(shash, z3.BitVecVal(sv, 64)), True).as_long())
                  for sv, _ in lst if z3.is_true(m.eval(z3.Select(known, z3.BitVecVal(sv, 64)), True))]
            loc = m.eval(state_serial, True).as_long()
            desc = ("local serial %d with known delta hashes %s; notification lists (serial, hash) %s: check_deltas returns "
                    "Ok although a delta the local state knows is listed with a different hash (rewritten history is "
                    "not detected, no snapshot fallback)" % (loc, kn, lst))
            fn = mprop.write_cex(res, "check_deltas_%d" % i, p, E, desc, m)
            res.violation("mir:check-deltas:rewritten-delta-accepted", desc, fn)
    if n_ok == 0:
        res.inconclusive.append("vacuity: check_deltas has no Ok path")
    res.extra["check_deltas_paths"] = len(paths)
    res.distinct += n_ok


def check_update_gating(res, E):
    f = "src/collector/rrdp/base.rs"
    body = E.prog.find(f, "RepositoryUpdate", "update")
    paths = E.explore(body, max_visits=2, nomut=[r"."])
    res.functions.append("RepositoryUpdate::{update, delta_update, snapshot_update} (MIR)")
    n = 0
    for i, p in enumerate(paths):
        if p.kind != "return":
            continue
        d = p.ret.get(("disc",))
        v = p.ret.get((("v", "Ok"), ("f", 0)))
        if d is None or v is None:
            continue
        if mir.is_z(v) and E.feasible(p.cond, z3.And(d == 0, v)):
            n += 1
            nm = [e for e in p.events if e.kind == "call" and re.search(r"RepositoryUpdate::not_modified$", e.name)]
            du = [e for e in p.events if e.kind == "call" and re.search(r"RepositoryUpdate::delta_update$", e.name)]
            su = [e for e in p.events if e.kind == "call" and re.search(r"RepositoryUpdate::snapshot_update$", e.name)]
            ok = False
            if nm and must(E, p, is_ok(E, p, nm[-1])):
                ok = True
            if du:
                leaf = du[-1].dest.get(())
                dd = mir.peek(E, p.mem, (("o", leaf.id), "disc"))
                od = mir.peek(E, p.mem, (("o", leaf.id), ("v", "Ok"), ("f", 0), "disc"))
                if dd is not None and od is not None and must(E, p, z3.And(dd == 0, od == 0)):
                    ok = True
            if su:
                leaf = su[-1].dest.get(())
                sv = mir.peek(E, p.mem, (("o", leaf.id), ("v", "Ok"), ("f", 0)))
                if sv is not None and v is sv or (mir.is_z(sv) and must(E, p, sv)):
                    ok = True
            if not ok:
                fn = mprop.write_cex(res, "update_true_%d" % i, p, E, "update() returns Ok(true) without a completed not-modified / delta / snapshot update")
                res.violation("mir:update-reported-without-success", "an RRDP update is reported successful although no update path completed", fn)
    body = E.prog.find(f, "RepositoryUpdate", "delta_update")
    paths = E.explore(body, max_visits=3, nomut=[r"."])
    # the state (serial, session, ETag, delta hashes) describes what the archive holds: it is written only after
    # every selected delta has been applied - on every path, whatever the path returns later
    early = None
    for i, p in enumerate(paths):
        st_at = [x for x, e in enumerate(p.events) if e.kind == "call" and re.search(r"RrdpArchive::update_state$", e.name)]
        if not st_at:
            continue
        n += 1
        for x, e in enumerate(p.events):
            if e.kind == "call" and re.search(r"DeltaUpdate::try_update$", e.name):
                if x > st_at[0] and early is None:
                    early = (i, p, "the new state is written before delta application finished (a delta is applied after update_state)")
                elif x < st_at[0] and (is_ok(E, p, e) is None or not must(E, p, is_ok(E, p, e))) and early is None:
                    early = (i, p, "the new state is written although a delta failed to apply")
    if early:
        i, p, what = early
        fn = mprop.write_cex(res, "state_before_deltas_%d" % i, p, E, what)
        res.violation("mir:delta-update-state-before-deltas", "delta_update: " + what + ": if a later delta (and the fallback snapshot) fails, or the process "
                      "is killed, the archive claims the notified serial while holding older content; the next Not Modified / equal serial is then reported as updated", fn)
    for i, p in enumerate(paths):
        if p.kind != "return":
            continue
        d = p.ret.get(("disc",))
        od = p.ret.get((("v", "Ok"), ("f", 0), "disc"))
        if d is None or od is None or not E.feasible(p.cond, z3.And(d == 0, od == 0)):
            continue
        n += 1
        problems = []
        for pat, pred, desc in ((r"Notification::check_deltas$", is_ok, "known delta hashes unchanged"),
                                (r"RepositoryUpdate::calc_deltas$", is_ok, "delta chain selected"),
                                (r"RrdpArchive::update_state$", is_ok, "new state written")):
            ev = [e for e in p.events if e.kind == "call" and re.search(pat, e.name)]
            if not ev or pred(E, p, ev[-1]) is None or not must(E, p, pred(E, p, ev[-1])):
                problems.append(desc)
        for e in p.events:
            if e.kind == "call" and re.search(r"DeltaUpdate::try_update$", e.name):
                if is_ok(E, p, e) is None or not must(E, p, is_ok(E, p, e)):
                    problems.append("every delta applied")
        if problems:
            fn = mprop.write_cex(res, "delta_update_ok_%d" % i, p, E, "delta_update returns Ok(None) although: " + "; ".join(problems))
            res.violation("mir:delta-update-success-without:" + re.sub(r"\W+", "-", problems[0]),
                          "delta_update reports success although not: " + "; ".join(problems), fn)
    body = E.prog.find(f, "RepositoryUpdate", "snapshot_update")
    paths = E.explore(body, max_visits=2, nomut=[r"."])
    for i, p in enumerate(paths):
        if p.kind != "return":
            continue
        d = p.ret.get(("disc",))
        v = p.ret.get((("v", "Ok"), ("f", 0)))
        if d is None or v is None or not mir.is_z(v) or not E.feasible(p.cond, z3.And(d == 0, v)):
            continue
        n += 1
        problems = []
        for pat, pred, desc in ((r"SnapshotUpdate::try_update$", is_ok, "snapshot fetched, hash-verified and stored"),
                                (r"fs::rename$|rename$", is_ok, "new archive moved into place")):
            ev = [e for e in p.events if e.kind == "call" and re.search(pat, e.name)]
            if not ev or pred(E, p, ev[-1]) is None or not must(E, p, pred(E, p, ev[-1])):
                problems.append(desc)
        if problems:
            fn = mprop.write_cex(res, "snapshot_update_ok_%d" % i, p, E, "snapshot_update returns Ok(true) although: " + "; ".join(problems))
            res.violation("mir:snapshot-update-success-without:" + re.sub(r"\W+", "-", problems[0]),
                          "snapshot_update reports success although not: " + "; ".join(problems), fn)
    if n < 3:
        res.inconclusive.append("vacuity: update gating checked only %d success paths" % n)
    res.distinct += n


def run(res, tier):
    global N
    N = 4 if tier == "quick" else 6
    E = mprop.engine(res)
    res.extra.setdefault("source_files_sha256", {}).update(mprop.source_hashes(
        ["src/collector/rrdp/base.rs", "src/collector/rrdp/update.rs", "src/collector/rrdp/archive.rs"]))
    check_calc_deltas(res, E)
    check_check_deltas(res, E)
    check_update_gating(res, E)
    res.bounds += [
        "calc_deltas: notification delta list of 0..%d entries with fully symbolic 64-bit serials, sorted ascending as "
        "Notification::from_response leaves it (gaps and duplicates allowed); local and notified serial symbolic; "
        "longer lists are outside the bound" % N,
        "check_deltas: the same bound on the list; the local state's known serials and hashes are an arbitrary map "
        "(z3 arrays); hashes are abstract ids; Ok must imply that every listed delta with a known serial has the known hash",
        "update / delta_update / snapshot_update: all paths, delta application loop unrolled to 2 deltas",
    ]
    res.assumptions += [
        "slices are modelled as (start, length) over a symbolic array of serials (models for first/last/index/len/"
        "DeltaInfo::serial listed in props/c25.py); XML parsing, HTTP and the archive are opaque oracles",
        "that DeltaUpdate::try_update applies one delta faithfully and verifies its hash is outside the claim (archive I/O)",
    ]
    res.rule = ("one case = one Ok path of calc_deltas (z3 query over the symbolic list: selected slice is exactly "
                "local+1..notified, contiguous) or one success path of update/delta_update/snapshot_update (gating)")
    mprop.finish_engine(res, E)


_NATIVE = {}


def native_replay(res, local, notified, serials):
    """Feed the solver's delta list (as a real notification XML) to the real calc_deltas."""
    key = (local, notified, tuple(serials))
    if key in _NATIVE:
        return _NATIVE[key]
    import os
    import nativetest
    from vcommon import VERIF
    h = "a" * 64
    deltas = "".join('<delta serial="%d" uri="https://example.net/d%d-%d.xml" hash="%s"/>' % (x, k, x, h)
                     for k, x in enumerate(serials))
    xml = ('<notification xmlns="http://www.ripe.net/rpki/rrdp" version="1" '
           'session_id="9df4b597-af9e-4dca-bdda-719cce2c4e28" serial="%d">'
           '<snapshot uri="https://example.net/snapshot.xml" hash="%s"/>%s</notification>' % (notified, h, deltas))
    src = """// generated by props/c25.py: native replay of a solver-found delta list
use super::*;
use std::str::FromStr;
#[test]
fn c25_native_replay() {
    let _ = crate::process::Process::init();
    let dir = tempfile::tempdir().unwrap();
    let config = Config::default_with_paths(Default::default(), dir.path().into());
    Collector::init(&config).unwrap();
    let collector = Collector::new(&config).unwrap().unwrap();
    let uri = uri::Https::from_str("https://example.net/notification.xml").unwrap();
    let mut log = LogBookWriter::new(None);
    let mut upd = RepositoryUpdate::new(&collector, &uri, &mut log).unwrap();
    let xml = r#"%s"#;
    let mut notify = NotificationFile::parse(xml.as_bytes()).unwrap();
    notify.sort_deltas();
    let state = RepositoryState {
        rpki_notify: uri.clone(), session: notify.session_id(), serial: %du64,
        updated_ts: 0, best_before_ts: 0, last_modified_ts: None, etag: None,
        delta_state: Default::default(),
    };
    match upd.calc_deltas(&notify, &state) {
        Ok(deltas) => {
            let got: Vec<u64> = deltas.iter().map(|d| d.serial()).collect();
            println!("C25-NATIVE Ok {:?}", got);
            let mut expect = state.serial;
            for s in &got {
                expect += 1;
                assert_eq!(*s, expect, "delta chain is not contiguous from the local serial");
            }
            assert_eq!(expect, notify.serial(), "delta chain does not end at the notified serial");
        }
        Err(reason) => println!("C25-NATIVE Err {:?}", reason),
    }
}
""" % (xml, local)
    path = os.path.join(VERIF, "native", "c25_generated.rs")
    with open(path, "w") as f:
        f.write(src)
    failed, passed, out = nativetest.run_native_test("native_c25", "c25_native_replay")
    m = re.search(r"C25-NATIVE (.*)", out)
    res.extra.setdefault("native_replays", []).append({"local": local, "notified": notified, "serials": list(serials),
                                                       "observed": m.group(1) if m else None, "test_failed": failed})
    if failed:
        r = (True, "native replay: real calc_deltas returned " + (m.group(1) if m else "?"))
    elif passed:
        r = (False, "native replay passed: " + (m.group(1) if m else ""))
    else:
        r = (None, "native replay could not be built/run: " + out[-400:])
    _NATIVE[key] = r
    return r
