"""C15 Responses pair each serial with its own data (lock-scope extraction from MIR + MC over schedules)."""
import json
import os
import re

import z3

import mc
import mir
import mprop
from gating import must, disc_of

SERIAL_READ = r"PayloadHistory::(serial|session_and_serial)$"
DATA_READ = r"PayloadHistory::(current|delta_since)$"
ACQ = r"(SharedHistory::(read|write)|RwLock::<.*PayloadHistory.*>::(read|write)|RwLock::(read|write))$"


def ops_of(E, p, hist_fields):
    """Visible operations of a path: lock / unlock / read_serial / read_data / write_serial / write_data."""
    ops = []
    guards = {}
    i_cur = hist_fields.index("current")
    i_del = hist_fields.index("deltas")
    writes_at = {}
    for loc, at in p.writes:
        for part in loc:
            if isinstance(part, tuple) and part[0] == "f":
                writes_at.setdefault(at, []).append(part[1])
                break
    reads_at = {}
    for loc, at in p.reads:
        for part in loc:
            if isinstance(part, tuple) and part[0] == "f":
                reads_at.setdefault(at, set()).add(part[1])
                break

    def alias_of(leaf):
        """std's LockResult is unwrapped by a modelled expect(): the guard is the Ok payload of the acquired value."""
        if not isinstance(leaf, mir.Opq):
            return None
        if leaf.id in guards:
            return leaf.id
        for g in list(guards):
            a = mir.peek(E, p.mem, (("o", g), ("v", "Ok"), ("f", 0)))
            if isinstance(a, mir.Opq) and a.id == leaf.id:
                return g
        return None
    for idx, e in enumerate(p.events):
        if guards and i_cur in reads_at.get(idx, set()) and not (e.kind == "call" and re.search(DATA_READ, e.name)):
            ops.append(("read_data",))
        for f in writes_at.get(idx, []):
            if f == i_cur:
                ops.append(("write_data",))
            elif f == i_del:
                ops.append(("write_serial",))
        if e.kind == "drop":
            leaf = e.args[0].get(()) if e.args else None
            g = alias_of(leaf)
            if g is not None:
                ops.append(("unlock", guards.pop(g)))
            continue
        if e.kind != "call":
            continue
        m = re.search(ACQ, e.name)
        if m:
            kind = "w" if e.name.endswith("write") else "r"
            leaf = e.dest.get(())
            # std's RwLock::read returns a LockResult that is unwrapped by expect(): follow it
            ops.append(("lock", kind))
            if isinstance(leaf, mir.Opq):
                guards[leaf.id] = kind
            continue
        if re.search(r"Result::<.*Guard.*>::expect$|::expect$", e.name) and e.args:
            src = e.args[0].get(())
            dst = e.dest.get(())
            if isinstance(src, mir.Opq) and src.id in guards and isinstance(dst, mir.Opq):
                guards[dst.id] = guards.pop(src.id)
            continue
        if re.search(SERIAL_READ, e.name):
            ops.append(("read_serial",))
        if re.search(DATA_READ, e.name):
            ops.append(("read_data",))
        if re.search(r"PayloadHistory::push_delta$", e.name):
            ops.append(("write_serial",))
    for f in writes_at.get(len(p.events), []):
        if f == i_cur:
            ops.append(("write_data",))
    # guards still alive at the end are released at return
    for g in list(guards.values()):
        ops.append(("unlock", g))
    # consecutive identical reads are one read for the pairing question
    out = []
    for o in ops:
        if out and out[-1] == o and o[0] in ("read_data", "read_serial"):
            continue
        out.append(o)
    return out


def reader_programs(res, E, hist_fields):
    targets = [
        ("SharedHistory::full", E.prog.find("src/payload/history.rs", "SharedHistory", "full", trait="PayloadSource")),
        ("SharedHistory::diff", E.prog.find("src/payload/history.rs", "SharedHistory", "diff", trait="PayloadSource")),
        ("http::delta::handle_get_or_head", [b for n, bs in E.prog.bodies.items() if n == "http::delta::handle_get_or_head" for b in bs][0].parse()),
        ("http::payload::State::handle_get_or_head", E.prog.find("src/http/payload.rs", "State", "handle_get_or_head")),
    ]
    progs = {}
    for name, body in targets:
        res.functions.append("%s (MIR, %d blocks)" % (name, len(body.blocks)))
        paths = E.explore(body, max_visits=2, nomut=[r"."], keep_drop_events=True,
                          inline=[r"SharedHistory::\w+$", r"^<SharedHistory as PayloadSource>::\w+$|PayloadSource::(notify|ready)$"]
                          if name.startswith("SharedHistory") else [r"SharedHistory::(read|notify|serial|session_and_serial)$"])
        seqs = []
        for p in paths:
            if p.kind != "return":
                continue
            ops = ops_of(E, p, hist_fields)
            if any(o[0] == "read_serial" for o in ops) and any(o[0] == "read_data" for o in ops):
                seq = [(o, None) for o in ops if o[0] in ("lock", "unlock", "read_serial", "read_data")]
                if seq not in seqs:
                    seqs.append(seq)
        if not seqs:
            res.inconclusive.append("vacuity: %s has no path reading both a serial and data" % name)
        progs[name] = seqs
    return progs


def writer_program(res, E, hist_fields):
    body = E.prog.find("src/payload/history.rs", "SharedHistory", "update")
    res.functions.append("SharedHistory::update (MIR, %d blocks)" % len(body.blocks))
    paths = E.explore(body, max_visits=2, nomut=[r"."], keep_drop_events=True, log_enabled=True,
                      inline=[r"SharedHistory::(read|write)$"])
    best = None
    for p in paths:
        if p.kind != "return" or not p.has(r"PayloadHistory::push_delta$"):
            continue
        ops = ops_of(E, p, hist_fields)
        seq = [(o, None) for o in ops if o[0] in ("lock", "unlock", "read_serial", "read_data", "write_serial", "write_data")]
        if best is None or len(seq) > len(best):
            best = seq
    if best is None:
        raise mir.Inconclusive("SharedHistory::update has no path that pushes a delta")
    return best


def run(res, tier):
    E = mprop.engine(res)
    res.extra.setdefault("source_files_sha256", {}).update(mprop.source_hashes(
        ["src/payload/history.rs", "src/http/payload.rs", "src/http/delta.rs", "src/operation.rs"]))
    hist_fields = mir.struct_fields("PayloadHistory", "src/payload/history.rs")
    readers = reader_programs(res, E, hist_fields)
    writer = writer_program(res, E, hist_fields)
    res.extra["writer_ops"] = [" ".join(o) for o, _ in writer]
    res.extra["reader_ops"] = {k: [[" ".join(o) for o, _ in s] for s in v] for k, v in readers.items()}
    if not any(o[0] == "write_data" for o, _ in writer) or not any(o[0] == "write_serial" for o, _ in writer):
        res.inconclusive.append("writer program lacks write_serial/write_data: %s" % res.extra["writer_ops"])
    IV = mc.IV
    n_updates = 2
    total = 0
    for rname, seqs in readers.items():
        for k, rseq in enumerate(seqs):
            _, rnodes = mc.build_automaton([rseq])
            _, rnodes2 = mc.build_automaton([rseq])
            _, wnodes = mc.build_automaton([writer * n_updates])
            init = {"w": IV(-1), "r": IV(0), "serial": IV(0), "data": IV(0)}
            for t in range(2):
                init["s%d" % t] = IV(0)
                init["d%d" % t] = IV(0)
            # the writer's own pair read (delta base) must be consistent too
            init["ws"] = IV(0)
            init["wd"] = IV(0)
            init["wbad"] = z3.BoolVal(False)

            def sem(node, s, i):
                op = node.op
                en, up, nxt = z3.BoolVal(True), {}, None
                if op[0] == "lock":
                    if op[1] == "r":
                        en = s["w"] == IV(-1)
                        up["r"] = s["r"] + 1
                    else:
                        en = z3.And(s["w"] == IV(-1), s["r"] == IV(0))
                        up["w"] = IV(i)
                elif op[0] == "unlock":
                    if op[1] == "r":
                        up["r"] = s["r"] - 1
                    else:
                        up["w"] = IV(-1)
                elif op[0] == "read_serial":
                    up["s%d" % i if i < 2 else "ws"] = s["serial"]
                elif op[0] == "read_data":
                    up["d%d" % i if i < 2 else "wd"] = s["data"]
                elif op[0] == "write_serial":
                    # the delta is built from the pair read earlier: pushing it onto a different base is the
                    # single-writer assumption; record a torn base read
                    up["wbad"] = z3.Or(s["wbad"], s["ws"] != s["wd"])
                    up["serial"] = s["serial"] + 1
                elif op[0] == "write_data":
                    up["data"] = s["data"] + 1
                return en, up, nxt

            steps = 2 * len(rseq) + len(writer) * n_updates + 2
            M = mc.GModel([rnodes, rnodes2, wnodes], init, sem, steps, watch=["serial", "data", "s0", "d0"])
            bad = lambda s: z3.Or(z3.And(M.at_end(s, 0), s["s0"] != s["d0"]), z3.And(M.at_end(s, 1), s["s1"] != s["d1"]), s["wbad"])
            trace = M.check(bad, "torn-read")
            total += 1
            res.evaluations += M.queries
            res.solver_time += M.solver_time
            if trace is not None:
                d = os.path.join(mprop.VERIF, "replays", res.prop)
                os.makedirs(d, exist_ok=True)
                fn = os.path.join(d, "torn_%s_%d.schedule.json" % (re.sub(r"\W+", "_", rname), k))
                with open(fn, "w") as f:
                    json.dump({"property": res.prop, "reader": rname, "reader_ops": [" ".join(o) for o, _ in rseq],
                               "writer_ops": res.extra["writer_ops"], "schedule": trace}, f, indent=1)
                res.violation("mc:torn-pair:" + rname,
                              "%s can pair a serial with the data of a different version (reads or writes of serial and "
                              "data are not inside one lock section)" % rname, fn)
            wit = M.check(lambda s: z3.And(M.at_end(s, 0), M.at_end(s, 2), s["s0"] == IV(n_updates)), "witness")
            if wit is None:
                res.inconclusive.append("vacuity: %s never observes the final version" % rname)
            elif len(res.samples) < 6:
                res.samples.append({"reader": rname, "reader_ops": [" ".join(o) for o, _ in rseq],
                                    "witness": ["T%d:%s" % (x["thread"], x["op"]) for x in wit][:24]})
    res.distinct += total
    # ---- before the first validation completes no data is served --------------------------------------------
    for name, body, data_pat in (
            ("http::delta::handle_get_or_head", [b for n, bs in E.prog.bodies.items() if n == "http::delta::handle_get_or_head" for b in bs][0].parse(),
             r"(handle_delta|handle_reset)$"),
            ("http::payload::State::handle_get_or_head", E.prog.find("src/http/payload.rs", "State", "handle_get_or_head"),
             r"Output::stream$")):
        for i, p in enumerate(E.explore(body, max_visits=2, nomut=[r"."])):
            if p.kind != "return" or not p.has(data_pat):
                continue
            total += 1
            cur = [e for e in p.events if e.kind == "call" and re.search(r"PayloadHistory::(current|is_active)$", e.name)]
            ok = False
            for e in cur:
                if e.name.endswith("is_active"):
                    v = e.dest.get(())
                    ok = ok or (mir.is_z(v) and must(E, p, v))
                else:
                    d = disc_of(E, p, e)
                    ok = ok or (d is not None and must(E, p, d == 1))
            if not ok:
                fn = mprop.write_cex(res, "data_before_first_%d" % i, p, E, "%s produces a data response without a current data set" % name)
                res.violation("mir:data-before-first-validation:" + name, "%s can serve data before the first validation completed" % name, fn)
    res.engines.append("MC: z3 BMC (bit-vector) over 2 readers + 1 writer (2 updates), programs extracted from MIR lock scopes")
    res.bounds.append("2 concurrent readers (same handler) and 1 writer performing 2 data-changing updates; every "
                      "interleaving of lock / unlock / read / write steps; readers: RTR full and diff, /json-delta, payload output")
    res.assumptions += [
        "std RwLock semantics (writer exclusive); one validation thread calls update (single writer: the server has one)",
        "a read/write of the serial is a call of PayloadHistory::serial / session_and_serial / push_delta, of the data a "
        "call of current / delta_since or a write to the `current` field; lock scopes come from guard acquisition and drop in the MIR",
        "notify() reads only (session, serial): no pairing to check; RTR's use of ready() is rpki-rs code",
    ]
    res.rule = ("one case = one (reader handler path, writer) pair checked over all schedules for a torn (serial, data) "
                "pair, plus each data-producing handler path (data only after the first validation); evaluations = z3 queries")
    mprop.finish_engine(res, E)
