"""C19 RTR listener keeps accepting after a failed connection setup (M engine: waker contract + native replay)."""
import re

import z3

import mir
import mprop
from gating import disc_of, must


def poll_state(E, p, ev):
    """'ready' | 'pending' | None for a poll-type call's result on this path (Poll: Ready=0, Pending=1)."""
    d = disc_of(E, p, ev)
    if d is None:
        return None
    if must(E, p, d == 1):
        return "pending"
    if must(E, p, d == 0):
        return "ready"
    return None


def run(res, tier):
    E = mprop.engine(res)
    res.extra.setdefault("source_files_sha256", {}).update(mprop.source_hashes(["src/rtr.rs"]))
    body = E.prog.find("src/rtr.rs", "RtrListener", "poll_next", trait="Stream")
    res.functions.append("<routinator::rtr::RtrListener as Stream>::poll_next (MIR, %d blocks)" % len(body.blocks))
    paths = E.explore(body, max_visits=2, nomut=[r"."])
    n = 0
    notes = []
    seen_setup_fail = False
    def ret_disc(p, prefix):
        """Discriminant term of the returned value at `prefix`, or None if unconstrained / unknown."""
        d = p.ret.get(prefix + ("disc",))
        if d is not None:
            return d, None
        leaf = p.ret.get(prefix)
        if isinstance(leaf, mir.Opq):
            return mir.peek(E, p.mem, (("o", leaf.id), "disc")), leaf
        return None, leaf

    READY = (("v", "Ready"), ("f", 0))
    ITEM = READY + (("v", "Some"), ("f", 0))
    for i, p in enumerate(paths):
        if p.kind != "return":
            continue
        d = p.ret.get(("disc",))
        if d is None:
            continue
        setup = [e for e in p.events if e.kind == "call" and re.search(r"RtrStream::new$", e.name)]
        if must(E, p, d == 0):
            # returns Ready(..): a failed connection setup must not surface as a stream error or end the stream
            # (rpki's Server::run does `sock?` on every item and ends on the first Err; None ends `while let`)
            if not setup:
                continue
            n += 1
            sleaf = setup[-1].dest.get(()) if setup[-1].dest else None
            sd = disc_of(E, p, setup[-1])
            od, _ = ret_disc(p, READY)
            rd, rleaf = ret_disc(p, ITEM)
            fail = z3.BoolVal(True) if sd is None else sd == 1
            if sd is not None and not E.feasible(p.cond, sd == 1):
                continue
            seen_setup_fail = True
            bad = None
            if od is not None and E.feasible(p.cond, z3.And(fail, od == 0)):
                bad = ("stream-ends", "poll_next returns Ready(None) after a failed connection setup: the listener stream ends")
            elif rleaf is not None and rleaf is sleaf:
                bad = ("setup-error-yielded", "poll_next hands the failed RtrStream::new result on as a stream item "
                       "(Ready(Some(Err))): rpki's Server::run applies `?` to every item and stops accepting")
            elif rd is not None and E.feasible(p.cond, z3.And(fail, rd == 1)):
                bad = ("setup-error-yielded", "poll_next returns Ready(Some(Err(..))) after a failed connection setup: "
                       "rpki's Server::run applies `?` to every item and stops accepting")
            res.samples.append({"returns": "Ready", "setup_may_fail": True, "bad": bad[0] if bad else None})
            if bad:
                ok, note = native_replay(res)
                fn = mprop.write_cex(res, "%s_%d" % (bad[0].replace("-", "_"), i), p, E, bad[1] + ". " + note)
                if ok is False:
                    res.inconclusive.append("MIR path '%s' did not reproduce natively" % bad[0])
                else:
                    res.violation("mir:%s" % bad[0], bad[1] + ("; reproduced natively" if ok else ""), fn)
            continue
        if not must(E, p, d == 1):
            continue
        n += 1
        polls = [e for e in p.events if e.kind == "call" and re.search(r"(Future::poll|poll_accept|poll_next|poll_read|poll_write)$", e.name)]
        wakes = [e for e in p.events if e.kind == "call" and re.search(r"Waker::wake(_by_ref)?$|wake_by_ref$", e.name)]
        registered = bool(wakes) or (polls and poll_state(E, p, polls[-1]) == "pending")
        setup_failed = bool(setup) and disc_of(E, p, setup[-1]) is not None and must(E, p, disc_of(E, p, setup[-1]) == 1)
        new_timer = p.has(r"tokio::time::sleep$")
        res.samples.append({"returns": "Pending", "polls": [(e.name.split("::")[-1], poll_state(E, p, e)) for e in polls],
                            "setup_failed": setup_failed, "wake_registered": bool(registered)})
        if setup_failed:
            seen_setup_fail = True
            if not registered:
                ok, note = native_replay(res)
                fn = mprop.write_cex(res, "pending_without_waker_%d" % i, p, E,
                                     "poll_next returns Poll::Pending after RtrStream::new failed although the last poll "
                                     "(poll_accept) returned Ready and no waker was woken or registered: the listener "
                                     "task is never polled again. " + note)
                if ok is False:
                    res.inconclusive.append("MIR path 'Pending without waker' did not reproduce natively")
                else:
                    res.violation("mir:pending-without-waker:setup-failed",
                                  "after a failed connection setup poll_next returns Pending without any registered "
                                  "wake-up (listener stalls)%s" % ("; reproduced natively" if ok else ""), fn)
        elif not registered:
            notes.append("arm outside C19's statement: Pending without a registered wake-up after %s"
                         % ("an accept error (fresh, never-polled back-off timer)" if new_timer else "other"))
    if not seen_setup_fail:
        res.inconclusive.append("vacuity: no path on which RtrStream::new can fail")
    res.notes += sorted(set(notes))
    res.distinct += n
    res.extra["paths"] = len(paths)
    res.bounds.append("all paths of one poll_next call from an arbitrary listener state (back-off timer set or not); "
                      "sequences of connections are covered because each call starts from an arbitrary state")
    res.assumptions += [
        "waker contract of std::task: a poll function that returns Pending must have arranged a wake-up, i.e. its last "
        "inner poll returned Pending (which registers the waker) or it woke the waker itself; a stream that breaks "
        "this is not polled again by the rpki-rs RTR server loop",
        "tokio's poll_accept / Sleep::poll register the waker exactly when they return Pending",
    ]
    res.assumptions.append("rpki-rs rtr::Server::run ends on the first Err item (`sock?`) or None of the listener stream "
                           "(read off the pinned rpki-rs source)")
    check_setup_never_panics(res, E)
    res.rule = ("one case = one feasible path of poll_next that returns Pending, or that returns Ready after a "
                "connection setup; assertions on the paths where the per-connection setup failed: a wake-up is "
                "arranged, and no Err item / end of stream is produced; evaluations = z3 queries")
    mprop.finish_engine(res, E)


PANICKY = r"(Result|Option)(::<.*>)?::(unwrap|expect|unwrap_err|expect_err)$|panicking::|(^|::)(panic|panic_fmt|begin_panic|unwrap_failed|expect_failed|unreachable|panic_bounds_check)$|PANIC:"


def check_setup_never_panics(res, E):
    """per-connection setup fails by returning Err, never by panicking (a panic unwinds through poll_next and ends
    the listener task just like an Err item would)"""
    import nativetest
    from gating import must
    body = E.prog.find("src/rtr.rs", "RtrStream", "new")
    paths = E.explore(body, max_visits=2, nomut=[r"."], inline=[r"RtrStream::set_keepalive", r"set_keepalive::\{closure"], follow_panics=True)
    res.functions.append("routinator::rtr::RtrStream::{new, set_keepalive + closure} (MIR, panics followed)")
    n = 0
    sus = []
    for i, p in enumerate(paths):
        n += 1
        if p.kind == "panic":
            sus.append((p, "assertion / overflow check can fail: %s" % [e.name for e in p.events if e.kind == "panic"][-1:]))
            continue
        for e in p.events:
            if e.kind != "call" or not re.search(PANICKY, e.name):
                continue
            forced = False
            if re.search(r"::(unwrap|expect)$", e.name) and e.args:
                a = e.args[0]
                leaf = a.get(())
                d = mir.peek(E, p.mem, (("o", leaf.id), "disc")) if isinstance(leaf, mir.Opq) else a.get(("disc",))
                want = 1 if "Option" in e.name else 0
                forced = d is not None and must(E, p, d == want)
            if not forced:
                sus.append((p, "%s on a value that is not forced to succeed" % e.name))
    res.distinct += n
    res.samples.append({"setup_paths": n, "possible_panics": [w for _, w in sus][:5]})
    if not n:
        res.inconclusive.append("vacuity: RtrStream::new has no explored path")
    if sus:
        failed, passed, out = nativetest.run_native_test("native_c19", "c19_native_setup_never_panics")
        res.evaluations += 1
        p, what = sus[0]
        fn = mprop.write_cex(res, "setup_panics", p, E, "per-connection setup can panic: " + what + "\n\nnative replay (keepalive seconds around every conversion boundary):\n" + out[-2500:])
        if failed:
            res.violation("mir:setup-panics", "per-connection setup (RtrStream::new / set_keepalive) panics instead of returning an error (%s): "
                          "the panic unwinds through RtrListener::poll_next and ends the listener task; reproduced natively" % what, fn)
        elif passed:
            res.inconclusive.append("possible panic in per-connection setup (%s) did not reproduce natively" % what)
        else:
            res.inconclusive.append("possible panic in per-connection setup (%s); native replay could not run" % what)


_NATIVE = {}


def native_replay(res):
    if "r" in _NATIVE:
        return _NATIVE["r"]
    _NATIVE["r"] = _native_replay(res)
    return _NATIVE["r"]


def _native_replay(res):
    import nativetest
    failed, passed, out = nativetest.run_native_test("native_c19", "c19_native_pending_without_wake")
    m = re.search(r"C19-NATIVE (.*)", out)
    res.extra.setdefault("native_replays", []).append({"test": "c19_native_pending_without_wake", "failed": failed,
                                                       "observed": m.group(1) if m else None})
    if failed:
        return True, "Native replay: real poll_next with a counting waker: " + (m.group(1) if m else "")
    if passed:
        return False, "native test passed"
    return None, "native replay could not be built/run: " + out[-300:]
