"""C39 Data refresh deadline never exceeds contributing objects' expiry (M engine, ordered time values)."""
import re

import z3

import mir
import mprop
from gating import check_gates, is_true, must, disc_of

F = "src/payload/validation.rs"


def field_leaf(E, p, root, *proj):
    return mir.peek(E, p.mem, (("o", root.id), "deref") + proj)


def run(res, tier):
    E = mprop.engine(res)
    res.extra.setdefault("source_files_sha256", {}).update(mprop.source_hashes([F, "src/engine.rs"]))
    total = 0
    o = E.ord_var
    pp = mir.struct_fields("PubPoint", F)
    ppp = mir.struct_fields("PubPointProcessor", F)
    i_refresh = pp.index("refresh")

    # ---- PubPoint::update_refresh: refresh' = min(refresh, t) ------------------------------------------
    selfp = mir.Opq("&mut PubPoint", "self")
    old = mir.Opq("Time", "old_refresh")
    t = mir.Opq("Time", "t")

    def pre(E_, st, frame):
        st.mem[(("o", selfp.id), "deref", ("f", i_refresh))] = old
    body = E.prog.find(F, "PubPoint", "update_refresh")
    res.functions.append("payload::validation::PubPoint::{update_refresh,new_ca}, PubPointProcessor::{point_validity,process_roa,"
                         "process_aspa,process_router_cert,process_ca}, SnapshotBuilder::update_refresh (MIR)")
    for i, p in enumerate(E.explore(body, max_visits=2, arg_values={"_1": {(): selfp}, "_2": {(): t}}, pre=pre)):
        if p.kind != "return":
            continue
        total += 1
        new = field_leaf(E, p, selfp, ("f", i_refresh))
        if new is None or E.feasible(p.cond, z3.Not(z3.And(o(new) <= o(old), o(new) <= o(t), z3.Or(o(new) == o(old), o(new) == o(t))))):
            fn = mprop.write_cex(res, "update_refresh_%d" % i, p, E, "PubPoint::update_refresh does not store min(refresh, t)")
            res.violation("mir:refresh:update-refresh-not-min", "PubPoint::update_refresh can leave a refresh time later than the given expiry", fn)

    # ---- PubPointProcessor::point_validity ------------------------------------------------------------------
    sp = mir.Opq("&mut PubPointProcessor", "self")
    stale = mir.Opq("Time", "stale")
    body = E.prog.find(F, "PubPointProcessor", "point_validity", trait="ProcessPubPoint")

    def pre2(E_, st, frame):
        st.mem[(("o", sp.id), "deref", ("f", ppp.index("pub_point")), ("f", i_refresh))] = old
    for i, p in enumerate(E.explore(body, max_visits=2, arg_values={"_1": {(): sp}, "_3": {(): stale}}, pre=pre2,
                                    pure=[r"Validity::not_after$"])):
        if p.kind != "return":
            continue
        total += 1
        new = field_leaf(E, p, sp, ("f", ppp.index("pub_point")), ("f", i_refresh))
        na = [e for e in p.events if re.search(r"Validity::not_after$", e.name)]
        conds = [o(new) <= o(old), o(new) <= o(stale)] if new is not None else []
        if na:
            conds.append(o(new) <= o(na[0].dest.get(())))
        if new is None or not na or E.feasible(p.cond, z3.Not(z3.And(conds))):
            fn = mprop.write_cex(res, "point_validity_%d" % i, p, E,
                                 "point_validity does not bound refresh by the manifest EE cert's notAfter and the point's stale time")
            res.violation("mir:refresh:point-validity-not-min",
                          "the publication point's refresh time can exceed the manifest certificate's notAfter or the manifest/CRL nextUpdate", fn)

    # ---- PubPoint::new_ca: child starts at min(parent.refresh, cert.notAfter) --------------------------------------
    body = E.prog.find(F, "PubPoint", "new_ca")
    parent = mir.Opq("&PubPoint", "parent")

    def pre3(E_, st, frame):
        st.mem[(("o", parent.id), "deref", ("f", i_refresh))] = old
    for i, p in enumerate(E.explore(body, max_visits=2, arg_values={"_1": {(): parent}}, pre=pre3, pure=[r"Validity::not_after$"],
                                    inline=[r"PubPoint::new$"])):
        if p.kind != "return":
            continue
        total += 1
        new = p.ret.get((("f", i_refresh),))
        na = [e for e in p.events if re.search(r"Validity::not_after$", e.name)]
        if new is None or not na or E.feasible(p.cond, z3.Not(z3.And(o(new) <= o(old), o(new) <= o(na[0].dest.get(()))))):
            fn = mprop.write_cex(res, "new_ca_%d" % i, p, E, "a child CA's refresh is not bounded by its parent's refresh and its certificate's notAfter")
            res.violation("mir:refresh:new-ca-not-min", "a child CA starts with a refresh time later than its chain allows", fn)
        orig = p.ret.get((("f", pp.index("orig_refresh")),))
        if new is not None and orig is not new:
            fn = mprop.write_cex(res, "new_ca_orig_%d" % i, p, E, "orig_refresh differs from the initial refresh")
            res.violation("mir:refresh:orig-refresh-differs", "restart() would restore a refresh time other than the chain's", fn)

    # ---- SnapshotBuilder::update_refresh ------------------------------------------------------------------------------
    sbf = mir.struct_fields("SnapshotBuilder", F)
    sb = mir.Opq("&mut SnapshotBuilder", "self")
    od = z3.Int("old_disc")
    E.solver.add(z3.And(od >= 0, od <= 1))

    def pre4(E_, st, frame):
        st.mem[(("o", sb.id), "deref", ("f", sbf.index("refresh")), "disc")] = od
        st.mem[(("o", sb.id), "deref", ("f", sbf.index("refresh")), ("v", "Some"), ("f", 0))] = old
    body = E.prog.find(F, "SnapshotBuilder", "update_refresh")
    for i, p in enumerate(E.explore(body, max_visits=2, arg_values={"_1": {(): sb}, "_2": {(): t}}, pre=pre4)):
        if p.kind != "return":
            continue
        total += 1
        nd = field_leaf(E, p, sb, ("f", sbf.index("refresh")), "disc")
        nv = field_leaf(E, p, sb, ("f", sbf.index("refresh")), ("v", "Some"), ("f", 0))
        ok = nd is not None and nv is not None and must(E, p, nd == 1) and \
            not E.feasible(p.cond, z3.Not(z3.And(o(nv) <= o(t), z3.Implies(od == 1, o(nv) <= o(old)))))
        if not ok:
            fn = mprop.write_cex(res, "snapshot_refresh_%d" % i, p, E, "SnapshotBuilder::update_refresh does not keep the minimum")
            res.violation("mir:refresh:snapshot-refresh-not-min", "the data set's refresh time can exceed a publication point's", fn)

    # ---- contributing objects lower the refresh ----------------------------------------------------------------------------
    body = E.prog.find(F, "PubPointProcessor", "process_roa", trait="ProcessPubPoint")
    for i, p in enumerate(E.explore(body, max_visits=2, nomut=[r"."], pure=[r"Validity::not_after$", r"ResourceCert::validity$"])):
        if p.kind != "return":
            continue
        ar = [e for e in p.events if e.kind == "call" and re.search(r"PubPoint::add_roa$", e.name)]
        if not ar:
            continue
        total += 1
        added = ar[-1].dest.get(())
        upd = [e for e in p.events if e.kind == "call" and re.search(r"PubPoint::update_refresh$", e.name)]
        if mir.is_z(added) and E.feasible(p.cond, added) and not upd:
            fn = mprop.write_cex(res, "roa_no_refresh_%d" % i, p, E, "a ROA contributed origins but its EE certificate's notAfter does not lower the refresh time")
            res.violation("mir:refresh:roa-not-accounted", "a contributing ROA's notAfter is not applied to the refresh deadline", fn)
        if upd:
            na = [e for e in p.events if re.search(r"Validity::not_after$", e.name)]
            if not na or upd[-1].args[1].get(()) is not na[-1].dest.get(()):
                fn = mprop.write_cex(res, "roa_wrong_time_%d" % i, p, E, "update_refresh is not given the ROA certificate's notAfter")
                res.violation("mir:refresh:roa-wrong-time", "the refresh deadline is updated with something other than the ROA certificate's notAfter", fn)
    # ... and "contributed" is reported faithfully: add_roa returns true iff it pushed at least one origin
    body = E.prog.find(F, "PubPoint", "add_roa")
    n_flag = 0
    for i, p in enumerate(E.explore(body, max_visits=3 if tier == "quick" else 4, nomut=[r"."], pure=[r"Prefix::is_v4$", r"Prefix::len$"])):
        if p.kind != "return":
            continue
        ret = p.ret.get(())
        pushed = any(e.kind == "call" and re.search(r"Vec::<.*>::push$|Vec::push$", e.name) for e in p.events)
        if ret is None or not (mir.is_z(ret) or isinstance(ret, bool)):
            res.inconclusive.append("add_roa path %d: return value is not a Boolean" % i)
            continue
        n_flag += 1
        r = ret if mir.is_z(ret) else z3.BoolVal(ret)
        # only the unsafe direction: origins were added but the caller is told nothing was (an over-cautious true is harmless)
        if pushed and E.feasible(p.cond, z3.Not(r)):
            fn = mprop.write_cex(res, "add_roa_flag_%d" % i, p, E, "add_roa %s an origin on this path but can return %s" % ("pushes" if pushed else "pushes no", not pushed))
            res.violation("mir:refresh:roa-contribution-flag-wrong", "add_roa's 'contributed' result is wrong (%s): process_roa lowers the refresh "
                          "deadline to the ROA's notAfter exactly when it is true" % ("origins were added but it may return false" if pushed else "nothing was added but it may return true"), fn)
            break
    total += n_flag
    if not n_flag:
        res.inconclusive.append("vacuity: add_roa has no returning path with a Boolean result")
    for meth, add in (("process_aspa", r"PubPoint::add_aspa$"), ("process_router_cert", r"PubPoint::add_router_key$")):
        body = E.prog.find(F, "PubPointProcessor", meth, trait="ProcessPubPoint")
        for i, p in enumerate(E.explore(body, max_visits=2, nomut=[r"."], pure=[r"Validity::not_after$"])):
            if p.kind != "return" or not p.has(add):
                continue
            total += 1
            upd = [e for e in p.events if e.kind == "call" and re.search(r"PubPoint::update_refresh$", e.name)]
            na = [e for e in p.events if re.search(r"Validity::not_after$", e.name)]
            if not upd or not na or upd[-1].args[1].get(()) is not na[0].dest.get(()):
                fn = mprop.write_cex(res, "%s_no_refresh_%d" % (meth, i), p, E, "%s adds payload without applying the certificate's notAfter to the refresh time" % meth)
                res.violation("mir:refresh:%s-not-accounted" % meth, "%s: a contributing object's notAfter is not applied to the refresh deadline" % meth, fn)

    # ---- manifest + CRL nextUpdate and EE validity are reported before any object is processed -----------------------------------
    body = E.prog.find("src/engine.rs", "ValidPointManifest", "point_validity")
    for i, p in enumerate(E.explore(body, max_visits=2, nomut=[r"."], pure=[r"next_update$", r"ResourceCert::validity$"])):
        if p.kind != "return":
            continue
        total += 1
        pv = [e for e in p.events if e.kind == "call" and re.search(r"ProcessPubPoint::point_validity$", e.name)]
        nu = [e for e in p.events if re.search(r"next_update$", e.name)]
        ok = False
        if pv and len(nu) >= 2:
            s = pv[-1].args[2].get(()) if len(pv[-1].args) > 2 else None
            if s is not None and not E.feasible(p.cond, z3.Not(z3.And(o(s) <= o(nu[0].dest.get(())), o(s) <= o(nu[1].dest.get(()))))):
                ok = True
        if not ok:
            fn = mprop.write_cex(res, "manifest_point_validity_%d" % i, p, E, "the stale time reported for a point is not min(manifest nextUpdate, CRL nextUpdate)")
            res.violation("mir:refresh:stale-time-not-min-of-nextupdates", "manifest/CRL nextUpdate do not both bound the refresh deadline", fn)
    for meth, first in (("process_stored", r"PubPoint::process_object$"), ("process_collected", r"StoredPoint::update$")):
        body = E.prog.find("src/engine.rs", "PubPoint", meth)
        paths = E.explore(body, max_visits=3, nomut=[r"."])
        total += check_gates(res, E, paths, meth, first, [
            (r"ValidPointManifest::point_validity$", lambda E_, p_, e_: z3.BoolVal(True), "manifest/CRL validity reported to the processor"),
        ], key_prefix="mir:refresh")
    res.distinct += total
    res.samples.append({"obligations_checked": total})
    res.samples.append({"rule": "refresh only ever moves to min(refresh, t); every contributing object and every chain element reports its notAfter / nextUpdate"})
    res.bounds.append("all paths of the listed functions; Time values are points of an uninterpreted total order (cmp::min is interpreted)")
    res.assumptions += ["the chain argument: a child CA starts from its parent's refresh (new_ca), the TA from its certificate's notAfter (new_ta, read off), "
                        "so by induction the refresh of a committed point is <= every notAfter / nextUpdate on its chain",
                        "restart() restores orig_refresh, after which process_stored reports the stored manifest's validity again (checked)"]
    res.rule = ("one case = one returning path of an update function (z3: stored value is the minimum) or one "
                "contributing call site (the object's notAfter is passed to update_refresh)")
    mprop.finish_engine(res, E)
