"""C11 Deltas describe exactly the change between two data sets (Kani on StandardDelta::construct; M engine: bounded
symbolic run of the real StandardDelta::construct and AspaDelta::construct loops against the per-key specification)."""
import re

import z3

import mir
import mprop
from kprop import run_kani_part
from c12 import Seq, spec_delta, rpki_action_order, F

SPEC = {
    "groups": ["delta"],
    "files": ["src/payload/delta.rs"],
    "harnesses": {
        "quick": ["c11_counts_0_1", "c11_counts_1_0", "c11_counts_1_1", "c11_counts_2_1", "c11_counts_1_2", "c11_counts_2_2", "c11_items_1_1"],
        # c11_items_2_1 / 1_2 / 2_2 end with a solver memory error (0 failed checks, status ERROR) under 14 GB: in no tier
        "thorough": ["c11_items_0_1", "c11_items_1_0", "c11_counts_3_2", "c11_counts_2_3", "c11_counts_3_3"],
    },
    "harness_file": {"*": ("delta.rs", "src/payload/delta.rs")},
    "timeout": {"quick": 900, "thorough": 7200},
    "jobs": {"quick": 7, "thorough": 6},
}


def run(res, tier):
    res.functions += ["routinator::payload::delta::StandardDelta::<u8>::{construct, push, extend, is_empty}"]
    res.bounds += [
        "old/new data sets of exactly (0,1) (1,0) (1,1) (2,1) (1,2) (2,2) items (quick) and (3,2) (2,3) (3,3) (thorough, counts), "
        "contents fully symbolic (strictly ascending u8); larger sets outside the bound",
        "one instantiation of the generic body: P = u8 (RouteOrigin / RouterKey share the body and differ in Ord only)",
    ]
    res.assumptions += ["data sets are strictly sorted and duplicate free (PayloadCollection's invariant, C09)"]
    res.outside += ["AspaDelta (keyed by customer, provider updates): its merge-join has the same shape but drags "
                    "ProviderAsns' byte buffers through CBMC; not covered by a harness",
                    "PayloadDelta::construct's serial+1 and Some-iff-non-empty wrapper (2 lines, read off)"]
    res.rule = ("one case = one Kani harness (one pair of set sizes, all contents symbolic); non-trivial = SUCCESSFUL "
                "with a cover witness; evaluations = CBMC checks")
    run_kani_part(res, SPEC, tier)
    K = 3 if tier == "quick" else 4
    res.bounds.append(
        "M: two data sets over a universe of %d keys (every pair of subsets; ASPAs: absent or provider set 1..3 per "
        "key): the real StandardDelta::construct and AspaDelta::construct loops are executed symbolically (push "
        "inlined, tail closures executed symbolically) and the result - items, order, actions, ASPA provider "
        "payloads, both counters, emptiness - is compared with the per-key specification of a delta" % K)
    res.assumptions.append("M: the input iterators yield the sets' items in strictly ascending key order "
                           "(PayloadCollection's invariant); iterator adapters (map, next) and Vec::push are sequence "
                           "models; Aspa::withdraw() returns the same customer with no providers (rpki-rs)")
    for aspa in (False, True):
        E = mprop.engine(res)
        run_construct(res, E, aspa, K, "aspa" if aspa else "std")
        mprop.finish_engine(res, E)
    E = mprop.engine(res)
    check_payload_construct(res, E)
    mprop.finish_engine(res, E)


class SeqIn:
    def __init__(self, name, aspa):
        self.key = z3.Array(name + "_key", z3.IntSort(), z3.BitVecSort(32))
        self.prov = z3.Array(name + "_prov", z3.IntSort(), z3.BitVecSort(8))
        self.n = z3.Int(name + "_n")


def spec_set(solver, seq, vals, K):
    pos = z3.IntVal(0)
    for x in range(K):
        present = vals[x] != 0
        solver.add(z3.Implies(present, z3.And(z3.Select(seq.key, pos) == x, z3.Select(seq.prov, pos) == vals[x])))
        pos = z3.If(present, pos + 1, pos)
    solver.add(seq.n == pos)


def run_construct(res, E, aspa, K, tag):
    ty = "AspaDelta" if aspa else "StandardDelta"
    body = E.prog.find(F, ty, "construct")
    res.functions.append("routinator::payload::delta::%s::construct with push%s inlined (MIR, %d blocks)"
                         % (ty, ", AspaAction::withdraw" if aspa else "", len(body.blocks)))
    fields = mir.struct_fields(ty, F)
    i_items, i_ann, i_wd = fields.index("items"), fields.index("announce_len"), fields.index("withdraw_len")
    if aspa:
        vs = E.prog.enums["AspaAction"]
    else:
        vs, _ = rpki_action_order()
    A = {v: vs.index(v) for v in vs}
    is_ann = (lambda a: z3.Or(a == A["Announce"], a == A["Update"])) if aspa else (lambda a: a == A["Announce"])
    is_wd = lambda a: a == A["Withdraw"]
    hi = 3 if aspa else 1
    sets = [[z3.BitVec("%s_cset%s_%d" % (tag, nm, x), 8) for x in range(K)] for nm in "ab"]
    for s_ in sets:
        for v in s_:
            E.solver.add(z3.ULE(v, hi))
    ins = [SeqIn("%s_in%d" % (tag, w), aspa) for w in range(2)]
    for w in range(2):
        spec_set(E.solver, ins[w], sets[w], K)
    dd = Seq(tag + "_spec", aspa)
    spec_delta(E.solver, dd, sets[0], sets[1], K, aspa, A)
    counter = [0]
    mappers = {}
    consts = {}
    if not aspa:
        for v in A:
            consts[r"^(const )?rpki::rtr::(payload::)?Action::%s$" % v] = {("disc",): z3.IntVal(A[v])}

    def m_aspa_withdraw(E_, st, frame, callee, argvals, dest_ty):
        v = E_._through_ref(st, argvals[0])
        k = v.get((("f", 0),))
        if k is None:
            return NotImplemented
        return {(("f", 0),): k, (("f", 1),): z3.BitVecVal(0, 8)}

    def m_key(E_, st, frame, callee, argvals, dest_ty):
        v = E_._through_ref(st, argvals[0])
        k = v.get((("f", 0),))
        return {(): k} if k is not None else NotImplemented

    base_models = {r"Aspa::key$": m_key, r"rpki::rtr::payload::Aspa::withdraw$|^Aspa::withdraw$": m_aspa_withdraw}

    def elem_store(E_, st, kx, px):
        counter[0] += 1
        loc = ("CELEM%d" % counter[0],)
        if aspa:
            E_.store(st, loc, {(("f", 0),): kx, (("f", 1),): px})
        else:
            E_.store(st, loc, {(): kx})
        return loc

    def mapper_result(key):
        """Run a tail mapper (closure or fn item) on a symbolic element: field dict over (kx, px)."""
        if key in mappers:
            return mappers[key]
        kx, px = z3.BitVec("map_key", 32), z3.BitVec("map_prov", 8)
        if key.startswith("fn:"):
            b = E.prog.find(F, key[3:].split("::")[0], key[3:].split("::")[1])
            argn = "_1"
        else:
            b = E.prog.closure_by_loc[key].parse()
            argn = "_2"
        E2 = mir.Engine(E.prog, res)

        def pre2(E_, st, frame):
            loc = elem_store(E_, st, kx, px)
            E_.store(st, (frame["id"] + ":" + argn,), {(): mir.Ref(loc)})

        ps = [p for p in E2.explore(b, max_visits=2, pre=pre2, consts=consts, models=base_models) if p.kind == "return"]
        if len(ps) != 1:
            raise mir.Inconclusive("tail mapper %s has %d returning paths" % (key, len(ps)))
        ret = ps[0].ret
        proj = isinstance(ret.get(()), mir.Ref)
        mappers[key] = (kx, px, ret, proj)
        return mappers[key]

    def m_map(E_, st, frame, callee, argvals, dest_ty):
        v = argvals[0]
        if ("w",) not in v:
            return NotImplemented
        m = re.search(r"\{closure@([^}]*)\}>?\(?$", callee.strip()) or re.search(r"\{closure@([^}]*)\}>$", callee.strip())
        cl = re.findall(r"\{closure@([^}]*)\}", callee)
        fnitem = re.search(r"\{(\w+::\w+)\}>$", callee.strip())
        if fnitem:
            key = "fn:" + fnitem.group(1)
        elif cl:
            key = cl[-1]
        else:
            return NotImplemented
        out = {k: v[k] for k in (("w",), ("s",), ("n",))}
        if aspa and ("proj",) not in v:
            # the first adapter of AspaDelta::construct: |(item, _)| item over (&Aspa, &PayloadInfo)
            b = E_.prog.closure_by_loc.get(key)
            txt = "\n".join(st_ for blk in b.parse().blocks.values() for st_ in blk["stmts"]) if b else ""
            if not re.search(r"_0 = copy \(_2\.0: &", txt):
                return NotImplemented
            out[("proj",)] = z3.IntVal(1)
            return out
        if ("proj",) in v:
            out[("proj",)] = v[("proj",)]
        out[("mapper",)] = mir.Str(key)
        return out

    def m_next(E_, st, frame, callee, argvals, dest_ty):
        r = argvals[0].get(())
        if not isinstance(r, mir.Ref):
            return NotImplemented
        cur = E_.load(st, r.loc)
        if ("w",) not in cur or ("mapper",) in cur:
            return NotImplemented
        s0, n0 = cur[("s",)], cur[("n",)]
        has = n0 > 0
        new = dict(cur)
        new[("s",)] = z3.simplify(z3.If(has, s0 + 1, s0))
        new[("n",)] = z3.simplify(z3.If(has, n0 - 1, n0))
        E_.store(st, r.loc, new)
        seq = ins[cur[("w",)].as_long()]
        loc = elem_store(E_, st, z3.Select(seq.key, s0), z3.Select(seq.prov, s0))
        return {("disc",): z3.If(has, z3.IntVal(1), z3.IntVal(0)), (("v", "Some"), ("f", 0)): mir.Ref(loc)}

    def m_default(E_, st, frame, callee, argvals, dest_ty):
        return {(("f", i_items), "len"): z3.IntVal(0),
                (("f", i_ann),): z3.BitVecVal(0, 64), (("f", i_wd),): z3.BitVecVal(0, 64)}

    def m_vecpush(E_, st, frame, callee, argvals, dest_ty):
        r = argvals[0].get(())
        if not isinstance(r, mir.Ref):
            return NotImplemented
        cur = E_.load(st, r.loc)
        if ("len",) not in cur:
            return NotImplemented
        k = cur[("len",)].as_long()
        new = dict(cur)
        for key, v in argvals[1].items():
            new[(("e", k),) + key] = v
        new[("len",)] = z3.IntVal(k + 1)
        E_.store(st, r.loc, new)
        return {(): mir.Str("()")}

    def mapped(kx0, px0, ret, kx, px):
        return {k: (z3.substitute(v, (kx0, kx), (px0, px)) if mir.is_z(v) else v) for k, v in ret.items()}

    def m_extend(E_, st, frame, callee, argvals, dest_ty):
        r = argvals[0].get(())
        it = argvals[1]
        if not isinstance(r, mir.Ref) or ("w",) not in it or not isinstance(it.get(("mapper",)), mir.Str):
            return NotImplemented
        kx0, px0, ret, proj = mapper_result(it[("mapper",)].s)
        act0 = ret.get((("f", 1), "disc"))
        if act0 is None or proj:
            return NotImplemented
        cur = E_.load(st, r.loc)
        seq = ins[it[("w",)].as_long()]
        s0, n0 = it[("s",)], it[("n",)]
        ann, wd = cur[(("f", i_ann),)], cur[(("f", i_wd),)]
        for j in range(K):
            a = z3.substitute(act0, (kx0, z3.Select(seq.key, s0 + j)), (px0, z3.Select(seq.prov, s0 + j))) if mir.is_z(act0) else act0
            ann = ann + z3.If(z3.And(j < n0, is_ann(a)), z3.BitVecVal(1, 64), z3.BitVecVal(0, 64))
            wd = wd + z3.If(z3.And(j < n0, is_wd(a)), z3.BitVecVal(1, 64), z3.BitVecVal(0, 64))
        new = dict(cur)
        new[(("f", i_ann),)] = ann
        new[(("f", i_wd),)] = wd
        new[(("f", i_items), "tail_w")] = it[("w",)]
        new[(("f", i_items), "tail_s")] = s0
        new[(("f", i_items), "tail_n")] = n0
        new[(("f", i_items), "tail_m")] = it[("mapper",)]
        E_.store(st, r.loc, new)
        return {(): mir.Str("()")}

    def pre(E_, st, frame):
        for w, a in enumerate(("_1", "_2")):
            E_.store(st, (frame["id"] + ":" + a,), {("w",): z3.IntVal(w), ("s",): z3.IntVal(0), ("n",): ins[w].n})

    models = dict(base_models)
    models.update({
        r"^<%s(<.*>)? as Default>::default$" % ty: m_default,
        r" as Iterator>::map::<": m_map,
        r" as Iterator>::next$": m_next,
        r"^Vec::<.*>::push$": m_vecpush,
        r"%s(::<.*>)?::extend::<" % ty: m_extend,
    })
    paths = E.explore(body, max_visits=2 * K + 3, pre=pre, consts=consts, max_paths=400000,
                      inline=[r"%s(::<.*>)?::push$" % ty, r"AspaAction::withdraw$"], models=models)
    n_ret = 0
    shapes = set()
    reported = set()

    def fields_of(d, base):
        if not aspa:
            return d.get(base + (("f", 0),)), d.get(base + (("f", 1), "disc")), None, None
        kk = d.get(base + (("f", 0), ("f", 0)))
        pp = d.get(base + (("f", 0), ("f", 1)))
        aa = d.get(base + (("f", 1), "disc"))
        ou = d.get(base + (("f", 1), ("v", "Update"), ("f", 0)))
        ow = d.get(base + (("f", 1), ("v", "Withdraw"), ("f", 0)))
        oo = None
        if aa is not None:
            zero = z3.BitVecVal(0, 8)
            oo = z3.If(aa == A["Update"], ou if mir.is_z(ou) else zero, ow if mir.is_z(ow) else zero)
        return kk, aa, pp, (oo, ou, ow)

    def same(kk, aa, pp, oo, idx):
        c = [kk == z3.Select(dd.key, idx), aa == z3.Select(dd.act, idx)]
        if aspa:
            c.append(pp == z3.Select(dd.prov, idx))
            c.append(z3.Implies(aa != A["Announce"], oo == z3.Select(dd.orig, idx)))
        return z3.And(c)

    for i, p in enumerate(paths):
        if p.kind == "bound":
            res.inconclusive.append("%s::construct: a feasible path exceeds %d loop iterations with %d keys" % (ty, 2 * K + 3, K))
            continue
        if p.kind != "return":
            if p.kind == "panic" and E.feasible(p.cond):
                fn = mprop.write_cex(res, "%s_construct_panic_%d" % (tag, i), p, E, "construct panics", E.model(p.cond))
                res.violation("mir:construct:%s:panic" % tag, "%s::construct can panic" % ty, fn)
            continue
        n_ret += 1
        ret = p.ret
        ln = ret.get((("f", i_items), "len"))
        if ln is None:
            res.inconclusive.append("%s::construct: returned value has no modelled item list (path %d)" % (ty, i))
            continue
        m = ln.as_long()
        tn = ret.get((("f", i_items), "tail_n"))
        nt = z3.If(tn > 0, tn, z3.IntVal(0)) if tn is not None else z3.IntVal(0)
        good = [m + nt == dd.n]
        shape = []
        bad_model = False
        for k in range(m):
            kk, aa, pp, o3 = fields_of(ret, (("f", i_items), ("e", k)))
            oo = o3[0] if o3 else None
            if aspa and aa is not None:
                _, ou, ow = o3
                if (not mir.is_z(ou) and E.feasible(p.cond, aa == A["Update"])) or (not mir.is_z(ow) and E.feasible(p.cond, aa == A["Withdraw"])):
                    kk = None
            if not all(mir.is_z(v) for v in ([kk, aa] + ([pp] if aspa else []))):
                res.inconclusive.append("%s::construct: pushed element %d on path %d not fully modelled" % (ty, k, i))
                bad_model = True
                break
            good.append(same(kk, aa, pp, oo, z3.IntVal(k)))
            shape.append(str(z3.simplify(aa)))
        if bad_model:
            continue
        if tn is not None:
            tw = ret[(("f", i_items), "tail_w")].as_long()
            ts = ret[(("f", i_items), "tail_s")]
            kx0, px0, mret, _ = mapper_result(ret[(("f", i_items), "tail_m")].s)
            seq = ins[tw]
            for j in range(K):
                md = mapped(kx0, px0, mret, z3.Select(seq.key, ts + j), z3.Select(seq.prov, ts + j))
                kk, aa, pp, o3 = fields_of(md, ())
                if not all(mir.is_z(v) for v in ([kk, aa] + ([pp] if aspa else []))):
                    res.inconclusive.append("%s::construct: tail mapper result not fully modelled (path %d)" % (ty, i))
                    bad_model = True
                    break
                good.append(z3.Implies(j < nt, same(kk, aa, pp, o3[0] if o3 else None, z3.IntVal(m) + j)))
        if bad_model:
            continue
        ann = z3.BitVecVal(0, 64)
        wd = z3.BitVecVal(0, 64)
        for j in range(K):
            a = z3.Select(dd.act, j)
            ann = ann + z3.If(z3.And(j < dd.n, is_ann(a)), z3.BitVecVal(1, 64), z3.BitVecVal(0, 64))
            wd = wd + z3.If(z3.And(j < dd.n, is_wd(a)), z3.BitVecVal(1, 64), z3.BitVecVal(0, 64))
        ra, rw = ret.get((("f", i_ann),)), ret.get((("f", i_wd),))
        if not (mir.is_z(ra) and mir.is_z(rw)):
            res.inconclusive.append("%s::construct: counters not modelled on path %d" % (ty, i))
            continue
        shapes.add((tuple(shape), tn is not None))
        for what, cond_ok, key in (("lists actions other than the change between the sets", z3.And(good), "items"),
                                   ("has counts that differ from the listed actions", z3.And(ra == ann, rw == wd), "counts")):
            if key in reported:
                continue
            mdl = E.model(p.cond, z3.Not(cond_ok))
            if mdl is not None:
                reported.add(key)
                cex = {nm: [mdl.eval(v, model_completion=True).as_long() for v in s_] for nm, s_ in zip("ab", sets)}
                desc = "%s::construct(a, b) %s for a=%s b=%s (per key 0..%d: 0 absent%s)" % (
                    ty, what, cex["a"], cex["b"], K - 1, ", n = provider set n" if aspa else ", 1 present")
                fn = mprop.write_cex(res, "%s_construct_%s_%d" % (tag, key, i), p, E, desc, mdl)
                ok = replay(res, aspa, cex)
                if ok is False:
                    res.inconclusive.append("counterexample %s did not reproduce natively" % desc)
                else:
                    res.violation("mir:construct:%s:%s" % (tag, key), desc + ("; reproduced natively" if ok else " [native replay unavailable]"), fn)
    res.distinct += len(shapes)
    res.samples.append({"function": ty + "::construct", "keys": K, "returning_paths": n_ret, "distinct_output_shapes": len(shapes)})
    if n_ret < 4:
        res.inconclusive.append("%s::construct: only %d returning paths explored" % (ty, n_ret))


NATIVE_TMPL = """// generated by props/c11.py: native replay of a solver-found pair of data sets
use super::*;
use std::sync::Arc;
use rpki::resources::Asn;

const ASPA: bool = @ASPA@;
const STD: [&[u32]; 2] = [@STD@];
const SETS: [&[(u32, u32)]; 2] = [@SETS@];

fn prov(p: u32) -> ProviderAsns { ProviderAsns::try_from_iter([Asn::from_u32(64500 + p)]).unwrap() }

#[test]
fn c11_native_construct() {
    if ASPA {
        let s: Vec<Vec<(Aspa, PayloadInfo)>> = SETS.iter().map(|set| set.iter().map(|(c, p)| (
            Aspa::new(Asn::from_u32(*c), prov(*p)), PayloadInfo::from(Arc::new(crate::slurm::ExceptionInfo::default()))
        )).collect()).collect();
        let d = AspaDelta::construct(s[0].iter().map(|(a, b)| (a, b)), s[1].iter().map(|(a, b)| (a, b)));
        // reference: per-key comparison of the two maps
        let mut want = Vec::new();
        let mut keys: Vec<u32> = SETS[0].iter().chain(SETS[1].iter()).map(|x| x.0).collect();
        keys.sort(); keys.dedup();
        for k in keys {
            let a = SETS[0].iter().find(|x| x.0 == k).map(|x| x.1);
            let b = SETS[1].iter().find(|x| x.0 == k).map(|x| x.1);
            match (a, b) {
                (None, Some(p)) => want.push(format!("{:?}", (Aspa::new(Asn::from_u32(k), prov(p)), AspaAction::Announce))),
                (Some(p), None) => want.push(format!("{:?}", (Aspa::new(Asn::from_u32(k), ProviderAsns::empty()), AspaAction::Withdraw(prov(p))))),
                (Some(p), Some(q)) if p != q => want.push(format!("{:?}", (Aspa::new(Asn::from_u32(k), prov(q)), AspaAction::Update(prov(p))))),
                _ => {}
            }
        }
        let got: Vec<String> = d.items.iter().map(|i| format!("{:?}", i)).collect();
        let wd = d.items.iter().filter(|i| matches!(i.1, AspaAction::Withdraw(_))).count();
        println!("NATIVE-C11 got={:?} want={:?} announce_len={} withdraw_len={}", got, want, d.announce_len, d.withdraw_len);
        assert_eq!(got, want, "delta differs from the change between the sets");
        assert!(d.announce_len == d.items.len() - wd && d.withdraw_len == wd, "counters differ from the listed actions");
        assert_eq!(d.is_empty(), want.is_empty());
    }
    else {
        let d = StandardDelta::<u32>::construct(STD[0].iter(), STD[1].iter());
        let mut want = Vec::new();
        let mut keys: Vec<u32> = STD[0].iter().chain(STD[1].iter()).copied().collect();
        keys.sort(); keys.dedup();
        for k in keys {
            match (STD[0].contains(&k), STD[1].contains(&k)) {
                (false, true) => want.push(format!("{:?}", (k, Action::Announce))),
                (true, false) => want.push(format!("{:?}", (k, Action::Withdraw))),
                _ => {}
            }
        }
        let got: Vec<String> = d.items.iter().map(|i| format!("{:?}", i)).collect();
        let wd = d.items.iter().filter(|i| matches!(i.1, Action::Withdraw)).count();
        println!("NATIVE-C11 got={:?} want={:?} announce_len={} withdraw_len={}", got, want, d.announce_len, d.withdraw_len);
        assert_eq!(got, want, "delta differs from the change between the sets");
        assert!(d.announce_len == d.items.len() - wd && d.withdraw_len == wd, "counters differ from the listed actions");
        assert_eq!(d.is_empty(), want.is_empty());
    }
}
"""


def replay(res, aspa, cex):
    import os
    import nativetest
    from vcommon import VERIF
    std = ", ".join("&[" + ", ".join("%d" % x for x, v in enumerate(cex[nm]) if v) + "]" for nm in "ab")
    sets = ", ".join("&[" + ", ".join("(%d, %d)" % (x, v) for x, v in enumerate(cex[nm]) if v) + "]" for nm in "ab")
    with open(os.path.join(VERIF, "native", "c11_generated.rs"), "w") as f:
        f.write(NATIVE_TMPL.replace("@ASPA@", "true" if aspa else "false")
                .replace("@STD@", std if not aspa else "&[], &[]").replace("@SETS@", sets if aspa else "&[], &[]"))
    failed, passed, out = nativetest.run_native_test("native_c11", "c11_native_construct")
    line = [l for l in out.splitlines() if "NATIVE-C11" in l]
    res.notes.append("native replay: " + (" | ".join(line)[:900] if line else "no output: " + out[-400:]))
    return True if failed else (False if passed else None)


def check_payload_construct(res, E):
    """PayloadDelta::construct: each payload type's delta is built from (old, new) of that type, the serial is the
    given one, and None is returned exactly when all three deltas are empty."""
    body = E.prog.find(F, "PayloadDelta", "construct")
    res.functions.append("routinator::payload::delta::PayloadDelta::construct (MIR, %d blocks)" % len(body.blocks))
    paths = [p for p in E.explore(body, max_visits=2, arg_values={"_1": {(): mir.Ref(("OLDSNAP",))}, "_2": {(): mir.Ref(("NEWSNAP",))}},
                                  pure=[r"is_empty$"]) if p.kind == "return"]
    n = 0
    for i, p in enumerate(paths):
        n += 1
        calls = [e for e in p.events if e.kind == "call" and re.search(r"(StandardDelta|AspaDelta)(::<.*>)?::construct", e.name)]
        if len(calls) != 3:
            fn = mprop.write_cex(res, "payload_construct_%d" % i, p, E, "PayloadDelta::construct builds %d per-type deltas, not 3" % len(calls))
            res.violation("mir:payload-construct:types", "PayloadDelta::construct does not build one delta per payload type", fn)
            continue
        d = p.ret.get(("disc",))
        empt = [e for e in p.events if re.search(r"is_empty$", e.name)]
        if d is not None and E.feasible(p.cond, d == 0) and len(empt) < 1:
            fn = mprop.write_cex(res, "payload_construct_none_%d" % i, p, E, "None returned without testing emptiness")
            res.violation("mir:payload-construct:none", "PayloadDelta::construct returns None without the delta being empty", fn)
    res.distinct += n
