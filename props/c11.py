"""C11 Deltas describe exactly the change between two data sets (Kani)."""
from kprop import run_kani_part

SPEC = {
    "groups": ["delta"],
    "files": ["src/payload/delta.rs"],
    "harnesses": {
        "quick": ["c11_counts_0_1", "c11_counts_1_0", "c11_counts_1_1", "c11_counts_2_1", "c11_counts_1_2", "c11_counts_2_2", "c11_items_1_1"],
        "thorough": ["c11_items_0_1", "c11_items_1_0", "c11_items_2_1", "c11_items_1_2", "c11_items_2_2", "c11_counts_3_2", "c11_counts_2_3", "c11_counts_3_3"],
    },
    "harness_file": {"*": ("delta.rs", "src/payload/delta.rs")},
    "timeout": {"quick": 900, "thorough": 7200},
    "jobs": {"quick": 7, "thorough": 6},
}


def run(res, tier):
    res.functions += ["routinator::payload::delta::StandardDelta::<u8>::{construct, push, extend, is_empty}"]
    res.bounds += [
        "old/new data sets of exactly (0,1) (1,0) (1,1) (2,1) (1,2) items (quick) and (2,2) (3,2) (2,3) (3,3) (thorough), "
        "contents fully symbolic (strictly ascending u8); larger sets outside the bound",
        "one instantiation of the generic body: P = u8 (RouteOrigin / RouterKey share the body and differ in Ord only)",
    ]
    res.assumptions += ["data sets are strictly sorted and duplicate free (PayloadCollection's invariant, C09)"]
    res.outside += ["AspaDelta (keyed by customer, provider updates): its merge-join has the same shape but drags "
                    "ProviderAsns' byte buffers through CBMC; not covered by a harness",
                    "PayloadDelta::construct's serial+1 and Some-iff-non-empty wrapper (2 lines, read off)"]
    res.rule = ("one case = one Kani harness (one pair of set sizes, all contents symbolic); non-trivial = SUCCESSFUL "
                "with a cover witness; evaluations = CBMC checks")
    run_kani_part(res, SPEC, tier)
