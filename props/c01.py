"""C01 Only validated payload reaches routers (M engine: gating obligations)."""
import re

import z3

import mir
import mprop
from gating import (check_gates, is_ok, is_some, is_true, is_false, ok_some, ok_true, must, disc_of)

OBJ_INLINE = [r"engine::PubPoint::process_(cer|ca_cer|router_cert|roa|aspa|gbr)$"]


def explore(E, file, ty, method, **kw):
    body = E.prog.find(file, ty, method)
    paths = E.explore(body, nomut=[r"."], **kw)
    return body, paths


def run(res, tier):
    E = mprop.engine(res)
    res.extra.setdefault("source_files_sha256", {}).update(
        mprop.source_hashes(["src/engine.rs", "src/payload/validation.rs", "src/store.rs"]))
    total = 0
    stats = {}

    # ---- A. objects ----------------------------------------------------------------------
    body, paths = explore(E, "src/engine.rs", "PubPoint", "process_object", inline=OBJ_INLINE, max_visits=2)
    res.functions.append("engine::PubPoint::process_object with process_cer/ca_cer/router_cert/roa/aspa/gbr inlined (MIR)")
    stats["process_object"] = len(paths)
    total += check_gates(res, E, paths, "process_object", r"ProcessPubPoint::process_roa$", [
        (r"ProcessPubPoint::want$", ok_true, "processor wants the object"),
        (r"Roa::decode$", is_ok, "ROA decodes"),
        (r"Roa::process$", is_ok, "ROA validates against the issuing CA (signature, resources, EE cert, CRL callback)"),
    ])
    total += check_gates(res, E, paths, "process_object", r"ProcessPubPoint::process_aspa$", [
        (r"Aspa::decode$", is_ok, "ASPA decodes"),
        (r"Aspa::process$", is_ok, "ASPA validates against the issuing CA"),
    ])
    total += check_gates(res, E, paths, "process_object", r"ProcessPubPoint::process_gbr$", [
        (r"SignedObject::decode$", is_ok, "GBR decodes"),
        (r"SignedObject::process$", is_ok, "GBR validates against the issuing CA"),
    ])
    total += check_gates(res, E, paths, "process_object", r"ProcessPubPoint::process_router_cert$", [
        (r"Cert::decode$", is_ok, "certificate decodes"),
        (r"Cert::validate_router$", is_ok, "router certificate validates against the issuing CA"),
        (r"ValidPointManifest::check_crl$", is_ok, "certificate not revoked by the manifest CRL"),
    ])
    ca_obl = [
        (r"Cert::decode$", is_ok, "certificate decodes"),
        (r"CaCert::check_loop$", is_ok, "no key loop on the chain"),
        (r"Cert::validate_ca$", is_ok, "CA certificate validates against the issuing CA"),
        (r"ValidPointManifest::check_crl$", is_ok, "certificate not revoked by the manifest CRL"),
        (r"CaCert::chain$", is_ok, "chain depth within max-ca-depth"),
    ]
    total += check_gates(res, E, paths, "process_object", r"ProcessPubPoint::process_ca$", ca_obl)
    total += check_gates(res, E, paths, "process_object", r"Vec::push$", ca_obl + [
        (r"ProcessPubPoint::process_ca$", ok_some, "processor accepted the child CA"),
    ])

    # ---- B. CRL callbacks handed to rpki-rs --------------------------------------------------
    for meth in ("process_roa", "process_aspa", "process_gbr"):
        b = E.prog.find("src/engine.rs", "PubPoint", meth, closure=0)
        cp = E.explore(b, max_visits=2, nomut=[r"."])
        stats[meth + "::closure"] = len(cp)
        ok = 0
        for i, p in enumerate(cp):
            if p.kind != "return":
                continue
            ev = [e for e in p.events if e.kind == "call" and re.search(r"ValidPointManifest::check_crl$", e.name)]
            same = ev and ev[-1].dest.get(()) is p.ret.get(())
            if not same:
                fn = mprop.write_cex(res, "%s_closure_%d" % (meth, i), p, E,
                                     "the CRL callback of %s does not return ValidPointManifest::check_crl's verdict" % meth)
                res.violation("mir:gate:%s:crl-callback" % meth,
                              "%s: the revocation callback given to rpki-rs does not return check_crl's result" % meth, fn)
            else:
                ok += 1
        total += ok
        if ok == 0:
            res.inconclusive.append("vacuity: %s closure has no returning path" % meth)

    # ---- C. check_crl ---------------------------------------------------------------------------
    body, paths = explore(E, "src/engine.rs", "ValidPointManifest", "check_crl", max_visits=2)
    res.functions.append("engine::ValidPointManifest::check_crl (MIR)")
    stats["check_crl"] = len(paths)
    n_ok = 0
    for i, p in enumerate(paths):
        if p.kind != "return":
            continue
        d = p.ret.get(("disc",))
        if d is None or not E.feasible(p.cond, d == 0):
            continue
        n_ok += 1
        uri = [e for e in p.events if re.search(r"crl_uri$", e.name)]
        cont = [e for e in p.events if re.search(r"(Crl|TbsCertList)::contains$", e.name)]
        probs = []
        if not uri or not must(E, p, is_some(E, p, uri[-1])):
            probs.append("certificate without CRL URI accepted")
        if not cont or is_false(E, p, cont[-1]) is None or not must(E, p, is_false(E, p, cont[-1])):
            probs.append("revoked certificate accepted (crl.contains not enforced)")
        # the URI comparison: a `ne` over opaque URIs leaves an ord equality in the path condition
        if not any("ord_" in str(c) for c in p.cond):
            probs.append("certificate's CRL URI is not compared with the manifest's")
        if probs:
            fn = mprop.write_cex(res, "check_crl_%d" % i, p, E, "; ".join(probs))
            res.violation("mir:gate:check_crl:" + re.sub(r"\W+", "-", probs[0])[:40], "check_crl returns Ok although: " + "; ".join(probs), fn)
    total += n_ok
    if n_ok == 0:
        res.inconclusive.append("vacuity: check_crl has no Ok path")

    # ---- D. manifest and CRL acceptance ----------------------------------------------------------
    body, paths = explore(E, "src/engine.rs", "PubPoint", "validate_collected_manifest", max_visits=2)
    stats["validate_collected_manifest"] = len(paths)
    acc = [p for p in paths if p.kind == "return" and p.ret.get((("v", "Ok"), ("f", 0), "disc")) is not None
           and E.feasible(p.cond, z3.And(p.ret[("disc",)] == 0, p.ret[(("v", "Ok"), ("f", 0), "disc")] == 1))]
    for i, p in enumerate(acc):
        p.events.append(mir.Event("ACCEPT", [], None, ("", ""), "call"))
    total += check_gates(res, E, acc, "validate_collected_manifest", r"^ACCEPT$", [
        (r"Manifest::decode$", is_ok, "manifest decodes"),
        (r"Manifest::validate$", is_ok, "manifest validates against the CA certificate (signature, EE cert)"),
        (r"validate_collected_crl$", ok_some, "manifest CRL located, verified and EE certificate not revoked"),
    ])
    body, paths = explore(E, "src/engine.rs", "PubPoint", "validate_collected_crl", max_visits=3)
    stats["validate_collected_crl"] = len(paths)
    acc = [p for p in paths if p.kind == "return" and p.ret.get((("v", "Ok"), ("f", 0), "disc")) is not None
           and E.feasible(p.cond, z3.And(p.ret[("disc",)] == 0, p.ret[(("v", "Ok"), ("f", 0), "disc")] == 1))]
    for p in acc:
        p.events.append(mir.Event("ACCEPT", [], None, ("", ""), "call"))
    total += check_gates(res, E, acc, "validate_collected_crl", r"^ACCEPT$", [
        (r"crl_uri$", is_some, "EE certificate names a CRL"),
        (r"relative_to$", is_some, "CRL URI inside the CA's repository directory"),
        (r"Repository::load_object$", ok_some, "CRL file listed on the manifest was loaded"),
        (r"ManifestHash::verify$", is_ok, "CRL matches its manifest hash"),
        (r"Crl::decode$", is_ok, "CRL decodes"),
        (r"Crl::verify_signature$", is_ok, "CRL signed by the CA"),
        (r"(Crl|TbsCertList)::contains$", is_false, "manifest EE certificate not revoked"),
    ])
    body, paths = explore(E, "src/engine.rs", "PubPoint", "validate_stored_manifest", max_visits=2)
    stats["validate_stored_manifest"] = len(paths)
    acc = [p for p in paths if p.kind == "return" and p.ret.get(("disc",)) is not None
           and E.feasible(p.cond, p.ret[("disc",)] == 0)]
    for p in acc:
        p.events.append(mir.Event("ACCEPT", [], None, ("", ""), "call"))
    total += check_gates(res, E, acc, "validate_stored_manifest", r"^ACCEPT$", [
        (r"Manifest::decode$", is_ok, "stored manifest decodes"),
        (r"Manifest::validate$", is_ok, "stored manifest validates against the CA certificate"),
        (r"Crl::decode$", is_ok, "stored CRL decodes"),
        (r"Crl::verify_signature$", is_ok, "stored CRL signed by the CA"),
        (r"(Crl|TbsCertList)::contains$", is_false, "manifest EE certificate not revoked"),
    ])

    # ---- E. commit only through an accepted point ---------------------------------------------------
    visits = 3
    body = E.prog.find("src/engine.rs", "PubPoint", "process_collected")
    paths = E.explore(body, max_visits=visits, nomut=[r"."],
                      inline=[r"StoredPoint::update$", r"StoredPoint::_update$", r"UpdateError::fatal$"])
    stats["process_collected"] = len(paths)
    res.functions.append("engine::PubPoint::process_collected with StoredPoint::update/_update and the update closure inlined (MIR)")
    total += check_gates(res, E, paths, "process_collected", r"PubPoint::accept_point$", [
        (r"PubPoint::validate_collected_manifest$", ok_some, "fetched manifest valid"),
        (r"PubPoint::check_collected_is_newer$", ok_true, "fetched manifest newer than stored"),
        (r"persist$", is_ok, "complete object set stored"),
    ])
    total += check_gates(res, E, paths, "process_collected", r"PubPoint::process_object$", [
        (r"Repository::load_object$", ok_some, "listed file present"),
        (r"ManifestHash::verify$", is_ok, "file matches its manifest hash"),
    ], scope_pat=r"^enter:closure@")
    # the manifest gate precedes all objects (whole-path scope)
    total += check_gates(res, E, paths, "process_collected", r"PubPoint::process_object$", [
        (r"PubPoint::validate_collected_manifest$", ok_some, "fetched manifest valid"),
        (r"PubPoint::check_collected_is_newer$", ok_true, "fetched manifest newer than stored"),
    ])
    body = E.prog.find("src/engine.rs", "PubPoint", "process_stored")
    paths = E.explore(body, max_visits=visits, nomut=[r"."])
    stats["process_stored"] = len(paths)
    total += check_gates(res, E, paths, "process_stored", r"PubPoint::(accept_point|process_object)$", [
        (r"StoredPoint::manifest$", is_some, "a stored manifest exists"),
        (r"PubPoint::validate_stored_manifest$", is_ok, "stored manifest valid"),
    ])
    for meth, want, forbid in (("accept_point", r"ProcessPubPoint::commit$", r"ProcessPubPoint::cancel$"),
                               ("reject_point", r"ProcessPubPoint::cancel$", r"ProcessPubPoint::commit$")):
        b = E.prog.find("src/engine.rs", "PubPoint", meth)
        ps = E.explore(b, max_visits=2, nomut=[r"."])
        stats[meth] = len(ps)
        for i, p in enumerate(ps):
            if p.kind != "return":
                continue
            total += 1
            if p.has(forbid) or not p.has(want):
                fn = mprop.write_cex(res, "%s_%d" % (meth, i), p, E, "%s must call %s and never %s" % (meth, want, forbid))
                res.violation("mir:gate:%s:commit-cancel" % meth, "%s does not end in the right processor call" % meth, fn)
    # commit / cancel are not called from anywhere else in the engine
    callers = set()
    for name, bodies in E.prog.bodies.items():
        if not name.startswith("engine::"):
            continue
        for b in bodies:
            b.parse()
            for blk in b.blocks.values():
                for s in blk["stmts"]:
                    if re.search(r"as ProcessPubPoint>::commit\(", s):
                        callers.add(name.split("::")[-1])
    res.extra["commit_callers"] = sorted(callers)
    if callers != {"accept_point"}:
        res.violation("mir:gate:commit-callers", "ProcessPubPoint::commit is called from %s (expected only accept_point)" % sorted(callers),
                      mprop.write_cex(res, "commit_callers", mir.Path(mir.State(), {}, "static"), E, "callers of commit: %s" % sorted(callers)))

    # the chain ends at a TAL whose key the trust anchor certificate carries (obligation shared with C10)
    import c10
    n_ta, _, n_tal_paths = c10.check_tal_task(res, E, 2, only_gating=True)
    res.functions.append("routinator::engine::Run::process_tal_task with load_ta inlined (MIR; TA key == TAL key and validate_ta before process_ta, 1 URI)")
    total += n_ta
    stats["process_tal_task"] = n_tal_paths
    if not n_ta:
        res.inconclusive.append("vacuity: no process_ta site on the explored process_tal_task paths")

    res.distinct += total
    res.extra["paths"] = stats
    if total < 20:
        res.inconclusive.append("vacuity: only %d gated sites checked" % total)
    res.bounds.append("all paths of each function; loops over manifest entries unrolled to 2 entries; every rpki-rs "
                      "validation call is an opaque oracle with a free Ok/Err outcome")
    res.assumptions += [
        "rpki-rs's decode/validate/process/verify functions implement RFC 6487/6488/9286 checks (signature, resource "
        "containment, validity period) - they live in a dependency behind the ring FFI and are outside the claim",
        "what is asserted: Routinator consults each of them and lets payload through only on their success",
    ]
    res.samples.append({"gated_sites_checked": total, "paths_per_function": stats})
    res.samples.append({"example_gate": "process_roa requires want=Ok(true), Roa::decode=Ok, Roa::process=Ok (+ CRL callback returns check_crl)"})
    res.rule = ("one case = one occurrence of a payload-contributing event (process_roa/aspa/gbr/router_cert/process_ca, "
                "child-CA push, accept_point, manifest/CRL acceptance) on a feasible MIR path; for each, every required "
                "validation call must occur earlier in scope with its success forced by the path condition (z3)")
    mprop.finish_engine(res, E)
