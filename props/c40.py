"""C40 Cleanup keeps everything still needed (M engine)."""
import re

import z3

import mir
import mprop
from gating import check_gates, is_ok, is_true, is_false, ok_true, must, disc_of

TRANSPARENT = r"(Cow::into_owned|ToString::to_string|Deref::deref|AsRef::as_ref|String::as_str|Borrow::borrow|Into::into|From::from|ToOwned::to_owned|Clone::clone|str::to_string|String::from)$"


def key_term(p, leaf, depth=0):
    """which accessor of the rsync URI a key / path component is derived from: ('uri', accessor) or ('?', why)."""
    if not isinstance(leaf, mir.Opq) or depth > 8:
        return ("?", repr(leaf))
    for e in p.events:
        if e.kind == "call" and isinstance(e.dest.get(()), mir.Opq) and e.dest.get(()).id == leaf.id:
            m = re.search(r"uri::Rsync::(\w+)$", e.name)
            if m:
                return ("uri", m.group(1))
            if re.search(TRANSPARENT, e.name) and e.args:
                return key_term(p, e.args[0].get(()), depth + 1)
            return ("?", e.name)
    m = re.match(r"o(\d+)as\w+\.\d+$", leaf.origin or "")
    if m:
        return key_term(p, mir.Opq.registry.get(int(m.group(1))), depth + 1)
    for k, v in p.memo.items():
        if isinstance(k, tuple) and k and k[0] == "deref" and isinstance(v.get(()), mir.Opq) and v.get(()).id == leaf.id:
            for part in k[1]:
                if len(part) >= 3 and part[1] == "o":
                    return key_term(p, mir.Opq.registry.get(part[2]), depth + 1)
                if len(part) >= 3 and part[1] == "r":
                    return key_term(p, p.mem.get(part[2]), depth + 1)
    return ("?", leaf.origin or repr(leaf))


def check_retain_keys(res, E):
    """the (authority, module) key a URI is retained under is derived like the directory names its module is stored in."""
    res.functions.append("routinator::collector::rsync::{ModuleSet::add_from_uri, ModuleSet::with_authority, WorkingDir::uri_path} (MIR)")
    body = E.prog.find("src/collector/rsync.rs", "ModuleSet", "add_from_uri")
    auth, mod = set(), set()
    n = 0
    for p in E.explore(body, max_visits=2, nomut=[r"."], inline=[r"with_authority"]):
        if p.kind != "return":
            continue
        n += 1
        for e in p.events:
            if e.kind != "call" or len(e.args) < 2:
                continue
            if re.search(r"HashMap::(get_mut|get|entry|insert|contains_key)$", e.name):
                auth.add(key_term(p, e.args[1].get(())))
            elif re.search(r"HashSet::(contains|insert|get)$", e.name):
                mod.add(key_term(p, e.args[1].get(())))
    body = E.prog.find("src/collector/rsync.rs", "WorkingDir", "uri_path")
    comps = None
    for p in E.explore(body, max_visits=2, nomut=[r"."]):
        if p.kind != "return":
            continue
        n += 1
        c = [key_term(p, e.args[1].get(())) for e in p.events if e.kind == "call" and re.search(r"PathBuf::push$", e.name) and len(e.args) > 1]
        if comps is not None and c != comps:
            raise mir.Inconclusive("WorkingDir::uri_path builds different paths on different paths: %r vs %r" % (comps, c))
        comps = c
    res.samples.append({"retain_key_terms": {"authority": sorted(map(str, auth)), "module": sorted(map(str, mod)), "uri_path": list(map(str, comps or []))}})
    res.distinct += n
    if not auth or not mod or not comps or len(comps) < 2:
        res.inconclusive.append("rsync retain keys: could not extract the key derivations (authority %r module %r path %r)" % (auth, mod, comps))
        return
    unknown = [t for t in list(auth) + list(mod) + comps[:2] if t[0] == "?"]
    differs = auth != {comps[0]} or mod != {comps[1]}
    if unknown or differs:
        import nativetest
        failed, passed, out = nativetest.run_native_test("native_c40", "c40_native_retain_key_matches_directory")
        res.evaluations += 1
        if failed:
            fn = mprop.write_cex(res, "retain_key_derivation", mir.Path(mir.State(), {}, "static"), E,
                                 "retain keys: authority %s module %s; stored under %s\n\nnative replay:\n%s" % (sorted(auth), sorted(mod), comps, out[-3000:]))
            res.violation("mir:rsync-retain-key-not-directory-name",
                          "a module is retained under (%s, %s) but stored under the directories (%s, %s): cleanup looks the directory names up in the retain set and removes the module"
                          % (sorted(auth), sorted(mod), comps[0], comps[1]), fn)
        elif unknown:
            res.inconclusive.append("rsync retain keys: derivation not traced (%r); the native replay found no mismatch" % (unknown,))
        else:
            res.notes.append("rsync retain keys are derived differently from the directory names (%r/%r vs %r) but agree on the native sample URIs" % (auth, mod, comps[:2]))


def run(res, tier):
    E = mprop.engine(res)
    res.extra.setdefault("source_files_sha256", {}).update(mprop.source_hashes(
        ["src/engine.rs", "src/store.rs", "src/payload/validation.rs", "src/collector/rrdp/base.rs", "src/collector/rsync.rs"]))
    total = 0

    # 1. engine::Run::cleanup: dirty => nothing is touched
    eng_fields = mir.struct_fields("Engine", "src/engine.rs")
    run_fields = mir.struct_fields("Run", "src/engine.rs")
    selfp = mir.Opq("&mut engine::Run", "self")
    engp = mir.Opq("&Engine", "engine")
    dirty = z3.Bool("dirty_repository")

    def pre(E_, st, frame):
        st.mem[(("o", selfp.id), "deref", ("f", run_fields.index("validation")))] = engp
        st.mem[(("o", engp.id), "deref", ("f", eng_fields.index("dirty_repository")))] = dirty
    body = E.prog.find("src/engine.rs", "Run", "cleanup")
    res.functions.append("routinator::engine::Run::cleanup (MIR)")
    paths = E.explore(body, max_visits=2, nomut=[r"."], arg_values={"_1": {(): selfp}}, pre=pre)
    CLEAN = r"(store::Run::cleanup|collector::base::Run::cleanup|::cleanup)$"
    n_dirty = n_clean = 0
    for i, p in enumerate(paths):
        if p.kind != "return":
            continue
        calls = [e.name for e in p.events if e.kind == "call" and re.search(CLEAN, e.name)]
        if calls and E.feasible(p.cond, dirty):
            fn = mprop.write_cex(res, "dirty_cleanup_%d" % i, p, E, "cleanup calls %s although dirty is set" % calls)
            res.violation("mir:cleanup-with-dirty", "with the 'dirty' option, cleanup still removes data (%s)" % ", ".join(calls), fn)
        if E.feasible(p.cond, dirty):
            n_dirty += 1
        if calls:
            n_clean += 1
            st = [x for x, e in enumerate(p.events) if e.kind == "call" and re.search(r"store::Run::cleanup$", e.name)]
            co = [x for x, e in enumerate(p.events) if e.kind == "call" and re.search(r"collector::base::Run::cleanup$", e.name)]
            if co and (not st or st[0] > co[0]):
                fn = mprop.write_cex(res, "collector_before_store_%d" % i, p, E,
                                     "collector cleanup runs before the store registered what it still needs")
                res.violation("mir:collector-cleanup-before-store", "collector copies are cleaned before the store registered the repositories it retains", fn)
            if co and st:
                # same retain set handed to both
                a = p.events[st[0]].args[1].get(()) if len(p.events[st[0]].args) > 1 else None
                b = p.events[co[0]].args[1].get(()) if len(p.events[co[0]].args) > 1 else None
                if isinstance(a, mir.Ref) and isinstance(b, mir.Ref) and a.loc != b.loc:
                    fn = mprop.write_cex(res, "different_retain_%d" % i, p, E, "store and collector cleanup use different retain sets")
                    res.violation("mir:cleanup-different-retain-sets", "the collector is not cleaned with the retain set the store filled", fn)
    total += n_dirty + n_clean
    if not n_dirty or not n_clean:
        res.inconclusive.append("vacuity: Run::cleanup dirty paths=%d cleaning paths=%d" % (n_dirty, n_clean))

    # 2. no cleanup after a failed run
    body = E.prog.find("src/payload/validation.rs", "ValidationReport", "process")
    paths = E.explore(body, max_visits=2, nomut=[r"."])
    res.functions.append("routinator::payload::validation::ValidationReport::process (MIR)")
    total += check_gates(res, E, paths, "ValidationReport::process", r"engine::Run::cleanup$", [
        (r"engine::Run::process$", is_ok, "the validation run succeeded"),
    ], key_prefix="mir:cleanup")

    # 3. store: a retained point is kept and its repository registered
    body = E.prog.find("src/store.rs", "Run", "cleanup_points", closure=0)
    paths = E.explore(body, max_visits=2, nomut=[r"."])
    res.functions.append("routinator::store::Run::cleanup_points closure (MIR)")
    n3 = 0
    for i, p in enumerate(paths):
        if p.kind != "return":
            continue
        ret = [e for e in p.events if e.kind == "call" and re.search(r"StoredPoint::retain$", e.name)]
        if not ret:
            continue
        r = ret[-1].dest.get(())
        if not mir.is_z(r) or not must(E, p, r):
            continue
        n3 += 1
        d = p.ret.get(("disc",))
        v = p.ret.get((("v", "Ok"), ("f", 0)))
        kept = d is not None and v is not None and mir.is_z(v) and must(E, p, z3.And(d == 0, v))
        reg = p.has(r"Cleanup::add_rrdp_repository$") or p.has(r"Cleanup::add_rsync_module$")
        if not kept or not reg:
            fn = mprop.write_cex(res, "retained_point_%d" % i, p, E,
                                 "point to be retained: kept=%s, repository/module registered=%s" % (kept, reg))
            res.violation("mir:retained-point-not-" + ("kept" if not kept else "registered"),
                          "a stored point that must be retained is %s" % ("deleted" if not kept else "kept but its collector copy is not registered for retention"), fn)
    total += n3
    if n3 == 0:
        res.inconclusive.append("vacuity: cleanup_points closure has no retaining path")

    # 4. StoredPoint::retain
    sp = mir.struct_fields("StoredPoint", "src/store.rs")
    sm = mir.struct_fields("StoredManifest", "src/store.rs")
    body = E.prog.find("src/store.rs", "StoredPoint", "retain")
    res.functions.append("routinator::store::StoredPoint::retain (MIR)")
    paths = E.explore(body, max_visits=2, nomut=[r"."], pure=[r"Time::now$"])
    n4 = 0
    for i, p in enumerate(paths):
        if p.kind != "return":
            continue
        r = p.ret.get(())
        if not mir.is_z(r):
            res.inconclusive.append("retain path %d: result not boolean" % i)
            continue
        n4 += 1
        now = [e for e in p.events if re.search(r"Time::now$", e.name)]
        na = [(k, v) for k, v in p.mem.items() if len(k) >= 1 and k[-1] == ("f", sm.index("not_after")) and isinstance(v, mir.Opq)]
        if now and na:
            o = E.ord_var
            unexpired = o(na[0][1]) > o(now[-1].dest.get(()))
            m = E.model(p.cond, z3.And(unexpired, z3.Not(r)))
            if m is not None:
                fn = mprop.write_cex(res, "retain_drops_unexpired_%d" % i, p, E,
                                     "retain() is false although the manifest certificate's notAfter is later than now", m)
                res.violation("mir:retain-drops-unexpired", "a stored point whose manifest certificate has not expired is not retained", fn)
            m = E.model(p.cond, z3.And(z3.Not(unexpired), r))
            if m is not None:
                res.notes.append("retain() keeps an expired point on some path (not a C40 violation)")
    total += n4
    if n4 < 2:
        res.inconclusive.append("vacuity: retain paths=%d" % n4)

    # 5. directory walk: files / directories are removed only when the keep decision was false
    body = E.prog.find_name("store::<impl at " + _impl_of(E, "cleanup_dir_tree") + ">::cleanup_dir_tree::recurse") \
        if False else _find_recurse(E)
    paths = E.explore(body, max_visits=3, nomut=[r"."])
    res.functions.append("routinator::store::Run::cleanup_dir_tree::recurse (MIR)")
    n5 = 0
    for i, p in enumerate(paths):
        evs = p.events
        for x, e in enumerate(evs):
            if e.kind != "call":
                continue
            if re.search(r"fatal::remove_file$", e.name):
                n5 += 1
                prev = [f for f in evs[:x] if f.kind == "call" and re.search(r"FnMut::call_mut$|FnMut<.*>::call_mut$|call_mut$", f.name)]
                okc = prev and ok_true(E, p, prev[-1]) is not None and must(E, p, z3.Not(ok_true(E, p, prev[-1])))
                if not okc:
                    fn = mprop.write_cex(res, "remove_file_kept_%d" % i, p, E, "remove_file reachable although the keep callback returned true")
                    res.violation("mir:dir-walk-removes-kept-file", "cleanup_dir_tree removes a file its callback asked to keep", fn)
            if re.search(r"fatal::remove_dir_all$", e.name):
                n5 += 1
                prev = [f for f in evs[:x] if f.kind == "call" and re.search(r"(^|::)recurse$", f.name)]
                okc = prev and ok_true(E, p, prev[-1]) is not None and must(E, p, z3.Not(ok_true(E, p, prev[-1])))
                if not okc:
                    fn = mprop.write_cex(res, "remove_dir_kept_%d" % i, p, E, "remove_dir_all reachable although the sub-tree contains kept entries")
                    res.violation("mir:dir-walk-removes-kept-dir", "cleanup_dir_tree removes a directory that still contains kept files", fn)
    # ... and the walk reports "keep this directory" whenever one of its entries was kept (the caller removes the
    # whole directory with remove_dir_all otherwise)
    for i, p in enumerate(paths):
        if p.kind != "return":
            continue
        d = p.ret.get(("disc",))
        v = p.ret.get((("v", "Ok"), ("f", 0)))
        if d is None or not mir.is_z(v) or not E.feasible(p.cond, d == 0):
            continue
        kept = []
        for e in p.events:
            if e.kind == "call" and re.search(r"call_mut$|(^|::)recurse$", e.name):
                t = ok_true(E, p, e)
                if t is not None:
                    kept.append(t)
        if not kept:
            continue
        n5 += 1
        mdl = E.model(p.cond, z3.And(d == 0, z3.Or(kept), z3.Not(v)))
        if mdl is not None and not any(x["key"] == "mir:dir-walk-forgets-kept-entry" for x in res.violations):
            fn = mprop.write_cex(res, "dir_walk_forgets_kept_%d" % i, p, E,
                                 "recurse returns Ok(false) (caller removes the whole directory) although an entry was kept", mdl)
            res.violation("mir:dir-walk-forgets-kept-entry",
                          "cleanup_dir_tree::recurse reports a directory as removable although a file or sub-directory in it "
                          "was kept (the keep decision of an earlier entry is overwritten): remove_dir_all deletes live data", fn)
    total += n5
    if n5 == 0:
        res.inconclusive.append("vacuity: no removal reached in cleanup_dir_tree::recurse")

    # 6. collectors: removal only when not in the retain set
    body = E.prog.find("src/collector/rrdp/base.rs", "Run", "cleanup_authority")
    paths = E.explore(body, max_visits=3, nomut=[r"."])
    res.functions.append("routinator::collector::rrdp::base::Run::{cleanup, cleanup_authority} (MIR)")
    n6 = 0
    for i, p in enumerate(paths):
        evs = p.events
        for x, e in enumerate(evs):
            if e.kind == "call" and re.search(r"fs::remove_file$|remove_file$", e.name):
                start = max([y for y, f in enumerate(evs[:x]) if f.kind == "call" and f.name.endswith("Iterator::next")] or [0])
                prev = [f for f in evs[start:x] if f.kind == "call" and re.search(r"Run::keep_repository$", f.name)]
                n6 += 1
                ok = prev and ok_true(E, p, prev[-1]) is not None and must(E, p, z3.Not(ok_true(E, p, prev[-1]))) \
                    and must(E, p, disc_of(E, p, prev[-1]) == 0)
                if not ok:
                    fn = mprop.write_cex(res, "rrdp_remove_kept_%d" % i, p, E, "RRDP archive removed although keep_repository did not say 'false'")
                    res.violation("mir:rrdp-removes-retained-archive", "an RRDP archive that is to be retained is deleted", fn)
    body = E.prog.find("src/collector/rrdp/base.rs", "Run", "keep_repository")
    for i, p in enumerate(E.explore(body, max_visits=2, nomut=[r"."])):
        if p.kind != "return":
            continue
        c = [e for e in p.events if e.kind == "call" and re.search(r"HashSet::contains$", e.name)]
        v = p.ret.get((("v", "Ok"), ("f", 0)))
        d = p.ret.get(("disc",))
        if c and d is not None and must(E, p, d == 0):
            n6 += 1
            if v is not c[-1].dest.get(()):
                fn = mprop.write_cex(res, "keep_repository_%d" % i, p, E, "keep_repository does not return retain.contains(rpki_notify)")
                res.violation("mir:rrdp-keep-not-membership", "keep_repository's answer is not membership in the retain set", fn)
    body = E.prog.find("src/collector/rrdp/base.rs", "Run", "cleanup")
    for i, p in enumerate(E.explore(body, max_visits=2, nomut=[r"."])):
        rm = [x for x, e in enumerate(p.events) if e.kind == "call" and re.search(r"remove_file$|cleanup_authority$|cleanup_tmp$", e.name)]
        if rm:
            n6 += 1
            if not any(e.kind == "call" and re.search(r"(HashMap|RwLock).*::(keys|read)$|::keys$", e.name) for e in p.events[:rm[0]]):
                fn = mprop.write_cex(res, "rrdp_cleanup_order_%d" % i, p, E, "removal starts before this run's repositories were added to the retain set")
                res.violation("mir:rrdp-cleanup-before-retain", "RRDP cleanup deletes before registering the repositories used in this run", fn)
    body = E.prog.find("src/collector/rsync.rs", "Run", "cleanup_host")
    res.functions.append("routinator::collector::rsync::Run::{cleanup, cleanup_host} (MIR)")
    for i, p in enumerate(E.explore(body, max_visits=3, nomut=[r"."])):
        evs = p.events
        for x, e in enumerate(evs):
            if e.kind == "call" and re.search(r"(^|::)remove_all$", e.name):
                start = max([y for y, f in enumerate(evs[:x]) if f.kind == "call" and f.name.endswith("Iterator::next")] or [0])
                prev = [f for f in evs[start:x] if f.kind == "call" and re.search(r"HashSet::contains$", f.name)]
                n6 += 1
                if prev:
                    r = prev[-1].dest.get(())
                    if not mir.is_z(r) or not must(E, p, z3.Not(r)):
                        fn = mprop.write_cex(res, "rsync_remove_kept_%d" % i, p, E, "rsync module removed although it is in the retain set")
                        res.violation("mir:rsync-removes-retained-module", "an rsync module that is to be retained is deleted", fn)
    body = E.prog.find("src/collector/rsync.rs", "Run", "cleanup")
    for i, p in enumerate(E.explore(body, max_visits=2, nomut=[r"."])):
        rm = [x for x, e in enumerate(p.events) if e.kind == "call" and re.search(r"remove_all$|cleanup_host$", e.name)]
        if rm:
            n6 += 1
            if not any(e.kind == "call" and re.search(r"HashSet.*::iter$|::iter$|RwLock.*::read$", e.name) for e in p.events[:rm[0]]):
                fn = mprop.write_cex(res, "rsync_cleanup_order_%d" % i, p, E, "removal starts before this run's modules were added to the retain set")
                res.violation("mir:rsync-cleanup-before-retain", "rsync cleanup deletes before registering the modules used in this run", fn)
    # host level: a host directory is removed only if the retain set has no entry for it or cleanup_host said so
    for i, p in enumerate(E.explore(body, max_visits=2, nomut=[r"."])):
        evs = p.events
        for x, e in enumerate(evs):
            if not (e.kind == "call" and re.search(r"(^|::)remove_all$", e.name)):
                continue
            start = max([y for y, f in enumerate(evs[:x]) if f.kind == "call" and f.name.endswith("Iterator::next")] or [0])
            it = evs[start:x]
            get = [f for f in it if f.kind == "call" and re.search(r"HashMap::get$", f.name)]
            ch = [f for f in it if f.kind == "call" and re.search(r"cleanup_host$", f.name)]
            n6 += 1
            ok = True
            if ch:
                v = mir.peek(E, p.mem, (("o", ch[-1].dest.get(()).id), ("v", "Ok"), ("f", 0))) if isinstance(ch[-1].dest.get(()), mir.Opq) else ch[-1].dest.get((("v", "Ok"), ("f", 0)))
                ok = v is not None and mir.is_z(v) and must(E, p, z3.Not(v))
            elif get:
                d = disc_of(E, p, get[-1])
                ok = d is not None and must(E, p, d == 0)
            if not ok:
                fn = mprop.write_cex(res, "rsync_remove_kept_host_%d" % i, p, E, "host directory removed although the retain set has modules for it and cleanup_host kept some")
                res.violation("mir:rsync-removes-retained-host", "the directory of an rsync host with retained modules is deleted", fn)
    total += n6
    res.distinct += total
    check_retain_keys(res, E)
    res.samples.append({"cleanup_paths_dirty": n_dirty, "cleanup_paths_cleaning": n_clean, "retaining_closure_paths": n3,
                        "retain_paths": n4, "dir_walk_removals": n5, "collector_removal_sites": n6})
    res.samples.append({"rule": "removal events are reachable only when the keep decision is forced false; dirty => no cleanup call; failed run => no cleanup"})
    res.bounds.append("all paths of each function; directory loops unrolled to 2 entries; file-system calls are opaque")
    res.assumptions += ["directory listing and deletion functions behave as named (fatal::remove_file etc.)",
                        "Time values form a total order; histories are covered by induction on one cleanup from an arbitrary store state"]
    res.rule = ("one case = one removal site occurrence / one retaining path / one cleanup path; obligations decided "
                "by z3 on the path condition; evaluations = z3 queries")
    import argslice
    argslice.check_cli_flag(res, E, mprop, "dirty_repository", "--dirty", "cleanup then runs although the operator asked to keep everything (or the reverse)")
    mprop.finish_engine(res, E)


def _impl_of(E, name):
    return ""


def _find_recurse(E):
    c = [b for n, bs in E.prog.bodies.items() if n == "recurse" or n.endswith("::recurse") for b in bs]
    if len(c) != 1:
        raise LookupError("cleanup_dir_tree::recurse: %d candidates" % len(c))
    return c[0].parse()
