"""C06 Stale and premature manifests/CRLs follow the configured policy (M engine)."""
import re

import z3

import mir
import mprop


def setup(E):
    pp = mir.struct_fields("PubPoint", "src/engine.rs")
    run = mir.struct_fields("Run", "src/engine.rs")
    eng = mir.struct_fields("Engine", "src/engine.rs")
    selfp = mir.Opq("&mut engine::PubPoint", "self")
    runp = mir.Opq("&engine::Run", "run")
    engp = mir.Opq("&engine::Engine", "engine")
    policy = z3.Int("stale_policy")
    FP = E.prog.enums["FilterPolicy"]
    E.fact("stale_policy_dom", z3.And(policy >= 0, policy < len(FP)))

    def pre(E_, st, frame):
        st.mem[(("o", selfp.id), "deref", ("f", pp.index("run")))] = runp
        st.mem[(("o", runp.id), "deref", ("f", run.index("validation")))] = engp
        st.mem[(("o", engp.id), "deref", ("f", eng.index("stale")), "disc")] = policy
    return selfp, policy, FP, pre


def ret_some(E, p, ok_is_some):
    """z3 condition 'the function accepted' (Ok(Some(_)) or Ok(_))."""
    d = p.ret.get(("disc",))
    if d is None:
        return None
    if ok_is_some:
        od = p.ret.get((("v", "Ok"), ("f", 0), "disc"))
        if od is None:
            if not E.feasible(p.cond, d == 0):
                return z3.BoolVal(False)
            return None
        return z3.And(d == 0, od == 1)
    return d == 0


def stale_events(p, pat):
    return [e for e in p.events if e.kind in ("call", "pure") and re.search(pat, e.name)]


def check_fn(res, E, method, ok_is_some, need, premature):
    selfp, policy, FP, pre = setup(E)
    body = E.prog.find("src/engine.rs", "PubPoint", method)
    res.functions.append("routinator::engine::PubPoint::%s (MIR, %d blocks)" % (method, len(body.blocks)))
    paths = E.explore(body, max_visits=3, arg_values={"_1": {(): selfp}}, pre=pre,
                      pure=[r"ManifestContent::this_update$"],
                      nomut=[r"."])
    REJ, WARN, ACC = FP.index("Reject"), FP.index("Warn"), FP.index("Accept")
    n_acc = 0
    live = {"Warn": False, "Accept": False}
    for i, p in enumerate(paths):
        if p.kind != "return":
            continue
        acc = ret_some(E, p, ok_is_some)
        if acc is None:
            res.inconclusive.append("%s path %d: return value shape unknown" % (method, i))
            continue
        if not E.feasible(p.cond, acc):
            continue
        n_acc += 1
        # every staleness test named in `need` must have been consulted and must not be (stale & Reject)
        stale_any = []
        for what, pat in need:
            evs = stale_events(p, pat)
            if not evs:
                fn = mprop.write_cex(res, "%s_no_%s_check_%d" % (method, what, i), p, E,
                                     "%s accepts without consulting %s staleness" % (method, what))
                res.violation("mir:%s:%s-staleness-not-checked" % (method, what),
                              "%s accepts a %s without testing is_stale()" % (method, what), fn)
                continue
            s = evs[-1].dest.get(())
            if not mir.is_z(s):
                res.inconclusive.append("%s path %d: is_stale result not boolean" % (method, i))
                continue
            stale_any.append(s)
            m = E.model(p.cond, z3.And(acc, s, policy == REJ))
            if m is not None:
                fn = mprop.write_cex(res, "%s_accepts_stale_%s_%d" % (method, what, i), p, E,
                                     "%s accepts a stale %s although the policy is reject" % (method, what), m)
                res.violation("mir:%s:accepts-stale-%s-under-reject" % (method, what),
                              "%s: stale %s accepted with stale policy 'reject'" % (method, what), fn)
        if premature:
            tu = stale_events(p, r"ManifestContent::this_update$")
            now = stale_events(p, r"Time::now$")
            if not tu or not now:
                fn = mprop.write_cex(res, "%s_no_premature_check_%d" % (method, i), p, E,
                                     "%s accepts without comparing thisUpdate with the current time" % method)
                res.violation("mir:%s:premature-not-checked" % method,
                              "%s accepts a manifest without the premature (thisUpdate > now) test" % method, fn)
            else:
                o = E.ord_var
                prem = o(tu[0].dest.get(())) > o(now[0].dest.get(()))
                m = E.model(p.cond, z3.And(acc, prem))
                if m is not None:
                    fn = mprop.write_cex(res, "%s_accepts_premature_%d" % (method, i), p, E,
                                         "%s accepts a manifest whose thisUpdate is in the future" % method, m)
                    res.violation("mir:%s:accepts-premature" % method,
                                  "%s: premature manifest accepted" % method, fn)
        # liveness: warn / accept do not reject because of staleness alone
        if stale_any:
            for nm, val in (("Warn", WARN), ("Accept", ACC)):
                if E.feasible(p.cond, z3.And([acc, policy == val] + stale_any)):
                    live[nm] = True
        if len(res.samples) < 10:
            res.samples.append({"function": method, "accepting_path_events":
                                [e.name.split("::")[-1] for e in p.events if e.kind in ("call", "pure")][:14]})
    for nm, okv in live.items():
        if not okv:
            fn = None
            res.violation("mir:%s:stale-rejected-under-%s" % (method, nm.lower()),
                          "%s: no accepting path exists for a stale object with stale policy '%s' "
                          "(the policy would reject although it must not)" % (method, nm.lower()),
                          mprop.write_cex(res, "%s_%s_never_accepts" % (method, nm.lower()),
                                          paths[0], E, "no accepting path with all staleness flags true and policy %s" % nm))
    if n_acc == 0:
        res.inconclusive.append("vacuity: %s has no accepting path" % method)
    res.distinct += n_acc
    res.extra.setdefault("paths", {})[method] = len(paths)
    res.extra.setdefault("accepting_paths", {})[method] = n_acc
    res.extra.setdefault("paths_truncated_at_bound", {})[method] = E.bound_hits


def run(res, tier):
    E = mprop.engine(res)
    res.extra.setdefault("source_files_sha256", {}).update(mprop.source_hashes(["src/engine.rs", "src/config.rs"]))
    check_fn(res, E, "validate_collected_manifest", True,
             [("manifest", r"ManifestContent::is_stale$")], premature=True)
    check_fn(res, E, "validate_collected_crl", True, [("crl", r"(Crl|TbsCertList)::is_stale$")], premature=False)
    check_fn(res, E, "validate_stored_manifest", False,
             [("manifest", r"ManifestContent::is_stale$"), ("crl", r"(Crl|TbsCertList)::is_stale$")], premature=False)
    # the collected manifest is only accepted together with its CRL check
    res.bounds.append("all paths of the three validation functions; the CRL-lookup loop over manifest entries in "
                      "validate_collected_crl is unrolled to 2 entries; is_stale()/Time::now() results and the stale "
                      "policy are symbolic")
    res.assumptions += [
        "is_stale() of rpki-rs (nextUpdate < now) is an opaque boolean; Time values are a total order",
        "that a rejected CA's descendants contribute nothing follows from C01's gating (child CA tasks are only "
        "created inside an accepted point)",
    ]
    res.rule = ("one case = one feasible accepting MIR path (function returns Ok(Some)/Ok); for each, z3 queries: "
                "accept & stale & policy=reject unsat, accept & premature unsat, and some accepting path is "
                "satisfiable with stale & policy=warn / accept; evaluations = z3 queries")
    check_cli_policy(res, E)
    mprop.finish_engine(res, E)


def check_cli_policy(res, E, name="stale", flag="--stale", consequence="a config file's accept/warn can survive an explicit --stale reject"):
    """A policy option on the command line overrides the configured policy whenever it is given (whatever its value),
    and leaves it alone when absent: the slice of Config::apply_arg_matches that handles the option."""
    import z3
    import mir
    import argslice
    sl = argslice.arg_slice(E, name)
    if sl is None:
        res.inconclusive.append("apply_arg_matches: the blocks handling %s were not found" % flag)
        return
    b2, local, ia, start, end = sl
    res.functions.append("routinator::config::Config::apply_arg_matches, slice %s..%s handling %s (MIR)" % (start, end, flag))
    cf = mir.struct_fields("Config", "src/config.rs")
    ic = cf.index(name)
    selfp = mir.Opq("&mut Config", "self")
    c0 = z3.Int("configured_%s_policy" % name)
    base = (("o", selfp.id), "deref", ("f", ic))

    def pre(E_, st, frame):
        st.mem[base + ("disc",)] = c0
    n = 0
    for i, p in enumerate(E.explore(b2, max_visits=2, arg_values={"_1": {(): selfp}}, pre=pre, max_paths=500)):
        if p.kind != "return":
            continue
        n += 1
        ad, pay = argslice.arg_leaves(p, local, ia)
        if ad is None:
            res.inconclusive.append("apply_arg_matches %s slice path %d: the argument was not read" % (flag, i))
            continue
        pv = p.mem.get(("F1:%s" % local, ("f", ia), ("v", "Some"), ("f", 0)))
        post = p.mem.get(base)
        post_d = p.mem.get(base + ("disc",))
        given_forced = not E.feasible(p.cond, ad != 1)
        absent_forced = not E.feasible(p.cond, ad != 0)
        same = lambda x, y: (isinstance(x, mir.Opq) and isinstance(y, mir.Opq) and x.id == y.id) or (mir.is_z(x) and mir.is_z(y) and x.eq(y))
        bad = None
        what = ""
        if given_forced:
            if not (post is not None and pv is not None and same(post, pv)):
                bad = E.model(p.cond, z3.BoolVal(True))
                what = "%s is given, yet the policy in force afterwards is not the given value (it stays the configured one or becomes %r)" % (flag, post)
        elif absent_forced:
            if post is not None or not (mir.is_z(post_d) and post_d.eq(c0)):
                bad = E.model(p.cond, z3.BoolVal(True))
                what = "%s is absent, yet the configured policy is overwritten" % flag
        else:
            res.inconclusive.append("apply_arg_matches %s slice path %d does not depend on whether the option was given" % (flag, i))
            continue
        if bad is not None:
            fn = mprop.write_cex(res, "cli_%s_%d" % (name, i), p, E, what, bad)
            res.violation("mir:cli-%s-not-applied" % name.replace("_", "-"), "the command line's %s is not applied as given (%s): %s" % (flag, what, consequence), fn)
            break
    res.distinct += n
    if n < 1:
        res.inconclusive.append("vacuity: %s slice has %d returning paths" % (flag, n))
