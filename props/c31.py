"""C31 No fetches to dubious hosts unless allowed (Kani + M)."""
import re

import z3

import mir
import mprop
from kprop import run_kani_part

SPEC = {
    "groups": ["uri"],
    "files": ["src/utils/uri.rs", "src/collector/rsync.rs", "src/collector/rrdp/base.rs"],
    "harnesses": {
        "quick": ["c31_localhost_case", "c31_auth_len7"],
        "thorough": ["c31_auth_len8", "c31_auth_len9", "c31_auth_len11"],
    },
    "harness_file": {"*": ("uri.rs", "src/utils/uri.rs")},
    "timeout": {"quick": 900, "thorough": 3000},
}


def gate(res, E, file, ty, method, fetch_pat, label, struct_file, cfg_struct, flag_path):
    body = E.prog.find(file, ty, method)
    res.functions.append("%s::%s (MIR, %d blocks)" % (ty, method, len(body.blocks)))
    paths = E.explore(body, max_visits=2, nomut=[r"."])
    n = 0
    for i, p in enumerate(paths):
        fetch = [x for x, e in enumerate(p.events) if e.kind == "call" and re.search(fetch_pat, e.name)]
        if not fetch:
            continue
        n += 1
        dub = [e for e in p.events[:fetch[0]] if e.kind == "call" and re.search(r"has_dubious_authority$", e.name)]
        # the fetch may only happen if filtering is off or the predicate said "not dubious"
        if not dub:
            # allowed only if the path condition shows filter_dubious == false
            flag = [c for c in p.cond if "filter_dubious" in str(c) or ".0" in str(c)]
            # find the boolean that guarded the short-circuit: first Bool in the condition list
            ok = False
            for c in p.cond:
                s = str(z3.simplify(c))
                if s.startswith("Not(") and "filter" in s.lower():
                    ok = True
            if not ok:
                # generic: the fetch is reached without consulting the predicate; accept only when some
                # boolean field read before the fetch is forced false (the filter flag)
                ok = any(z3.is_not(z3.simplify(c)) and z3.is_const(z3.simplify(c).arg(0)) for c in p.cond)
            if not ok:
                fn = mprop.write_cex(res, "%s_fetch_unfiltered_%d" % (label, i), p, E,
                                     "%s reaches %s without evaluating has_dubious_authority while filtering may be on" % (method, fetch_pat))
                res.violation("mir:%s:fetch-without-dubious-test" % label,
                              "%s starts a fetch without testing the host although filtering is enabled" % label, fn)
            continue
        r = dub[-1].dest.get(())
        if mir.is_z(r) and E.feasible(p.cond, r):
            # dubious and still fetching: only legal when the filter flag is off, but then the predicate
            # would not have been evaluated (short-circuit &&)
            fn = mprop.write_cex(res, "%s_fetch_dubious_%d" % (label, i), p, E,
                                 "%s reaches %s although has_dubious_authority() returned true" % (method, fetch_pat))
            res.violation("mir:%s:fetch-to-dubious-host" % label,
                          "%s starts a fetch for a URI whose host was classified dubious with filtering enabled" % label, fn)
        if len(res.samples) < 8:
            res.samples.append({"gate": label, "events_before_fetch": [e.name.split("::")[-1] for e in p.events[:fetch[0] + 1] if e.kind == "call"][-6:]})
    if n == 0:
        res.inconclusive.append("vacuity: %s never reaches its fetch (%s)" % (method, fetch_pat))
    res.distinct += n
    return n


def run(res, tier):
    res.functions += ["routinator::utils::uri::UriExt::has_dubious_authority (provided method, real)",
                      "std::net::IpAddr::from_str, str::contains, str eq (real std code)"]
    res.bounds += [
        "authority = every ASCII byte string of exactly 7 bytes (quick; shortest IPv4 literal) / 8, 9, 11 bytes "
        "(thorough) over printable characters without '/', '@'; plus the word localhost in all 512 letter-case "
        "variants; longer authorities are outside the bound",
    ]
    res.assumptions += [
        "the reference classifies: case-insensitive 'localhost', any ':' (explicit port, IPv6 literal, bracketed "
        "forms), dotted-quad decimal IPv4 without leading zeros; only the direction 'reference says dubious => "
        "flagged' is asserted",
        "get_authority() returns the URI's authority component (rpki-rs)",
    ]
    res.rule = ("K: one case = one Kani harness (authority length); M: one case = one feasible path of a fetch gate "
                "that reaches the fetch; evaluations = CBMC checks + z3 queries")
    run_kani_part(res, SPEC, tier)
    E = mprop.engine(res)
    gate(res, E, "src/collector/rsync.rs", "Run", "load_module", r"RsyncCommand::update$", "rsync",
         None, None, None)
    gate(res, E, "src/collector/rrdp/base.rs", "Run", "load_repository", r"RepositoryUpdate::new$|RepositoryUpdate::try_update$", "rrdp",
         None, None, None)
    mprop.finish_engine(res, E)
