"""C31 No fetches to dubious hosts unless allowed (M engine + z3 strings + native replay)."""
import json
import os
import re

import z3

import mir
import mprop

IPV4 = None


def ipv4_regex():
    d = z3.Range("0", "9")
    d19 = z3.Range("1", "9")
    octet = z3.Union(
        d,                                                      # 0-9
        z3.Concat(d19, d),                                      # 10-99
        z3.Concat(z3.Re("1"), d, d),                            # 100-199
        z3.Concat(z3.Re("2"), z3.Range("0", "4"), d),           # 200-249
        z3.Concat(z3.Re("25"), z3.Range("0", "5")))             # 250-255
    dot = z3.Re(".")
    return z3.Concat(octet, dot, octet, dot, octet, dot, octet)


def localhost_regex():
    parts = []
    for ch in "localhost":
        parts.append(z3.Union(z3.Re(ch), z3.Re(ch.upper())))
    return z3.Concat(*parts)


def str_of(E, st_or_mem, val, strings):
    """z3 String for a value: constants become literals, opaque &str values become variables."""
    leaf = val.get(())
    for _ in range(4):
        if isinstance(leaf, mir.Ref):
            sub = {k[len(leaf.loc):]: v for k, v in st_or_mem.items() if k[:len(leaf.loc)] == leaf.loc}
            leaf = sub.get(())
        else:
            break
    if isinstance(leaf, mir.Str):
        m = re.match(r'^"(.*)"$', leaf.s)
        return z3.StringVal(m.group(1) if m else leaf.s)
    if isinstance(leaf, mir.Opq):
        if leaf.id not in strings:
            strings[leaf.id] = z3.String("str_%d" % leaf.id)
        return strings[leaf.id]
    return None


def check_predicate(res):
    E = mprop.engine(res)
    body = E.prog.find_name("UriExt::has_dubious_authority")
    res.functions.append("routinator::utils::uri::UriExt::has_dubious_authority (MIR, %d blocks)" % len(body.blocks))
    strings = {}
    isip = z3.Function("parses_as_ip", z3.StringSort(), z3.BoolSort())

    def m_eq(E_, st, frame, callee, argvals, dest_ty):
        a = str_of(E_, st.mem, argvals[0], strings)
        b = str_of(E_, st.mem, argvals[1], strings)
        if a is None or b is None:
            return NotImplemented
        st.events.append(mir.Event("str::eq", argvals, None, ("", ""), "call", callee))
        return {(): a == b}

    def m_eq_ic(E_, st, frame, callee, argvals, dest_ty):
        a = str_of(E_, st.mem, argvals[0], strings)
        b = str_of(E_, st.mem, argvals[1], strings)
        if a is None or b is None or not z3.is_string_value(b):
            return NotImplemented
        lit = b.as_string()
        parts = [z3.Union(z3.Re(c.lower()), z3.Re(c.upper())) if c.isalpha() else z3.Re(c) for c in lit]
        rx = z3.Concat(*parts) if len(parts) > 1 else parts[0]
        st.events.append(mir.Event("str::eq_ignore_ascii_case", argvals, None, ("", ""), "call", callee))
        return {(): z3.InRe(a, rx)}

    def m_contains(E_, st, frame, callee, argvals, dest_ty):
        a = str_of(E_, st.mem, argvals[0], strings)
        c = argvals[1].get(())
        if a is None or not mir.is_z(c) or not z3.is_bv_value(z3.simplify(c)):
            return NotImplemented
        ch = chr(z3.simplify(c).as_long())
        st.events.append(mir.Event("str::contains", argvals, None, ("", ""), "call", callee))
        return {(): z3.Contains(a, z3.StringVal(ch))}

    def m_fromstr(E_, st, frame, callee, argvals, dest_ty):
        a = str_of(E_, st.mem, argvals[0], strings)
        if a is None:
            return NotImplemented
        st.events.append(mir.Event("IpAddr::from_str", argvals, None, ("", ""), "call", callee))
        ok = isip(a)
        return {("disc",): z3.If(ok, z3.IntVal(0), z3.IntVal(1))}

    def m_lower(E_, st, frame, callee, argvals, dest_ty):
        return NotImplemented

    def m_len(E_, st, frame, callee, argvals, dest_ty):
        a = str_of(E_, st.mem, argvals[0], strings)
        if a is None:
            return NotImplemented
        st.events.append(mir.Event("str::len", argvals, None, ("", ""), "call", callee))
        # the length as a bit-vector tied to the string by regular-expression membership (strings are bounded to
        # 40 characters): mixing Int2BV(Length) into the path condition made z3 4.8 return inconsistent models
        key = "len:" + str(a)
        if key not in strings:
            lv = z3.BitVec("len_" + re.sub(r"\W+", "_", str(a)), 64)
            anych = z3.Range(chr(1), chr(126))
            strings.setdefault("__axioms__", []).append(z3.Or([z3.And(lv == n, z3.InRe(a, z3.Loop(anych, n, n))) for n in range(0, 41)]))
            strings[key] = lv
        return {(): strings[key]}

    # integer constants of the file (e.g. a maximal literal length) by value
    import os
    import vcommon
    consts = {}
    try:
        src = open(os.path.join(vcommon.REPO, "src/utils/uri.rs")).read()
        for nm, ty, val in re.findall(r"const (\w+): (usize|u8|u16|u32|u64) = (\d+);", src):
            consts[r"(^|::|\s)%s$" % nm] = {(): z3.BitVecVal(int(val), {"usize": 64, "u8": 8, "u16": 16, "u32": 32, "u64": 64}[ty])}
    except OSError:
        pass
    paths = E.explore(body, max_visits=3, consts=consts, models={
        r"^<&?str as PartialEq(<&?str>)?>::eq$": m_eq,
        r"str>::eq_ignore_ascii_case$|::eq_ignore_ascii_case$": m_eq_ic,
        r"str>::contains::<char>$": m_contains,
        r"^<(std::net::)?IpAddr as FromStr>::from_str$": m_fromstr,
        r"(^|::)str>?::len$|core::str::<impl str>::len$": m_len,
    })
    auth = None
    for e in paths[0].events if paths else []:
        if e.name.endswith("get_authority"):
            auth = strings.get(e.dest.get(()).id) if isinstance(e.dest.get(()), mir.Opq) else None
    if auth is None:
        for p in paths:
            for e in p.events:
                if e.name.endswith("get_authority") and isinstance(e.dest.get(()), mir.Opq):
                    auth = strings.setdefault(e.dest.get(()).id, z3.String("str_%d" % e.dest.get(()).id))
    if auth is None:
        res.inconclusive.append("has_dubious_authority never calls get_authority")
        return E
    # contract of the std parser used as an axiom: every dotted-quad decimal literal parses
    dubious = z3.Or(z3.InRe(auth, localhost_regex()), z3.Contains(auth, z3.StringVal(":")),
                    z3.InRe(auth, ipv4_regex()))
    E.solver.add(z3.Implies(z3.InRe(auth, ipv4_regex()), isip(auth)))
    E.solver.add(z3.Length(auth) <= 40)
    for ax in strings.get("__axioms__", []):
        E.solver.add(ax)
    n = 0
    classes = {"localhost": z3.InRe(auth, localhost_regex()), "colon": z3.Contains(auth, z3.StringVal(":")),
               "ipv4": z3.InRe(auth, ipv4_regex())}
    for i, p in enumerate(paths):
        if p.kind != "return":
            continue
        r = p.ret.get(())
        if not mir.is_z(r):
            res.inconclusive.append("path %d: result not boolean" % i)
            continue
        n += 1
        for cname, cls in classes.items():
            m = E.model(p.cond, z3.And(z3.Not(r), cls))
            if m is not None:
                s = m.eval(auth, model_completion=True).as_string()
                native = native_replay(res, s)
                fn = mprop.write_cex(res, "not_flagged_%s_%d" % (cname, i), p, E,
                                     "authority %r is %s but has_dubious_authority() returns false; %s" % (s, cname, native[1]), m)
                if native[0] is False:
                    res.inconclusive.append("authority %r: solver model did not reproduce natively" % s)
                else:
                    res.violation("mir:dubious-not-flagged:" + cname,
                                  "host %r (%s form) is not classified as dubious%s" % (s, cname, "; reproduced natively" if native[0] else ""), fn)
        res.samples.append({"path_result_true_possible": E.feasible(p.cond, r),
                            "tests": [e.name for e in p.events if e.kind == "call"]})
    if n < 2:
        res.inconclusive.append("vacuity: predicate has %d returning paths" % n)
    res.distinct += n
    return E


def native_replay(res, authority):
    """Call the real predicate on the solver's string (rsync and https URIs) in a native test."""
    import nativetest
    from vcommon import VERIF
    safe = authority.replace("\\", "\\\\").replace('"', '\\"')
    src = '''// generated by props/c31.py: native replay of a solver-found authority
use super::*;
use std::str::FromStr;
#[test]
fn c31_native_replay() {
    let a = "%s";
    let mut flagged_all = true;
    if let Ok(u) = uri::Rsync::from_str(&format!("rsync://{}/module/x", a)) {
        println!("C31-NATIVE rsync {} -> {}", a, u.has_dubious_authority());
        flagged_all &= u.has_dubious_authority();
    }
    if let Ok(u) = uri::Https::from_str(&format!("https://{}/x", a)) {
        println!("C31-NATIVE https {} -> {}", a, u.has_dubious_authority());
        flagged_all &= u.has_dubious_authority();
    }
    assert!(flagged_all, "authority {} not flagged", a);
}
''' % safe
    os.makedirs(os.path.join(VERIF, "replays", res.prop), exist_ok=True)
    path = os.path.join(VERIF, "native", "c31_generated.rs")
    with open(path, "w") as f:
        f.write(src)
    failed, passed, out = nativetest.run_native_test("native_c31", "c31_native_replay")
    res.extra.setdefault("native_replays", []).append({"authority": authority, "test_failed": failed, "test_passed": passed})
    if failed:
        return True, "native replay: real has_dubious_authority returned false"
    if passed:
        return False, "native replay: real code flags it"
    return None, "native replay could not be built"


def gate(res, E, file, ty, method, fetch_pat, label):
    body = E.prog.find(file, ty, method)
    res.functions.append("%s::%s (MIR, %d blocks)" % (ty, method, len(body.blocks)))
    paths = E.explore(body, max_visits=2, nomut=[r"."])
    n = 0
    for i, p in enumerate(paths):
        fetch = [x for x, e in enumerate(p.events) if e.kind == "call" and re.search(fetch_pat, e.name)]
        if not fetch:
            continue
        n += 1
        dub = [e for e in p.events[:fetch[0]] if e.kind == "call" and re.search(r"has_dubious_authority$", e.name)]
        if not dub:
            # legal only if the filter flag itself is forced false on this path (short-circuit &&)
            ok = any(z3.is_not(z3.simplify(c)) and z3.is_const(z3.simplify(c).arg(0)) for c in p.cond)
            if not ok:
                fn = mprop.write_cex(res, "%s_fetch_unfiltered_%d" % (label, i), p, E,
                                     "%s reaches its fetch without evaluating has_dubious_authority although filtering may be on" % method)
                res.violation("mir:%s:fetch-without-dubious-test" % label,
                              "%s starts a fetch without testing the host although filtering is enabled" % label, fn)
            continue
        r = dub[-1].dest.get(())
        if mir.is_z(r) and E.feasible(p.cond, r):
            fn = mprop.write_cex(res, "%s_fetch_dubious_%d" % (label, i), p, E,
                                 "%s reaches its fetch although has_dubious_authority() returned true" % method)
            res.violation("mir:%s:fetch-to-dubious-host" % label,
                          "%s starts a fetch for a URI whose host was classified dubious with filtering enabled" % label, fn)
        if len(res.samples) < 8:
            res.samples.append({"gate": label, "events_before_fetch": [e.name.split("::")[-1] for e in p.events[:fetch[0] + 1] if e.kind == "call"][-6:]})
    if n == 0:
        res.inconclusive.append("vacuity: %s never reaches its fetch (%s)" % (method, fetch_pat))
    res.distinct += n


def run(res, tier):
    res.extra.setdefault("source_files_sha256", {}).update(
        mprop.source_hashes(["src/utils/uri.rs", "src/collector/rsync.rs", "src/collector/rrdp/base.rs"]))
    E = check_predicate(res)
    gate(res, E, "src/collector/rsync.rs", "Run", "load_module", r"RsyncCommand::update$", "rsync")
    gate(res, E, "src/collector/rrdp/base.rs", "Run", "load_repository",
         r"RepositoryUpdate::new$|RepositoryUpdate::try_update$", "rrdp")
    res.bounds += [
        "authority: any string of up to 40 characters (z3 string theory); classes checked: 'localhost' in any letter "
        "case, any string containing ':', any dotted-quad decimal IPv4 literal without leading zeros",
        "fetch gates: all paths of rsync::Run::load_module and rrdp::Run::load_repository",
    ]
    res.assumptions += [
        "models (trusted) for the three std calls the predicate makes: str == str is string equality, "
        "str::contains(char) is substring containment, IpAddr::from_str succeeds at least on every dotted-quad "
        "decimal literal (axiom; other inputs free)",
        "only 'documented dubious form => flagged' is asserted, not the converse",
        "a solver-found authority is replayed natively through rpki's real URI parser and the real predicate",
    ]
    res.rule = ("one case = one returning MIR path of the predicate x 3 host classes (z3 string queries), or one "
                "path of a fetch gate that reaches the fetch; evaluations = z3 queries")
    import argslice
    argslice.check_cli_flag(res, E, mprop, "allow_dubious_hosts", "--allow-dubious-hosts", "dubious hosts are then contacted although not allowed (or the reverse)")
    mprop.finish_engine(res, E)
