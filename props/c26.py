"""C26 The object archive behaves like a map and stays consistent - arithmetic kernel only (M engine, 64-bit bit-vectors)."""
import re

import z3

import mir
import mprop

BOUND = 1 << 48


def bodies(E, meth):
    return [b.parse() for n, bs in E.prog.bodies.items()
            if re.search(r"utils::archive::<impl at src/utils/archive\.rs:[^>]*>::%s$" % meth, n) for b in bs]


def ident(E_, st, frame, callee, argvals, dest_ty):
    return dict(argvals[0])

def check_find(res, E, tier):
    """Archive::find walks a bucket chain; what it returns as `prev` is what delete_found / update unlink with.
    On every path that finds the object in iteration k (k up to 3 / 5), prev is the position visited in iteration
    k-1, and None for k = 0; the reported start is the position of iteration k."""
    body = [b for n, b_ in E.prog.bodies.items() if re.search(r"archive::.*::find$", n) for b in b_]
    if len(body) != 1:
        res.inconclusive.append("Archive::find: %d candidate bodies" % len(body))
        return 0
    body = body[0].parse()
    res.functions.append("routinator::utils::archive::Archive::find (MIR, %d blocks): predecessor bookkeeping" % len(body.blocks))
    cnt = [0]

    def m_eq(E_, st, frame, callee, argvals, dest_ty):
        # each comparison of the wanted name with a stored name has its own outcome
        cnt[0] += 1
        st.events.append(mir.Event("NAME-EQ", argvals, None, ("", ""), "call", callee))
        return {(): z3.Bool("name_eq_%d" % cnt[0])}

    def m_fresh_int(E_, st, frame, callee, argvals, dest_ty):
        cnt[0] += 1
        return {(): z3.BitVec("len_%d" % cnt[0], 64)}
    fo = mir.struct_fields("FoundObject", "src/utils/archive.rs")
    pre_ = (("v", "Ok"), ("f", 0), ("v", "Some"), ("f", 0))
    n = 0
    bad = None
    K = 4 if tier == "quick" else 6
    for i, p in enumerate(E.explore(body, max_visits=K, nomut=[r"."], models={r"as PartialEq(<.*>)?>::eq$": m_eq})):
        if p.kind != "return":
            continue
        d = p.ret.get((("v", "Ok"), ("f", 0), "disc"))
        if d is None or not E.feasible(p.cond, d == 1):
            continue
        n += 1
        reads = [x for x, e in enumerate(p.events) if e.kind == "call" and re.search(r"ObjectHeader::read(_with_name)?$", e.name)]
        visited = []
        for x in reads:
            src = [e for e in p.events[:x] if e.kind == "call" and e.name.endswith("Into::into")]
            v = src[-1].args[0].get(()) if src else None
            # several reads of one entry (header, then name) are one visit
            if not (visited and isinstance(v, mir.Opq) and isinstance(visited[-1], mir.Opq) and visited[-1].id == v.id):
                visited.append(v)
        if not visited:
            res.inconclusive.append("Archive::find path %d: a hit without any header read" % i)
            continue
        pd = p.ret.get(pre_ + (("f", fo.index("prev")), "disc"))
        pv = p.ret.get(pre_ + (("f", fo.index("prev")), ("v", "Some"), ("f", 0)))
        k = len(visited) - 1
        same = lambda a, b: isinstance(a, mir.Opq) and isinstance(b, mir.Opq) and a.id == b.id
        if k == 0:
            ok = pd is not None and not E.feasible(p.cond, pd != 0)
            what = "found in the first chain entry, yet prev is not None"
        else:
            ok = pd is not None and not E.feasible(p.cond, pd != 1) and same(pv, visited[k - 1])
            what = ("found in chain entry %d: prev is %s, not the entry visited just before (%r)" % (
                k, "None" if pd is not None and not E.feasible(p.cond, pd != 0) else repr(pv), visited[k - 1]))
        if not ok and bad is None:
            bad = (i, p, what)
    res.distinct += n
    res.samples.append({"find_paths_with_a_hit": n, "chain_entries_walked_up_to": K - 1})
    if n < 3:
        res.inconclusive.append("vacuity: Archive::find has %d paths that find the object" % n)
    if bad:
        i, p, what = bad
        import nativetest
        failed, passed, out = nativetest.run_native_test("native_c26", "c26_native_bucket_chain_delete")
        m = re.search(r"C26-NATIVE-BUCKET (.*)", out)
        res.evaluations += 1
        fn = mprop.write_cex(res, "find_prev_%d" % i, p, E, "Archive::find: " + what + "\n\nnative replay: " + (m.group(1) if m else out[-1500:]))
        if failed:
            res.violation("mir:find-wrong-predecessor", "Archive::find reports a wrong predecessor (" + what + "): delete / size-changing update then unlink the wrong "
                          "entry and objects drop off their bucket chain; reproduced natively: " + (m.group(1)[:300] if m else "test failed"), fn)
        elif passed:
            res.inconclusive.append("Archive::find: %s - not reproduced natively" % what)
        else:
            res.inconclusive.append("Archive::find: %s - native replay could not be built" % what)
    return n


def run(res, tier):
    global CHAIN
    CHAIN = 3 if tier == "quick" else 5
    E = mprop.engine(res)
    res.extra.setdefault("source_files_sha256", {}).update(mprop.source_hashes(["src/utils/archive.rs"]))
    PAGE = z3.BitVecVal(256, 64)
    total = 0
    # ObjectHeader::SIZE from the source (sum of size_of of the listed types)
    src = open(mir.os.path.join(mir.REPO, "src/utils/archive.rs")).read()
    m = re.search(r"const SIZE:\s+u64 = usize_to_u64\((.*?)\);", src, re.S)
    sizes = {"u64": 8, "u8": 1, "usize": 8, "u32": 4, "u16": 2}
    HDR = sum(sizes[t] for t in re.findall(r"size_of::<(\w+)>", m.group(1))) if m else None
    if not HDR:
        res.inconclusive.append("could not determine ObjectHeader::SIZE")
        HDR = 33
    res.extra["object_header_size"] = HDR
    hdr = z3.BitVecVal(HDR, 64)

    # ---- fits ------------------------------------------------------------------------------------
    fb = bodies(E, "fits")
    if len(fb) != 1:
        res.inconclusive.append("Archive::fits: %d bodies" % len(fb))
    else:
        e = z3.BitVec("empty_size", 64)
        o = z3.BitVec("object_size", 64)
        paths = E.explore(fb[0], max_visits=2, arg_values={"_1": {(): e}, "_2": {(): o}}, follow_panics=True,
                          consts={r"ObjectHeader::SIZE": hdr})
        res.functions.append("utils::archive::Archive::<Meta>::fits (MIR, %d blocks)" % len(fb[0].blocks))
        pre = z3.And(z3.ULT(e, BOUND), z3.ULT(o, BOUND), z3.URem(e, PAGE) == 0, z3.URem(o, PAGE) == 0, o != 0)
        for i, p in enumerate(paths):
            total += 1
            if p.kind == "panic":
                if E.feasible(p.cond, pre):
                    fn = mprop.write_cex(res, "fits_panic_%d" % i, p, E, "fits panics (overflow) for realistic sizes", E.model(p.cond, pre))
                    res.violation("mir:archive:fits-overflow", "Archive::fits overflows for page-aligned sizes below 2^48", fn)
                continue
            if p.kind != "return":
                continue
            r = p.ret.get(())
            if not mir.is_z(r):
                res.inconclusive.append("fits path %d: result not symbolic" % i)
                continue
            rem = e - o
            good_true = z3.And(z3.UGE(e, o), z3.Or(rem == 0, z3.UGE(rem, hdr)), z3.URem(rem, PAGE) == 0)
            m1 = E.model(p.cond, z3.And(pre, r, z3.Not(good_true)))
            if m1 is not None:
                fn = mprop.write_cex(res, "fits_true_bad_%d" % i, p, E,
                                     "fits(%s, %s) is true but the remainder can hold neither nothing nor an empty object header"
                                     % (m1.eval(e, True), m1.eval(o, True)), m1)
                res.violation("mir:archive:fits-accepts-unusable-space", "fits accepts a space whose remainder cannot be tiled (empty_size %s, object_size %s)"
                              % (m1.eval(e, True), m1.eval(o, True)), fn)
            m2 = E.model(p.cond, z3.And(pre, z3.Not(r), z3.UGE(e, o)))
            if m2 is not None:
                fn = mprop.write_cex(res, "fits_false_bad_%d" % i, p, E,
                                     "fits(%s, %s) is false although the object fits (page-aligned sizes)" % (m2.eval(e, True), m2.eval(o, True)), m2)
                res.violation("mir:archive:fits-refuses-fitting-space", "fits refuses a page-aligned space that is large enough", fn)
        res.samples.append({"fits_paths": len(paths)})

    # ---- page_object_size / min_object_size ------------------------------------------------------------
    for meth in ("min_object_size",):
        mb = bodies(E, meth)
        if len(mb) != 1:
            res.inconclusive.append("Archive::%s: %d bodies" % (meth, len(mb)))
            continue
        nl = z3.BitVec("name_len", 64)
        dl = z3.BitVec("data_len", 64)
        meta = z3.BitVec("meta_size", 64)
        pre = z3.And(z3.ULT(nl, BOUND), z3.ULT(dl, BOUND), z3.ULT(meta, 1 << 16))
        paths = E.explore(mb[0], max_visits=2, arg_values={"_1": {(): nl}, "_2": {(): dl}}, follow_panics=True,
                          models={r"usize_to_u64$": ident},
                          consts={r"ObjectHeader::SIZE": hdr, r"as (\w+::)*ObjectMeta>::SIZE": meta})
        res.functions.append("utils::archive::Archive::<Meta>::min_object_size (MIR)")
        for i, p in enumerate(paths):
            total += 1
            if p.kind == "panic" and E.feasible(p.cond, pre):
                fn = mprop.write_cex(res, "min_size_panic_%d" % i, p, E, "min_object_size overflows for lengths below 2^48", E.model(p.cond, pre))
                res.violation("mir:archive:min-size-overflow", "Archive::min_object_size overflows for realistic lengths", fn)
            if p.kind == "return":
                r = p.ret.get(())
                if not mir.is_z(r):
                    res.inconclusive.append("min_object_size: result not symbolic (constants unresolved)")
                    continue
                mm = E.model(p.cond, z3.And(pre, r != hdr + nl + meta + dl))
                if mm is not None:
                    fn = mprop.write_cex(res, "min_size_wrong_%d" % i, p, E, "min_object_size is not header + name + meta + data", mm)
                    res.violation("mir:archive:min-size-wrong", "Archive::min_object_size is not the sum of header, name, meta and data lengths", fn)
    pb = bodies(E, "page_object_size")
    if len(pb) == 1:
        res.functions.append("utils::archive::Archive::<Meta>::page_object_size (MIR)")
        ms = z3.BitVec("min_size", 64)
        pre = z3.ULT(ms, BOUND)
        paths = E.explore(pb[0], max_visits=2, nomut=[r"."], follow_panics=True,
                          models={r"Archive::<.*>::min_object_size$|::min_object_size$": lambda *a: {(): ms}, r"usize_to_u64$": ident},
                          consts={r"PAGE_SIZE": z3.BitVecVal(256, 64)})
        for i, p in enumerate(paths):
            if p.kind != "return":
                continue
            total += 1
            r = p.ret.get(())
            if not mir.is_z(r):
                res.inconclusive.append("page_object_size: result not symbolic")
                continue
            good = z3.And(z3.UGE(r, ms), z3.URem(r, PAGE) == 0, z3.ULT(r - ms, PAGE))
            mm = E.model(p.cond, z3.And(pre, z3.Not(good)))
            if mm is not None:
                fn = mprop.write_cex(res, "page_size_wrong_%d" % i, p, E,
                                     "page_object_size(%s) = %s is not the next multiple of 256" % (mm.eval(ms, True), mm.eval(r, True)), mm)
                res.violation("mir:archive:page-size-wrong", "page_object_size is not the object size rounded up to a full page", fn)
    else:
        res.inconclusive.append("Archive::page_object_size: %d bodies" % len(pb))
    mprop.finish_engine(res, E)
    for op, mode in (("publish_replace", "empty"), ("create_empty", "empty"),
                     ("publish_append", "bucket"), ("publish_replace", "bucket"), ("delete_found", "bucket")):
        E = mprop.engine(res)
        total += check_empty_chain(res, E, op, mode)
        mprop.finish_engine(res, E)
    E = mprop.engine(res)
    total += check_find(res, E, tier)
    res.distinct += total
    if total < 4:
        res.inconclusive.append("vacuity: only %d arithmetic paths checked" % total)
    res.bounds.append("all 64-bit values below 2^48 for sizes and lengths, page-aligned where the callers guarantee it; Meta::SIZE < 2^16")
    res.bounds.append("empty chain: ONE call of publish_replace / create_empty (unlink_empty inlined) from an arbitrary archive "
                      "whose chain of empty objects has 0..%d cells at symbolic, pairwise disjoint positions below 2^40: afterwards "
                      "the chain reachable from the empty index holds exactly the old cells minus the reused / merged one plus "
                      "the new remainder / new empty object" % CHAIN)
    res.bounds.append("bucket chain: ONE call of publish_append / publish_replace / delete_found from an arbitrary archive whose "
                      "chain of objects with the operation's hash has 0..%d cells: afterwards the chain reachable from the bucket "
                      "index is the new object followed by the old cells, resp. the old cells without the deleted one" % CHAIN)
    res.bounds.append("Archive::find: bucket chains of up to %d entries walked; a hit in entry k reports entry k-1 as predecessor" % (3 if tier == "quick" else 5))
    res.outside += ["the map behaviour of the archive over operation sequences (publish / update / delete / fetch, reopen), "
                    "name comparison inside a bucket and the byte-level tiling of the file: object headers are modelled as an abstract heap "
                    "(position -> size, next, is_empty), I/O errors in the middle of an operation are not considered"]
    res.assumptions += ["callers pass page-aligned sizes to fits (empty objects and page_object_size results)"]
    res.rule = "one case = one path of fits / min_object_size / page_object_size with z3 queries on 64-bit bit-vectors"
    mprop.finish_engine(res, E)


CHAIN = 3


def check_empty_chain(res, E, op, mode="empty"):
    """One step of an empty-chain (mode "empty") or bucket-chain (mode "bucket") operation on an abstract heap of
    object headers."""
    F_ = "src/utils/archive.rs"
    body = [b.parse() for n_, bs in E.prog.bodies.items()
            if re.search(r"utils::archive::<impl at src/utils/archive\.rs:[^>]*>::%s$" % op, n_) for b in bs]
    if len(body) != 1:
        res.inconclusive.append("Archive::%s: %d bodies" % (op, len(body)))
        return 0
    body = body[0]
    hf = mir.struct_fields("ObjectHeader", F_)
    i_size, i_next, i_empty = hf.index("size"), hf.index("next"), hf.index("is_empty")
    res.functions.append("utils::archive::Archive::<Meta>::%s %s, object headers as an abstract heap (MIR)"
                         % (op, "with unlink_empty inlined: chain of empty objects" if mode == "empty" else "bucket chain of the object's hash"))
    op_ = op if mode == "empty" else op + "_bucket"
    BV = lambda nm: z3.BitVec("%s_%s" % (op_, nm), 64)
    c = [BV("cell%d" % i) for i in range(CHAIN)]
    L = z3.Int(op_ + "_chain_len")
    nd0 = z3.Array(op_ + "_next_is_some", z3.BitVecSort(64), z3.IntSort())
    nv0 = z3.Array(op_ + "_next", z3.BitVecSort(64), z3.BitVecSort(64))
    sz0 = z3.Array(op_ + "_size", z3.BitVecSort(64), z3.BitVecSort(64))
    ie0 = z3.Array(op_ + "_is_empty", z3.BitVecSort(64), z3.BoolSort())
    S = E.solver
    S.add(L >= 0, L <= CHAIN)
    LIM = 1 << 40
    for i in range(CHAIN):
        S.add(c[i] != 0, z3.ULT(c[i], LIM), z3.ULT(z3.Select(sz0, c[i]), LIM), z3.UGE(z3.Select(sz0, c[i]), 64))
        S.add(z3.Implies(L > i, z3.Select(ie0, c[i]) == (mode == "empty")))
        # chain links
        if i + 1 < CHAIN:
            S.add(z3.Implies(L > i + 1, z3.And(z3.Select(nd0, c[i]) == 1, z3.Select(nv0, c[i]) == c[i + 1])))
            S.add(z3.Implies(L == i + 1, z3.Select(nd0, c[i]) == 0))
        else:
            S.add(z3.Implies(L == i + 1, z3.Select(nd0, c[i]) == 0))
        for j in range(i):
            S.add(z3.Implies(L > i, z3.Or(z3.ULE(c[i] + z3.Select(sz0, c[i]), c[j]), z3.ULE(c[j] + z3.Select(sz0, c[j]), c[i]))))
    head_d0 = z3.If(L > 0, z3.IntVal(1), z3.IntVal(0))
    head_v0 = c[0]
    fsize = BV("file_size")
    S.add(z3.ULT(fsize, 2 * LIM))
    for i in range(CHAIN):
        S.add(z3.Implies(L > i, z3.ULE(c[i] + z3.Select(sz0, c[i]), fsize)))      # every cell lies inside the file

    def in_chain(x):
        return z3.Or([z3.And(L > i, x == c[i]) for i in range(CHAIN)])

    def opt(d, v):
        return {("disc",): d, (("v", "Some"), ("f", 0)): v}

    def ok(payload=None):
        out = {("disc",): z3.IntVal(0)}
        for k, v in (payload or {(): mir.Str("()")}).items():
            out[(("v", "Ok"), ("f", 0)) + k] = v
        return out

    def heap(st):
        return {k: st.mem[("HEAP", k)] for k in ("nd", "nv", "sz", "ie", "hd", "hv")}

    def m_get_empty(E_, st, frame, callee, argvals, dest_ty):
        h = heap(st)
        return ok(opt(h["hd"], h["hv"]))

    def m_get_other(E_, st, frame, callee, argvals, dest_ty):
        # the chain that is not under test: an arbitrary head
        return ok(opt(z3.Int(op_ + "_other_has_head"), BV("other_head")))

    def optval(v):
        d = v.get(("disc",))
        x = v.get((("v", "Some"), ("f", 0)))
        if x is None:
            x = v.get((("v", "Some"), ("f", 0), ("f", 0)))
        return d, x

    def m_set_empty(E_, st, frame, callee, argvals, dest_ty):
        d, x = optval(argvals[1])
        if d is None:
            return NotImplemented
        st.mem[("HEAP", "hd")] = d
        st.mem[("HEAP", "hv")] = x if x is not None else z3.BitVecVal(0, 64)
        return ok()

    def m_read(E_, st, frame, callee, argvals, dest_ty):
        pos = argvals[1].get(())
        if not mir.is_z(pos):
            return NotImplemented
        h = heap(st)
        hdr = {(("f", i_size),): z3.Select(h["sz"], pos), (("f", i_empty),): z3.Select(h["ie"], pos)}
        for k, v in opt(z3.Select(h["nd"], pos), z3.Select(h["nv"], pos)).items():
            hdr[(("f", i_next),) + k] = v
        return ok(hdr)

    def store_header(st, pos, hdrval):
        d, x = optval({k[1:]: v for k, v in hdrval.items() if k and k[0] == ("f", i_next)})
        size = hdrval.get((("f", i_size),))
        emp = hdrval.get((("f", i_empty),))
        if d is None or not mir.is_z(size) or not mir.is_z(emp):
            return False
        st.mem[("HEAP", "nd")] = z3.Store(st.mem[("HEAP", "nd")], pos, d)
        st.mem[("HEAP", "nv")] = z3.Store(st.mem[("HEAP", "nv")], pos, x if x is not None else z3.BitVecVal(0, 64))
        st.mem[("HEAP", "sz")] = z3.Store(st.mem[("HEAP", "sz")], pos, size)
        st.mem[("HEAP", "ie")] = z3.Store(st.mem[("HEAP", "ie")], pos, emp)
        return True

    def m_update_next(E_, st, frame, callee, argvals, dest_ty):
        pos = argvals[0].get(())
        d, x = optval(argvals[1])
        if not mir.is_z(pos) or d is None:
            return NotImplemented
        st.mem[("HEAP", "nd")] = z3.Store(st.mem[("HEAP", "nd")], pos, d)
        st.mem[("HEAP", "nv")] = z3.Store(st.mem[("HEAP", "nv")], pos, x if x is not None else z3.BitVecVal(0, 64))
        return ok()

    def m_hdr_write(E_, st, frame, callee, argvals, dest_ty):
        hv = E_._through_ref(st, argvals[0])
        pos = argvals[2].get(())
        if not mir.is_z(pos) or not store_header(st, pos, hv):
            return NotImplemented
        return ok()

    def m_write_object(E_, st, frame, callee, argvals, dest_ty):
        pos = argvals[1].get(())
        if not mir.is_z(pos) or not store_header(st, pos, argvals[2]):
            return NotImplemented
        return ok()

    objsize = BV("new_object_size")

    def m_page_size(E_, st, frame, callee, argvals, dest_ty):
        return {(): objsize}

    def m_ident(E_, st, frame, callee, argvals, dest_ty):
        v = argvals[0]
        x = v.get(())
        if x is None:
            x = v.get((("f", 0),))
        return {(): x} if mir.is_z(x) else NotImplemented

    def m_nz_new(E_, st, frame, callee, argvals, dest_ty):
        x = argvals[0].get(())
        if not mir.is_z(x):
            return NotImplemented
        return opt(z3.If(x != 0, z3.IntVal(1), z3.IntVal(0)), x)

    def m_nz_into_opt(E_, st, frame, callee, argvals, dest_ty):
        x = argvals[0].get(())
        if x is None:
            x = argvals[0].get((("f", 0),))
        return opt(z3.IntVal(1), x) if mir.is_z(x) else NotImplemented

    def m_unit_ok(E_, st, frame, callee, argvals, dest_ty):
        return ok()

    def m_set_len(E_, st, frame, callee, argvals, dest_ty):
        st.mem[("HEAP", "truncated")] = z3.BoolVal(True)
        return ok()

    def m_get_index(E_, st, frame, callee, argvals, dest_ty):
        return ok(opt(z3.Int(op + "_bucket_has_head"), BV("bucket_head")))

    if mode == "bucket":
        head_get, head_set = r"Archive::<Meta>::get_index$", r"Archive::<Meta>::set_index$"
        other_get, other_set = r"Archive::<Meta>::get_empty_index$", r"Archive::<Meta>::set_empty_index$"
    else:
        head_get, head_set = r"Archive::<Meta>::get_empty_index$", r"Archive::<Meta>::set_empty_index$"
        other_get, other_set = r"Archive::<Meta>::get_index$", r"Archive::<Meta>::set_index$"

    def m_set_head(E_, st, frame, callee, argvals, dest_ty):
        d, x = optval(argvals[-1])
        if d is None:
            return NotImplemented
        st.mem[("HEAP", "hd")] = d
        st.mem[("HEAP", "hv")] = x if x is not None else z3.BitVecVal(0, 64)
        return ok()

    models = {
        head_get: m_get_empty, head_set: m_set_head, other_get: m_get_other, other_set: m_unit_ok,
        r"^ObjectHeader::read$": m_read, r"^ObjectHeader::update_next$": m_update_next, r"^ObjectHeader::write$": m_hdr_write,
        r"Archive::<Meta>::write_object$": m_write_object, r"Archive::<Meta>::page_object_size$": m_page_size,
        r"^<NonZero<u64> as Into<u64>>::into$|^<u64 as From<NonZero<u64>>>::from$": m_ident,
        r"^NonZero::<u64>::new$": m_nz_new, r"^<NonZero<u64> as Into<(std::option::)?Option<NonZero<u64>>>>::into$": m_nz_into_opt,
        r"^Storage::set_len$": m_set_len,
    }
    if mode == "bucket":
        # the empty chain is decided by the other mode; here its helpers succeed without touching bucket cells
        models[r"Archive::<Meta>::(unlink_empty|create_empty)$"] = m_unit_ok
    selfp = mir.Opq("&mut Archive<Meta>", "archive")
    start = BV("start")
    args = {"_1": {(): selfp}}
    pre_extra = []
    removed_possible = True
    if mode == "bucket":
        ff = mir.struct_fields("FoundObject", F_)
        if op in ("publish_append", "publish_replace"):
            # the new object goes to `start` (publish_replace: an empty object; publish_append: the end of the file),
            # a position that is no cell of the bucket chain
            S.add(start != 0, z3.ULT(start, LIM), z3.Not(in_chain(start)))
            for i in range(CHAIN):
                S.add(z3.Implies(L > i, z3.Or(z3.ULE(c[i] + z3.Select(sz0, c[i]), start), z3.ULE(start + objsize, c[i]))))
            S.add(z3.UGE(objsize, 64), z3.ULT(objsize, LIM))
            if op == "publish_replace":
                empty_hdr = {(("f", i_size),): BV("empty_size"), (("f", i_empty),): z3.BoolVal(True),
                             (("f", i_next), "disc"): z3.Int(op_ + "_empty_has_next"), (("f", i_next), ("v", "Some"), ("f", 0)): BV("empty_next")}
                S.add(z3.UGE(BV("empty_size"), objsize), z3.ULT(BV("empty_size"), LIM))
                # the remainder of the empty object, if any, is no bucket cell either
                for i in range(CHAIN):
                    S.add(z3.Implies(L > i, z3.Or(z3.ULE(c[i] + z3.Select(sz0, c[i]), start), z3.ULE(start + BV("empty_size"), c[i]))))
                args.update({"_6": empty_hdr, "_7": {(): start}})
            else:
                S.add(start == fsize)
            expected_removed = z3.BitVecVal(0, 64)
            removed_possible = False
            new_cell = start
            has_new = z3.BoolVal(True)
        else:   # delete_found
            jpos = z3.Int(op_ + "_found_index")
            S.add(jpos >= 0, jpos < L)
            S.add(z3.Or([z3.And(jpos == i, start == c[i]) for i in range(CHAIN)]))
            found = {(("f", ff.index("start")),): start}
            found[(("f", ff.index("header")), ("f", i_size))] = z3.Select(sz0, start)
            found[(("f", ff.index("header")), ("f", i_empty))] = z3.BoolVal(False)
            for k, v in opt(z3.Select(nd0, start), z3.Select(nv0, start)).items():
                found[(("f", ff.index("header")), ("f", i_next)) + k] = v
            prev_d = z3.If(jpos > 0, z3.IntVal(1), z3.IntVal(0))
            prev_v = c[0]
            for i in range(1, CHAIN):
                prev_v = z3.If(jpos == i, c[i - 1], prev_v)
            for k, v in opt(prev_d, prev_v).items():
                found[(("f", ff.index("prev")),) + k] = v
            args.update({"_3": found})
            expected_removed = start
            new_cell = z3.BitVecVal(0, 64)
            has_new = z3.BoolVal(False)
    elif op == "publish_replace":
        # the empty object being reused: a cell of the chain, handed over with its header; the new object fits and
        # the remainder, if any, can hold a header (find_empty's contract)
        S.add(in_chain(start))
        empty_hdr = {(("f", i_size),): z3.Select(sz0, start), (("f", i_empty),): z3.BoolVal(True)}
        for k, v in opt(z3.Select(nd0, start), z3.Select(nv0, start)).items():
            empty_hdr[(("f", i_next),) + k] = v
        S.add(z3.UGE(objsize, 64), z3.ULE(objsize, z3.Select(sz0, start)),
              z3.Or(objsize == z3.Select(sz0, start), z3.UGE(z3.Select(sz0, start) - objsize, 64)))
        args.update({"_6": empty_hdr, "_7": {(): start}})
        expected_removed = start
        new_cell = start + objsize
        has_new = z3.ULT(objsize, z3.Select(sz0, start))
    else:
        size = BV("size")
        S.add(start != 0, z3.ULT(start, LIM), z3.UGE(size, 64), z3.ULT(size, LIM), z3.Not(in_chain(start)))
        nxt = start + size
        S.add(z3.ULE(nxt, fsize))
        # the object behind is empty exactly when it is a cell of the chain; the deleted object overlaps no cell
        S.add(z3.Select(ie0, nxt) == in_chain(nxt))
        for i in range(CHAIN):
            S.add(z3.Implies(L > i, z3.Or(z3.ULE(c[i] + z3.Select(sz0, c[i]), start), z3.ULE(nxt, c[i]))))
        args.update({"_2": {(): start}, "_3": {(): size}})
        expected_removed = nxt
        new_cell = start
        has_new = z3.BoolVal(True)

    def pre(E_, st, frame):
        st.mem[("HEAP", "nd")], st.mem[("HEAP", "nv")], st.mem[("HEAP", "sz")], st.mem[("HEAP", "ie")] = nd0, nv0, sz0, ie0
        st.mem[("HEAP", "hd")], st.mem[("HEAP", "hv")] = head_d0, head_v0
        # Archive.file.size
        af = mir.struct_fields("Archive", F_)
        sf = mir.struct_fields("Storage", F_)
        st.mem[(("o", selfp.id), "deref", ("f", af.index("file")), ("f", sf.index("size")))] = fsize

    E.max_depth = 8
    paths = E.explore(body, max_visits=CHAIN + 3, nomut=[r"."], arg_values=args, pre=pre, models=models,
                      inline=([r"Archive::<Meta>::unlink_empty$"] if mode == "empty" else []) + [r"^ObjectHeader::new(_empty)?$"], max_paths=20000)
    E.max_depth = 6
    n = 0
    reported = False
    for i, p in enumerate(paths):
        if p.kind == "bound":
            if E.feasible(p.cond):
                res.inconclusive.append("%s: a feasible path exceeds the loop bound of the chain walk" % op)
            continue
        if p.kind != "return":
            continue
        d = p.ret.get(("disc",))
        if d is None or not E.feasible(p.cond, d == 0):
            continue
        n += 1
        if op == "create_empty" and any(e.kind == "call" and e.name.endswith("set_len") for e in p.events):
            pass
        nd1, nv1 = p.mem[("HEAP", "nd")], p.mem[("HEAP", "nv")]
        hd1, hv1 = p.mem[("HEAP", "hd")], p.mem[("HEAP", "hv")]
        # walk the new chain (at most CHAIN + 2 cells)
        walk = []
        alive, cur = hd1 == 1, hv1
        for _ in range(CHAIN + 2):
            walk.append((alive, cur))
            alive, cur = z3.And(alive, z3.Select(nd1, cur) == 1), z3.Select(nv1, cur)
        ends = z3.Not(alive)

        def reached(x):
            return z3.Or([z3.And(a, w == x) for a, w in walk])
        truncated = ("HEAP", "truncated") in p.mem
        removed_applies = in_chain(expected_removed) if removed_possible else z3.BoolVal(False)
        want = [z3.Implies(z3.And(L > k, z3.Not(z3.And(removed_applies, c[k] == expected_removed))), reached(c[k])) for k in range(CHAIN)]
        if not truncated:
            want.append(z3.Implies(has_new, reached(new_cell)))
        want.append(ends)
        for a, w in walk:
            legit = z3.Or(in_chain(w), z3.And(has_new, w == new_cell) if not truncated else z3.BoolVal(False))
            want.append(z3.Implies(a, z3.And(legit, z3.Not(z3.And(removed_applies, w == expected_removed)) if op == "publish_replace" or True else True)))
        mdl = E.model(p.cond, z3.And(d == 0, z3.Not(z3.And(want))))
        if mdl is not None and not reported:
            reported = True
            ev = lambda x: mdl.eval(x, model_completion=True)
            ln = ev(L).as_long()
            cells = [ev(c[k]).as_long() for k in range(ln)]
            newchain = []
            for a, w in walk:
                if z3.is_true(ev(a)):
                    newchain.append(ev(w).as_long())
            what_chain = "empty chain" if mode == "empty" else "bucket chain (objects with the same hash)"
            desc = ("%s from an archive whose %s is %s (index -> cells in order)%s: afterwards the chain reachable from "
                    "the index is %s; expected the old cells without %d%s" % (
                        op, what_chain, cells,
                        ", writing the new object at %d" % ev(start).as_long() if mode == "bucket" and op != "delete_found" else
                        ", deleting the object at %d" % ev(start).as_long() if op in ("delete_found", "create_empty") else
                        ", reusing the empty object at %d for an object of %d bytes" % (ev(start).as_long(), ev(objsize).as_long()),
                        newchain, ev(expected_removed).as_long(),
                        " plus the new %s at %d" % ("empty object" if mode == "empty" else "object", ev(new_cell).as_long())
                        if z3.is_true(ev(has_new)) and not truncated else ""))
            fn = mprop.write_cex(res, "empty_chain_%s_%d" % (op, i), p, E, desc, mdl)
            ok_ = native_sweep(res)
            if ok_ is False:
                res.inconclusive.append("empty chain (%s): counterexample state not reproduced by the native scenario sweep: %s" % (op, desc))
            else:
                res.violation("mir:archive:%s-chain:%s" % (mode, op),
                              "a cell drops out of (or a wrong cell enters) the archive's %s chain: " % mode + desc +
                              ("; the native scenario sweep finds corrupt archives" if ok_ else " [native replay unavailable]"), fn)
    res.samples.append({"operation": op, "chain": mode, "ok_paths_checked": n, "chain_cells": CHAIN})
    if n < 1:
        res.inconclusive.append("vacuity: %s (%s chain): no successful path" % (op, mode))
    return n


_NATIVE = {}


def native_sweep(res):
    if "r" not in _NATIVE:
        import nativetest
        failed, passed, out = nativetest.run_native_test("native_c26", "c26_native_empty_chain_sweep")
        obs = re.findall(r"C26-NATIVE (.*)", out)
        res.extra.setdefault("native_replays", []).append({"test": "c26_native_empty_chain_sweep", "failed": failed, "observed": obs[:2] or [out[-400:]]})
        _NATIVE["r"] = True if failed else (False if passed else None)
    return _NATIVE["r"]
