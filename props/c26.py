"""C26 The object archive behaves like a map and stays consistent - arithmetic kernel only (M engine, 64-bit bit-vectors)."""
import re

import z3

import mir
import mprop

BOUND = 1 << 48


def bodies(E, meth):
    return [b.parse() for n, bs in E.prog.bodies.items()
            if re.search(r"utils::archive::<impl at src/utils/archive\.rs:[^>]*>::%s$" % meth, n) for b in bs]


def ident(E_, st, frame, callee, argvals, dest_ty):
    return dict(argvals[0])


def run(res, tier):
    E = mprop.engine(res)
    res.extra.setdefault("source_files_sha256", {}).update(mprop.source_hashes(["src/utils/archive.rs"]))
    PAGE = z3.BitVecVal(256, 64)
    total = 0
    # ObjectHeader::SIZE from the source (sum of size_of of the listed types)
    src = open(mir.os.path.join(mir.REPO, "src/utils/archive.rs")).read()
    m = re.search(r"const SIZE:\s+u64 = usize_to_u64\((.*?)\);", src, re.S)
    sizes = {"u64": 8, "u8": 1, "usize": 8, "u32": 4, "u16": 2}
    HDR = sum(sizes[t] for t in re.findall(r"size_of::<(\w+)>", m.group(1))) if m else None
    if not HDR:
        res.inconclusive.append("could not determine ObjectHeader::SIZE")
        HDR = 33
    res.extra["object_header_size"] = HDR
    hdr = z3.BitVecVal(HDR, 64)

    # ---- fits ------------------------------------------------------------------------------------
    fb = bodies(E, "fits")
    if len(fb) != 1:
        res.inconclusive.append("Archive::fits: %d bodies" % len(fb))
    else:
        e = z3.BitVec("empty_size", 64)
        o = z3.BitVec("object_size", 64)
        paths = E.explore(fb[0], max_visits=2, arg_values={"_1": {(): e}, "_2": {(): o}}, follow_panics=True,
                          consts={r"ObjectHeader::SIZE": hdr})
        res.functions.append("utils::archive::Archive::<Meta>::fits (MIR, %d blocks)" % len(fb[0].blocks))
        pre = z3.And(z3.ULT(e, BOUND), z3.ULT(o, BOUND), z3.URem(e, PAGE) == 0, z3.URem(o, PAGE) == 0, o != 0)
        for i, p in enumerate(paths):
            total += 1
            if p.kind == "panic":
                if E.feasible(p.cond, pre):
                    fn = mprop.write_cex(res, "fits_panic_%d" % i, p, E, "fits panics (overflow) for realistic sizes", E.model(p.cond, pre))
                    res.violation("mir:archive:fits-overflow", "Archive::fits overflows for page-aligned sizes below 2^48", fn)
                continue
            if p.kind != "return":
                continue
            r = p.ret.get(())
            if not mir.is_z(r):
                res.inconclusive.append("fits path %d: result not symbolic" % i)
                continue
            rem = e - o
            good_true = z3.And(z3.UGE(e, o), z3.Or(rem == 0, z3.UGE(rem, hdr)), z3.URem(rem, PAGE) == 0)
            m1 = E.model(p.cond, z3.And(pre, r, z3.Not(good_true)))
            if m1 is not None:
                fn = mprop.write_cex(res, "fits_true_bad_%d" % i, p, E,
                                     "fits(%s, %s) is true but the remainder can hold neither nothing nor an empty object header"
                                     % (m1.eval(e, True), m1.eval(o, True)), m1)
                res.violation("mir:archive:fits-accepts-unusable-space", "fits accepts a space whose remainder cannot be tiled (empty_size %s, object_size %s)"
                              % (m1.eval(e, True), m1.eval(o, True)), fn)
            m2 = E.model(p.cond, z3.And(pre, z3.Not(r), z3.UGE(e, o)))
            if m2 is not None:
                fn = mprop.write_cex(res, "fits_false_bad_%d" % i, p, E,
                                     "fits(%s, %s) is false although the object fits (page-aligned sizes)" % (m2.eval(e, True), m2.eval(o, True)), m2)
                res.violation("mir:archive:fits-refuses-fitting-space", "fits refuses a page-aligned space that is large enough", fn)
        res.samples.append({"fits_paths": len(paths)})

    # ---- page_object_size / min_object_size ------------------------------------------------------------
    for meth in ("min_object_size",):
        mb = bodies(E, meth)
        if len(mb) != 1:
            res.inconclusive.append("Archive::%s: %d bodies" % (meth, len(mb)))
            continue
        nl = z3.BitVec("name_len", 64)
        dl = z3.BitVec("data_len", 64)
        meta = z3.BitVec("meta_size", 64)
        pre = z3.And(z3.ULT(nl, BOUND), z3.ULT(dl, BOUND), z3.ULT(meta, 1 << 16))
        paths = E.explore(mb[0], max_visits=2, arg_values={"_1": {(): nl}, "_2": {(): dl}}, follow_panics=True,
                          models={r"usize_to_u64$": ident},
                          consts={r"ObjectHeader::SIZE": hdr, r"as (\w+::)*ObjectMeta>::SIZE": meta})
        res.functions.append("utils::archive::Archive::<Meta>::min_object_size (MIR)")
        for i, p in enumerate(paths):
            total += 1
            if p.kind == "panic" and E.feasible(p.cond, pre):
                fn = mprop.write_cex(res, "min_size_panic_%d" % i, p, E, "min_object_size overflows for lengths below 2^48", E.model(p.cond, pre))
                res.violation("mir:archive:min-size-overflow", "Archive::min_object_size overflows for realistic lengths", fn)
            if p.kind == "return":
                r = p.ret.get(())
                if not mir.is_z(r):
                    res.inconclusive.append("min_object_size: result not symbolic (constants unresolved)")
                    continue
                mm = E.model(p.cond, z3.And(pre, r != hdr + nl + meta + dl))
                if mm is not None:
                    fn = mprop.write_cex(res, "min_size_wrong_%d" % i, p, E, "min_object_size is not header + name + meta + data", mm)
                    res.violation("mir:archive:min-size-wrong", "Archive::min_object_size is not the sum of header, name, meta and data lengths", fn)
    pb = bodies(E, "page_object_size")
    if len(pb) == 1:
        res.functions.append("utils::archive::Archive::<Meta>::page_object_size (MIR)")
        ms = z3.BitVec("min_size", 64)
        pre = z3.ULT(ms, BOUND)
        paths = E.explore(pb[0], max_visits=2, nomut=[r"."], follow_panics=True,
                          models={r"Archive::<.*>::min_object_size$|::min_object_size$": lambda *a: {(): ms}, r"usize_to_u64$": ident},
                          consts={r"PAGE_SIZE": z3.BitVecVal(256, 64)})
        for i, p in enumerate(paths):
            if p.kind != "return":
                continue
            total += 1
            r = p.ret.get(())
            if not mir.is_z(r):
                res.inconclusive.append("page_object_size: result not symbolic")
                continue
            good = z3.And(z3.UGE(r, ms), z3.URem(r, PAGE) == 0, z3.ULT(r - ms, PAGE))
            mm = E.model(p.cond, z3.And(pre, z3.Not(good)))
            if mm is not None:
                fn = mprop.write_cex(res, "page_size_wrong_%d" % i, p, E,
                                     "page_object_size(%s) = %s is not the next multiple of 256" % (mm.eval(ms, True), mm.eval(r, True)), mm)
                res.violation("mir:archive:page-size-wrong", "page_object_size is not the object size rounded up to a full page", fn)
    else:
        res.inconclusive.append("Archive::page_object_size: %d bodies" % len(pb))
    res.distinct += total
    if total < 4:
        res.inconclusive.append("vacuity: only %d arithmetic paths checked" % total)
    res.bounds.append("all 64-bit values below 2^48 for sizes and lengths, page-aligned where the callers guarantee it; Meta::SIZE < 2^16")
    res.outside += ["the map behaviour of the archive over operation sequences (publish / update / delete / fetch, reopen) and "
                    "the on-disk tiling invariant: the archive is a file/mmap-backed structure with a 1024-bucket index; no "
                    "file or mmap model is available to the solver-based engines, so only the size arithmetic that the tiling "
                    "relies on is decided here"]
    res.assumptions += ["callers pass page-aligned sizes to fits (empty objects and page_object_size results)"]
    res.rule = "one case = one path of fits / min_object_size / page_object_size with z3 queries on 64-bit bit-vectors"
    mprop.finish_engine(res, E)
