"""C14 Serials advance once per change; retained history bounded (Kani + M)."""
import re

import z3

import mir
import mprop
from gating import must
from kprop import run_kani_part

SPEC = {
    "groups": ["history"],
    "files": ["src/payload/history.rs", "src/config.rs"],
    "stubbing": False,
    "harnesses": {
        "quick": ["c14_push_bounded_keep0", "c14_push_bounded_keep1", "c14_push_bounded_keep2"],
        "thorough": ["c14_push_bounded_keep3"],
    },
    "harness_file": {"*": ("history.rs", "src/payload/history.rs")},
    "timeout": {"quick": 600, "thorough": 3000},
}


def run(res, tier):
    res.functions += [
        "routinator::payload::history::PayloadHistory::{push_delta, serial}",
    ]
    res.bounds += [
        "history size keep in {0,1,2} (quick) and 3 (thorough); 4 consecutive pushes with symbolic 32-bit serials; "
        "keep values above 3 exercise the same single comparison in push_delta (argued, not checked)",
    ]
    res.assumptions += [
        "the configuration accepts history-size 0 (config.rs applies no lower bound: take_small_usize / clap usize)",
        "serial = target serial of the newest retained delta (PayloadHistory::serial), 0 before the first delta",
        "that a delta's serial is the previous serial + 1 and that a delta exists iff the data changed is "
        "PayloadDelta::construct's contract, checked under C11",
    ]
    res.rule = ("one case = one Kani harness per history size (4 pushes, symbolic serials) or one feasible MIR path "
                "of SharedHistory::update; non-trivial = SUCCESSFUL with cover witness / path reaches return")
    run_kani_part(res, SPEC, tier)
    # M part: update() plumbing
    E = mprop.engine(res)
    check_update_plumbing(res, E)
    import argslice
    # the property bounds retention by the configured size "(at least one)": what is in force after --history n
    # must not exceed max(n, 1); a clamp to at least one is not an alarm
    argslice.check_cli_number(res, E, mprop, "history", "--history", False, "more change sets are then retained than the operator allowed",
                              func="apply_server_arg_matches", struct="ServerArgs", cfg_name="history_size",
                              accept=lambda after, given: z3.ULE(after, z3.If(given == 0, z3.BitVecVal(1, 64), given)))
    mprop.finish_engine(res, E)


def check_update_plumbing(res, E, check_install=False):
    """SharedHistory::update: delta computed whenever a current snapshot exists, pushed iff constructed, and the
    returned flag is true whenever a delta was pushed (C17 relies on the flag for its notification)."""
    body = E.prog.find("src/payload/history.rs", "SharedHistory", "update")
    res.functions.append("routinator::payload::history::SharedHistory::update (MIR, %d blocks)" % len(body.blocks))
    paths = E.explore(body, max_visits=2, log_enabled=True)
    n = 0
    for i, p in enumerate(paths):
        if p.kind != "return":
            continue
        n += 1
        names = p.names()
        push = [k for k, e in enumerate(p.events) if e.kind == "call" and re.search(r"PayloadHistory::push_delta$", e.name)]
        andthen = [e for e in p.events if e.kind == "call" and re.search(r"Option::and_then$", e.name)]
        ret = p.ret.get(())
        if len(push) > 1:
            fn = mprop.write_cex(res, "update_two_pushes_%d" % i, p, E, "two deltas pushed by one update")
            res.violation("mir:update-pushes-twice", "SharedHistory::update pushes more than one delta", fn)
        # the engine inlines current.as_ref().and_then(|c| PayloadDelta::construct(c, ..)): the path shows whether a
        # current snapshot existed, whether construct ran and what it returned
        from gating import disc_of
        cur = [e for e in p.events if e.kind == "call" and re.search(r"PayloadHistory::current$", e.name)]
        con = [e for e in p.events if e.kind == "call" and re.search(r"PayloadDelta::construct$", e.name)]
        if not cur:
            res.inconclusive.append("SharedHistory::update: a path does not read the current snapshot")
            continue
        d_cur = disc_of(E, p, cur[-1])
        has_cur = d_cur is not None and must(E, p, d_cur == 1)
        no_cur = d_cur is not None and must(E, p, d_cur == 0)
        if not (has_cur or no_cur):
            # the presence of a current snapshot does not decide the path: the decision is conditioned on something else
            pass
        if not con and not no_cur:
            if not any(v["key"] == "mir:change-decision-conditioned" for v in res.violations):
                fn = mprop.write_cex(res, "delta_decision_conditioned_%d" % i, p, E,
                                     "a current snapshot may exist on this path, yet PayloadDelta::construct is not evaluated: a "
                                     "changed data set gets no delta and no new serial")
                res.violation("mir:change-decision-conditioned",
                              "SharedHistory::update does not compute the delta for every update that has a current snapshot: "
                              "data can change without the serial advancing", fn)
            continue
        d_con = disc_of(E, p, con[-1]) if con else None
        changed = con and d_con is not None and must(E, p, d_con == 1)
        unchanged = (not con) or (d_con is not None and must(E, p, d_con == 0))
        if changed and not push:
            fn = mprop.write_cex(res, "delta_not_pushed_%d" % i, p, E, "a constructed delta is not pushed")
            res.violation("mir:change-not-pushed", "data set changed but the serial does not advance", fn)
        if unchanged and push:
            fn = mprop.write_cex(res, "push_without_delta_%d" % i, p, E, "push_delta although no delta was constructed")
            res.violation("mir:push-without-change", "serial advances although the data set did not change", fn)
        if con and not (changed or unchanged):
            res.inconclusive.append("SharedHistory::update: construct's outcome does not decide the path")
        if ret is not None and mir.is_z(ret) and push and E.feasible(p.cond, z3.Not(ret)):
            fn = mprop.write_cex(res, "changed_but_false_%d" % i, p, E, "update returns false although a delta was pushed")
            res.violation("mir:update-flag-wrong", "update() reports no change although it pushed a delta", fn)
        # the new snapshot is installed on every path: even when nothing changed its refresh time and object
        # information are the new run's (C34 schedules the next run from it, C39 bounds it)
        i_cur = mir.struct_fields("PayloadHistory", "src/payload/history.rs").index("current")
        if check_install and not any(len(loc) >= 3 and loc[-1] == ("f", i_cur) or (len(loc) >= 4 and loc[2] == ("f", i_cur)) for loc, _ in p.writes):
            if not any(v["key"] == "mir:update-keeps-old-snapshot" for v in res.violations):
                fn = mprop.write_cex(res, "snapshot_not_installed_%d" % i, p, E, "SharedHistory::update returns without installing the new snapshot")
                res.violation("mir:update-keeps-old-snapshot", "SharedHistory::update can return without installing the run's snapshot: the expiry (refresh) of the "
                              "served data stays that of an earlier run, so the next run is scheduled from stale times", fn)
        if len(res.samples) < 12:
            res.samples.append({"update_path": [e.name.split("::")[-1] for e in p.events if e.kind == "call"
                                                and re.search(r"and_then$|push_delta$|into_snapshot$|current$|serial$", e.name)],
                                "pushes": len(push)})
    if n < 2:
        res.inconclusive.append("vacuity: SharedHistory::update has %d returning paths" % n)
    res.distinct += n
    res.extra["update_paths"] = len(paths)
