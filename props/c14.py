"""C14 Serials advance once per change; retained history bounded (Kani + M)."""
import re

import z3

import mir
import mprop
from kprop import run_kani_part

SPEC = {
    "groups": ["history"],
    "files": ["src/payload/history.rs", "src/config.rs"],
    "stubbing": False,
    "harnesses": {
        "quick": ["c14_push_bounded_keep0", "c14_push_bounded_keep1", "c14_push_bounded_keep2"],
        "thorough": ["c14_push_bounded_keep3"],
    },
    "harness_file": {"*": ("history.rs", "src/payload/history.rs")},
    "timeout": {"quick": 600, "thorough": 3000},
}


def run(res, tier):
    res.functions += [
        "routinator::payload::history::PayloadHistory::{push_delta, serial}",
    ]
    res.bounds += [
        "history size keep in {0,1,2} (quick) and 3 (thorough); 4 consecutive pushes with symbolic 32-bit serials; "
        "keep values above 3 exercise the same single comparison in push_delta (argued, not checked)",
    ]
    res.assumptions += [
        "the configuration accepts history-size 0 (config.rs applies no lower bound: take_small_usize / clap usize)",
        "serial = target serial of the newest retained delta (PayloadHistory::serial), 0 before the first delta",
        "that a delta's serial is the previous serial + 1 and that a delta exists iff the data changed is "
        "PayloadDelta::construct's contract, checked under C11",
    ]
    res.rule = ("one case = one Kani harness per history size (4 pushes, symbolic serials) or one feasible MIR path "
                "of SharedHistory::update; non-trivial = SUCCESSFUL with cover witness / path reaches return")
    run_kani_part(res, SPEC, tier)
    # M part: update() plumbing
    E = mprop.engine(res)
    body = E.prog.find("src/payload/history.rs", "SharedHistory", "update")
    res.functions.append("routinator::payload::history::SharedHistory::update (MIR, %d blocks)" % len(body.blocks))
    paths = E.explore(body, max_visits=2, log_enabled=True)
    n = 0
    for i, p in enumerate(paths):
        if p.kind != "return":
            continue
        n += 1
        names = p.names()
        push = [k for k, e in enumerate(p.events) if e.kind == "call" and re.search(r"PayloadHistory::push_delta$", e.name)]
        andthen = [e for e in p.events if e.kind == "call" and re.search(r"Option::and_then$", e.name)]
        ret = p.ret.get(())
        if len(push) > 1:
            fn = mprop.write_cex(res, "update_two_pushes_%d" % i, p, E, "two deltas pushed by one update")
            res.violation("mir:update-pushes-twice", "SharedHistory::update pushes more than one delta", fn)
        # delta option = result of and_then(closure calling PayloadDelta::construct)
        if andthen:
            leaf = andthen[0].dest.get(())
            d = mir.peek(E, p.mem, (("o", leaf.id), "disc")) if isinstance(leaf, mir.Opq) else andthen[0].dest.get(("disc",))
            if d is not None:
                if push and E.feasible(p.cond, d == 0):
                    fn = mprop.write_cex(res, "push_without_delta_%d" % i, p, E, "push_delta although no delta was constructed")
                    res.violation("mir:push-without-change", "serial advances although the data set did not change", fn)
                if not push and E.feasible(p.cond, d == 1):
                    fn = mprop.write_cex(res, "delta_not_pushed_%d" % i, p, E, "a constructed delta is not pushed")
                    res.violation("mir:change-not-pushed", "data set changed but the serial does not advance", fn)
                if ret is not None and mir.is_z(ret):
                    if push and E.feasible(p.cond, z3.Not(ret)):
                        fn = mprop.write_cex(res, "changed_but_false_%d" % i, p, E, "update returns false although a delta was pushed")
                        res.violation("mir:update-flag-wrong", "update() reports no change although it pushed a delta", fn)
        if len(res.samples) < 12:
            res.samples.append({"update_path": [e.name.split("::")[-1] for e in p.events if e.kind == "call"
                                                and re.search(r"and_then$|push_delta$|into_snapshot$|current$|serial$", e.name)],
                                "pushes": len(push)})
    if n < 2:
        res.inconclusive.append("vacuity: SharedHistory::update has %d returning paths" % n)
    res.distinct += n
    res.extra["update_paths"] = len(paths)
    mprop.finish_engine(res, E)
