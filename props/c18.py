"""C18 JSON delta and snapshot streams are well-formed and exact - chunking state machine (M engine, one inductive step)."""
import re

import z3

import mir
import mprop
from gating import must, disc_of

F = "src/http/delta.rs"


def forced(E, p, e):
    if not E.feasible(p.cond, z3.Not(e)):
        return True
    if not E.feasible(p.cond, e):
        return False
    return None


def check_delta_stream(res, E, visits):
    fields = mir.struct_fields("DeltaStream", F)
    i_ann, i_wd, i_first = fields.index("announce"), fields.index("withdraw"), fields.index("first")
    selfp = mir.Opq("&mut DeltaStream", "self")
    a_d, w_d = z3.Int("announce_disc"), z3.Int("withdraw_disc")
    f0 = z3.Bool("first0")
    E.solver.add(z3.And(a_d >= 0, a_d <= 1, w_d >= 0, w_d <= 1))
    # representation invariant assumed for the pre-state (and re-established at return, checked below):
    # announcements are only pending while withdrawals are
    E.solver.add(z3.Implies(a_d == 1, w_d == 1))
    base = (("o", selfp.id), "deref")
    Action = E.prog.enums.get("Action", ["Announce", "Withdraw"])

    def pre(E_, st, frame):
        st.mem[base + (("f", i_ann), "disc")] = a_d
        st.mem[base + (("f", i_wd), "disc")] = w_d
        st.mem[base + (("f", i_first),)] = f0

    body = E.prog.find(F, "DeltaStream", "next", trait="Iterator")
    res.functions.append("<http::delta::DeltaStream as Iterator>::next with next_announce / next_withdraw inlined (MIR)")
    paths = E.explore(body, max_visits=visits, nomut=[r"."], arg_values={"_1": {(): selfp}}, pre=pre,
                      inline=[r"DeltaStream::next_(announce|withdraw)$"], max_paths=100000)
    n = 0
    bad = {}

    def viol(key, what, p, i):
        if key in bad:
            return
        bad[key] = True
        fn = mprop.write_cex(res, "delta_%s_%d" % (re.sub(r"\W+", "_", key), i), p, E, what)
        res.violation("mir:stream:" + key, what, fn)

    for i, p in enumerate(paths):
        if p.kind not in ("return", "bound"):
            continue
        n += 1
        done0 = forced(E, p, w_d == 0)
        inA = forced(E, p, a_d == 1)
        evs = []
        for e in p.events:
            if e.kind != "call":
                continue
            if e.name.endswith("DeltaStream::append_payload"):
                evs.append(("P", e))
            elif e.name.endswith("DeltaStream::append_separator"):
                evs.append(("S", e))
            elif e.name.endswith("DeltaStream::append_footer"):
                evs.append(("F", e))
            elif re.search(r"(Iterator|PayloadDiff|PayloadSet)::next$", e.name):
                evs.append(("N", e))
        kinds = "".join(k for k, _ in evs if k != "N")
        if done0 is True:
            if kinds:
                viol("output-after-footer", "DeltaStream::next emits %s although the stream is finished (withdraw is None)" % kinds, p, i)
            d = p.ret.get(("disc",))
            if p.kind == "return" and (d is None or not must(E, p, d == 0)):
                viol("chunk-after-end", "DeltaStream::next returns another chunk after the footer was produced", p, i)
            continue
        # grammar of one call
        if inA is True:
            ok = re.fullmatch(r"P*(SP*F?)?", kinds) is not None
        elif inA is False:
            ok = re.fullmatch(r"P*F?", kinds) is not None
        else:
            ok = re.fullmatch(r"P*(SP*F?)?", kinds) is not None
        if not ok:
            viol("grammar", "DeltaStream::next emits pieces in the order %s (P item, S separator, F footer) which is not "
                 "announced-items separator withdrawn-items footer" % kinds, p, i)
            continue
        # first-flag bookkeeping and item exactness
        emitted = z3.Not(f0)
        phase = "A" if inA else "W"
        pending = None       # an iterator item that must be emitted next
        for k, e in evs:
            if k == "N":
                if pending is not None:
                    viol("item-dropped", "an item whose action matches the current list is skipped (not written before the next item is fetched)", p, i)
                    pending = None
                src = e.args[0].get(()) if e.args else None
                which = None
                if isinstance(src, mir.Ref):
                    for part in src.loc:
                        if isinstance(part, tuple) and part[0] == "f" and part[1] in (i_ann, i_wd):
                            which = "A" if part[1] == i_ann else "W"
                            break
                d = disc_of(E, p, e)
                if which is not None and which != phase:
                    viol("wrong-iterator", "items for the %s list are taken from the other iterator" % ("announced" if phase == "A" else "withdrawn"), p, i)
                if d is not None and must(E, p, d == 1):
                    leaf = e.dest.get(())
                    act = mir.peek(E, p.mem, (("o", leaf.id), ("v", "Some"), ("f", 0), ("f", 1), "disc")) if isinstance(leaf, mir.Opq) else None
                    want = Action.index("Announce") if phase == "A" else Action.index("Withdraw")
                    if act is not None and must(E, p, act == want):
                        pending = e
                continue
            if k == "P":
                farg = e.args[2].get(()) if len(e.args) > 2 else None
                if not mir.is_z(farg) or not must(E, p, farg == z3.Not(emitted)):
                    viol("comma", "an item is written with first=%s although %s items precede it in its list (missing or "
                         "stray comma)" % ("?" if not mir.is_z(farg) else z3.simplify(farg), "some" if True else ""), p, i)
                emitted = z3.BoolVal(True)
                if pending is None:
                    viol("item-invented", "an item is written that does not come from an iterator item of the matching action", p, i)
                pending = None
            elif k == "S":
                if pending is not None:
                    viol("item-dropped", "an announced item is fetched but the separator is written instead", p, i)
                emitted = z3.BoolVal(False)
                phase = "W"
            elif k == "F":
                phase = "D"
        if p.kind != "return":
            continue
        if pending is not None:
            viol("item-dropped", "next() returns with a fetched matching item not written", p, i)
        # post-state re-establishes the invariant and the ghost relation
        nf = mir.peek(E, p.mem, base + (("f", i_first),))
        na = mir.peek(E, p.mem, base + (("f", i_ann), "disc"))
        nw = mir.peek(E, p.mem, base + (("f", i_wd), "disc"))
        if mir.is_z(nf) and phase != "D" and not must(E, p, nf == z3.Not(emitted)):
            viol("first-flag-state", "after next() the stream's `first` flag does not say whether the current list already has items", p, i)
        if "S" in kinds and (na is None or not must(E, p, na == 0)):
            viol("announce-not-closed", "the separator was written but the announce iterator is still pending", p, i)
        if "F" in kinds and (nw is None or not must(E, p, nw == 0)):
            viol("not-finished-after-footer", "the footer was written but the stream is not marked finished", p, i)
        if "F" not in kinds and nw is not None and not must(E, p, nw == 1):
            viol("finished-without-footer", "the stream is marked finished without a footer", p, i)
        d = p.ret.get(("disc",))
        if d is None or not must(E, p, d == 1):
            viol("no-chunk", "next() returns None although the stream was not finished", p, i)
        if len(res.samples) < 8 and kinds:
            res.samples.append({"stream": "delta", "start_phase": "A" if inA else "W", "pieces": kinds, "kind": p.kind})
    res.extra["delta_stream_paths"] = len(paths)
    res.extra["delta_stream_truncated"] = E.bound_hits
    return n


def check_snapshot_stream(res, E, visits):
    fields = mir.struct_fields("SnapshotStream", F)
    i_hdr, i_iter = fields.index("header"), fields.index("iter")
    selfp = mir.Opq("&mut SnapshotStream", "self")
    h_d, it_d = z3.Int("header_disc"), z3.Int("iter_disc")
    E.solver.add(z3.And(h_d >= 0, h_d <= 1, it_d >= 0, it_d <= 1))
    base = (("o", selfp.id), "deref")

    def pre(E_, st, frame):
        st.mem[base + (("f", i_hdr), "disc")] = h_d
        st.mem[base + (("f", i_iter), "disc")] = it_d
    body = E.prog.find(F, "SnapshotStream", "next", trait="Iterator")
    res.functions.append("<http::delta::SnapshotStream as Iterator>::next (MIR)")
    paths = E.explore(body, max_visits=visits, nomut=[r"."], arg_values={"_1": {(): selfp}}, pre=pre, max_paths=100000)
    n = 0
    bad = {}

    def viol(key, what, p, i):
        if key in bad:
            return
        bad[key] = True
        fn = mprop.write_cex(res, "snapshot_%s_%d" % (re.sub(r"\W+", "_", key), i), p, E, what)
        res.violation("mir:snapshot-stream:" + key, what, fn)
    for i, p in enumerate(paths):
        if p.kind not in ("return", "bound"):
            continue
        n += 1
        finished = forced(E, p, it_d == 0)
        evs = [e for e in p.events if e.kind == "call" and re.search(r"DeltaStream::append_(payload|footer)$|(Iterator|PayloadSet|PayloadDiff)::next$", e.name)]
        kinds = "".join("P" if e.name.endswith("append_payload") else "F" if e.name.endswith("append_footer") else "" for e in evs)
        if finished is True:
            if kinds:
                viol("output-after-footer", "SnapshotStream::next emits output although the stream is finished", p, i)
            continue
        if re.fullmatch(r"P*F?", kinds) is None:
            viol("grammar", "SnapshotStream::next emits %s" % kinds, p, i)
            continue
        emitted = h_d == 0          # a later chunk: items already precede
        pending = False
        for e in evs:
            if e.name.endswith("append_payload"):
                farg = e.args[2].get(()) if len(e.args) > 2 else None
                if not mir.is_z(farg) or not must(E, p, farg == z3.Not(emitted)):
                    viol("comma", "an item is written with the wrong `first` flag (missing or stray comma at a chunk boundary)", p, i)
                emitted = z3.BoolVal(True)
                if not pending:
                    viol("item-invented", "an item is written without a fetched snapshot item", p, i)
                pending = False
            elif e.name.endswith("append_footer"):
                if pending:
                    viol("item-dropped", "a fetched item is not written", p, i)
            else:
                if pending:
                    viol("item-dropped", "a fetched item is not written before the next is fetched", p, i)
                d = disc_of(E, p, e)
                pending = d is not None and must(E, p, d == 1)
        if p.kind == "return":
            ni = mir.peek(E, p.mem, base + (("f", i_iter), "disc"))
            if "F" in kinds and (ni is None or not must(E, p, ni == 0)):
                viol("not-finished-after-footer", "footer written but the snapshot stream is not marked finished", p, i)
            if "F" not in kinds and ni is not None and not must(E, p, ni == 1):
                viol("finished-without-footer", "snapshot stream marked finished without a footer", p, i)
            if len(res.samples) < 12 and kinds:
                res.samples.append({"stream": "snapshot", "pieces": kinds})
    res.extra["snapshot_stream_paths"] = len(paths)
    return n


def run(res, tier):
    E = mprop.engine(res)
    res.extra.setdefault("source_files_sha256", {}).update(mprop.source_hashes([F]))
    visits = 3 if tier == "quick" else 4
    n = check_delta_stream(res, E, visits)
    n += check_snapshot_stream(res, E, visits)
    res.distinct += n
    if n < 20:
        res.inconclusive.append("vacuity: only %d stream paths" % n)
    res.bounds.append("ONE call of next() from an arbitrary stream state satisfying the representation invariant (which every "
                      "returning path is shown to re-establish): covers any number of items and chunks by induction; inside "
                      "one call the item loop is unrolled to %d items; `vec.len() > 64000` is a free boolean at every test" % (visits - 1))
    res.assumptions += ["the delta iterators yield each item of the change set once with its action (DeltaArcIter, C11)",
                        "Vec::len() is arbitrary at each test: chunk boundaries fall anywhere"]
    res.outside += ["the JSON text of the individual pieces (append_header / append_payload format strings run through "
                    "core::fmt: out of reach for CBMC within the caps, see C22's measurements) and the header's session/serial values"]
    res.rule = ("one case = one feasible path of next(); the sequence of emitted pieces, the `first` (comma) flag of every "
                "item, the item/iterator correspondence and the post-state are checked with z3 'must' queries")
    mprop.finish_engine(res, E)
