"""C18 JSON delta and snapshot streams are well-formed and exact - chunking state machine (M engine: one inductive
step over the `first` flag, plus a byte-level bounded run of the whole stream)."""
import ast
import json
import re

import z3

import mir
import mprop
from gating import must, disc_of

F = "src/http/delta.rs"


def forced(E, p, e):
    if not E.feasible(p.cond, z3.Not(e)):
        return True
    if not E.feasible(p.cond, e):
        return False
    return None


def check_delta_stream(res, E, visits):
    fields = mir.struct_fields("DeltaStream", F)
    i_ann, i_wd, i_first = fields.index("announce"), fields.index("withdraw"), fields.index("first")
    selfp = mir.Opq("&mut DeltaStream", "self")
    a_d, w_d = z3.Int("announce_disc"), z3.Int("withdraw_disc")
    f0 = z3.Bool("first0")
    E.solver.add(z3.And(a_d >= 0, a_d <= 1, w_d >= 0, w_d <= 1))
    # representation invariant assumed for the pre-state (and re-established at return, checked below):
    # announcements are only pending while withdrawals are
    E.solver.add(z3.Implies(a_d == 1, w_d == 1))
    base = (("o", selfp.id), "deref")
    Action = E.prog.enums.get("Action", ["Announce", "Withdraw"])

    def pre(E_, st, frame):
        st.mem[base + (("f", i_ann), "disc")] = a_d
        st.mem[base + (("f", i_wd), "disc")] = w_d
        st.mem[base + (("f", i_first),)] = f0

    body = E.prog.find(F, "DeltaStream", "next", trait="Iterator")
    res.functions.append("<http::delta::DeltaStream as Iterator>::next with next_announce / next_withdraw inlined (MIR)")
    paths = E.explore(body, max_visits=visits, nomut=[r"."], arg_values={"_1": {(): selfp}}, pre=pre,
                      inline=[r"DeltaStream::next_(announce|withdraw)$"], max_paths=100000)
    n = 0
    bad = {}

    def viol(key, what, p, i):
        if key in bad:
            return
        bad[key] = True
        fn = mprop.write_cex(res, "delta_%s_%d" % (re.sub(r"\W+", "_", key), i), p, E, what)
        res.violation("mir:stream:" + key, what, fn)

    for i, p in enumerate(paths):
        if p.kind not in ("return", "bound"):
            continue
        n += 1
        done0 = forced(E, p, w_d == 0)
        inA = forced(E, p, a_d == 1)
        evs = []
        for e in p.events:
            if e.kind != "call":
                continue
            if e.name.endswith("DeltaStream::append_payload"):
                evs.append(("P", e))
            elif e.name.endswith("DeltaStream::append_separator"):
                evs.append(("S", e))
            elif e.name.endswith("DeltaStream::append_footer"):
                evs.append(("F", e))
            elif re.search(r"(Iterator|PayloadDiff|PayloadSet)::next$", e.name):
                evs.append(("N", e))
        kinds = "".join(k for k, _ in evs if k != "N")
        if done0 is True:
            if kinds:
                viol("output-after-footer", "DeltaStream::next emits %s although the stream is finished (withdraw is None)" % kinds, p, i)
            d = p.ret.get(("disc",))
            if p.kind == "return" and (d is None or not must(E, p, d == 0)):
                viol("chunk-after-end", "DeltaStream::next returns another chunk after the footer was produced", p, i)
            continue
        # grammar of one call
        if inA is True:
            ok = re.fullmatch(r"P*(SP*F?)?", kinds) is not None
        elif inA is False:
            ok = re.fullmatch(r"P*F?", kinds) is not None
        else:
            ok = re.fullmatch(r"P*(SP*F?)?", kinds) is not None
        if not ok:
            viol("grammar", "DeltaStream::next emits pieces in the order %s (P item, S separator, F footer) which is not "
                 "announced-items separator withdrawn-items footer" % kinds, p, i)
            continue
        # first-flag bookkeeping and item exactness
        emitted = z3.Not(f0)
        phase = "A" if inA else "W"
        pending = None       # an iterator item that must be emitted next
        for k, e in evs:
            if k == "N":
                if pending is not None:
                    viol("item-dropped", "an item whose action matches the current list is skipped (not written before the next item is fetched)", p, i)
                    pending = None
                src = e.args[0].get(()) if e.args else None
                which = None
                if isinstance(src, mir.Ref):
                    for part in src.loc:
                        if isinstance(part, tuple) and part[0] == "f" and part[1] in (i_ann, i_wd):
                            which = "A" if part[1] == i_ann else "W"
                            break
                d = disc_of(E, p, e)
                if which is not None and which != phase:
                    viol("wrong-iterator", "items for the %s list are taken from the other iterator" % ("announced" if phase == "A" else "withdrawn"), p, i)
                if d is not None and must(E, p, d == 1):
                    leaf = e.dest.get(())
                    act = mir.peek(E, p.mem, (("o", leaf.id), ("v", "Some"), ("f", 0), ("f", 1), "disc")) if isinstance(leaf, mir.Opq) else None
                    want = Action.index("Announce") if phase == "A" else Action.index("Withdraw")
                    if act is not None and must(E, p, act == want):
                        pending = e
                continue
            if k == "P":
                farg = e.args[2].get(()) if len(e.args) > 2 else None
                if not mir.is_z(farg) or not must(E, p, farg == z3.Not(emitted)):
                    viol("comma", "an item is written with first=%s although %s items precede it in its list (missing or "
                         "stray comma)" % ("?" if not mir.is_z(farg) else z3.simplify(farg), "some" if True else ""), p, i)
                emitted = z3.BoolVal(True)
                if pending is None:
                    viol("item-invented", "an item is written that does not come from an iterator item of the matching action", p, i)
                pending = None
            elif k == "S":
                if pending is not None:
                    viol("item-dropped", "an announced item is fetched but the separator is written instead", p, i)
                emitted = z3.BoolVal(False)
                phase = "W"
            elif k == "F":
                phase = "D"
        if p.kind != "return":
            continue
        if pending is not None:
            viol("item-dropped", "next() returns with a fetched matching item not written", p, i)
        # post-state re-establishes the invariant and the ghost relation
        nf = mir.peek(E, p.mem, base + (("f", i_first),))
        na = mir.peek(E, p.mem, base + (("f", i_ann), "disc"))
        nw = mir.peek(E, p.mem, base + (("f", i_wd), "disc"))
        if mir.is_z(nf) and phase != "D" and not must(E, p, nf == z3.Not(emitted)):
            viol("first-flag-state", "after next() the stream's `first` flag does not say whether the current list already has items", p, i)
        if "S" in kinds and (na is None or not must(E, p, na == 0)):
            viol("announce-not-closed", "the separator was written but the announce iterator is still pending", p, i)
        if "F" in kinds and (nw is None or not must(E, p, nw == 0)):
            viol("not-finished-after-footer", "the footer was written but the stream is not marked finished", p, i)
        if "F" not in kinds and nw is not None and not must(E, p, nw == 1):
            viol("finished-without-footer", "the stream is marked finished without a footer", p, i)
        d = p.ret.get(("disc",))
        if d is None or not must(E, p, d == 1):
            viol("no-chunk", "next() returns None although the stream was not finished", p, i)
        if len(res.samples) < 8 and kinds:
            res.samples.append({"stream": "delta", "start_phase": "A" if inA else "W", "pieces": kinds, "kind": p.kind})
    res.extra["delta_stream_paths"] = len(paths)
    res.extra["delta_stream_truncated"] = E.bound_hits
    return n


def check_snapshot_stream(res, E, visits):
    fields = mir.struct_fields("SnapshotStream", F)
    i_hdr, i_iter = fields.index("header"), fields.index("iter")
    selfp = mir.Opq("&mut SnapshotStream", "self")
    h_d, it_d = z3.Int("header_disc"), z3.Int("iter_disc")
    E.solver.add(z3.And(h_d >= 0, h_d <= 1, it_d >= 0, it_d <= 1))
    base = (("o", selfp.id), "deref")

    def pre(E_, st, frame):
        st.mem[base + (("f", i_hdr), "disc")] = h_d
        st.mem[base + (("f", i_iter), "disc")] = it_d
    body = E.prog.find(F, "SnapshotStream", "next", trait="Iterator")
    res.functions.append("<http::delta::SnapshotStream as Iterator>::next (MIR)")
    paths = E.explore(body, max_visits=visits, nomut=[r"."], arg_values={"_1": {(): selfp}}, pre=pre, max_paths=100000)
    n = 0
    bad = {}

    def viol(key, what, p, i):
        if key in bad:
            return
        bad[key] = True
        fn = mprop.write_cex(res, "snapshot_%s_%d" % (re.sub(r"\W+", "_", key), i), p, E, what)
        res.violation("mir:snapshot-stream:" + key, what, fn)
    for i, p in enumerate(paths):
        if p.kind not in ("return", "bound"):
            continue
        n += 1
        finished = forced(E, p, it_d == 0)
        evs = [e for e in p.events if e.kind == "call" and re.search(r"DeltaStream::append_(payload|footer)$|(Iterator|PayloadSet|PayloadDiff)::next$", e.name)]
        kinds = "".join("P" if e.name.endswith("append_payload") else "F" if e.name.endswith("append_footer") else "" for e in evs)
        if finished is True:
            if kinds:
                viol("output-after-footer", "SnapshotStream::next emits output although the stream is finished", p, i)
            continue
        if re.fullmatch(r"P*F?", kinds) is None:
            viol("grammar", "SnapshotStream::next emits %s" % kinds, p, i)
            continue
        emitted = h_d == 0          # a later chunk: items already precede
        pending = False
        for e in evs:
            if e.name.endswith("append_payload"):
                farg = e.args[2].get(()) if len(e.args) > 2 else None
                if not mir.is_z(farg) or not must(E, p, farg == z3.Not(emitted)):
                    viol("comma", "an item is written with the wrong `first` flag (missing or stray comma at a chunk boundary)", p, i)
                emitted = z3.BoolVal(True)
                if not pending:
                    viol("item-invented", "an item is written without a fetched snapshot item", p, i)
                pending = False
            elif e.name.endswith("append_footer"):
                if pending:
                    viol("item-dropped", "a fetched item is not written", p, i)
            else:
                if pending:
                    viol("item-dropped", "a fetched item is not written before the next is fetched", p, i)
                d = disc_of(E, p, e)
                pending = d is not None and must(E, p, d == 1)
        if p.kind == "return":
            ni = mir.peek(E, p.mem, base + (("f", i_iter), "disc"))
            if "F" in kinds and (ni is None or not must(E, p, ni == 0)):
                viol("not-finished-after-footer", "footer written but the snapshot stream is not marked finished", p, i)
            if "F" not in kinds and ni is not None and not must(E, p, ni == 1):
                viol("finished-without-footer", "snapshot stream marked finished without a footer", p, i)
            if len(res.samples) < 12 and kinds:
                res.samples.append({"stream": "snapshot", "pieces": kinds})
    res.extra["snapshot_stream_paths"] = len(paths)
    return n

def check_arc_iter(res, E, file="src/payload/delta.rs", ty="DeltaArcIter", meth="next", trait="PayloadDiff", container="PayloadDelta",
                   get_re=r"(StandardDelta|AspaDelta)(::<.*>)?::get$"):
    """One step of the shared iterator's next() from an arbitrary valid iterator state (type being processed, index)
    over lists of arbitrary lengths: it returns the next item of the concatenation origins ++ router keys ++ ASPAs
    and leaves the iterator at the following position; None only at the end."""
    import nativetest
    body = E.prog.find(file, ty, meth, trait=trait) if trait else E.prog.find(file, ty, meth)
    res.functions.append("%s::%s (MIR, %d blocks): inductive step over (type, index)" % (ty, meth, len(body.blocks)))
    flds = mir.struct_fields(ty, file)
    i_ty, i_nx = flds.index("current_type"), flds.index("next")
    dflds = mir.struct_fields(container, file)
    lists = {dflds.index("origins"): 0, dflds.index("router_keys"): 1, dflds.index("aspas"): 2}
    selfp = mir.Opq("&mut " + ty, "self")
    phase = z3.Int("iter_type_" + ty)
    nxt = z3.BitVec("iter_next_" + ty, 64)
    lens = [z3.BitVec("len_%s_%d" % (ty, k), 64) for k in range(3)]
    E.solver.add(z3.And(phase >= 0, phase <= 2, *[z3.ULT(l, 1 << 32) for l in lens]))
    E.solver.add(z3.And([z3.Implies(phase == k, z3.ULE(nxt, lens[k])) for k in range(3)]))
    consts = {r"PayloadType::Origin$": {("disc",): z3.IntVal(0)}, r"PayloadType::RouterKey$": {("disc",): z3.IntVal(1)},
              r"PayloadType::Aspa$": {("disc",): z3.IntVal(2)}}
    base = (("o", selfp.id), "deref")

    def pre(E_, st, frame):
        st.mem[base + (("f", i_ty), "disc")] = phase
        st.mem[base + (("f", i_nx),)] = nxt

    def m_get(E_, st, frame, callee, argvals, dest_ty):
        a = argvals[0].get(())
        idx = argvals[1].get(())
        k = lists.get(a.loc[-1][1]) if isinstance(a, mir.Ref) and a.loc and a.loc[-1][0] == "f" else None
        if k is None or not (mir.is_z(idx) or isinstance(idx, int)):
            raise mir.Inconclusive("%s::%s: get() on an unknown list / index (%r, %r)" % (ty, meth, a, idx))
        idx = idx if mir.is_z(idx) else z3.BitVecVal(idx, 64)
        st.events.append(mir.Event("LIST-GET", [{(): k}, {(): idx}], None, ("", ""), "call", callee))
        return {("disc",): z3.If(z3.ULT(idx, lens[k]), z3.IntVal(1), z3.IntVal(0)),
                (("v", "Some"), ("f", 0)): mir.Opq("item", "item_%d" % k)}
    paths = E.explore(body, max_visits=2, arg_values={"_1": {(): selfp}}, pre=pre, consts=consts, follow_panics=True,
                      models={get_re: m_get})
    # the specification
    idx1 = z3.If(phase == 1, nxt, z3.BitVecVal(0, 64))
    idx2 = z3.If(phase == 2, nxt, z3.BitVecVal(0, 64))
    in0 = z3.And(phase == 0, z3.ULT(nxt, lens[0]))
    in1 = z3.And(z3.Not(in0), phase <= 1, z3.ULT(idx1, lens[1]))
    in2 = z3.And(z3.Not(in0), z3.Not(in1), z3.ULT(idx2, lens[2]))
    want_k = z3.If(in0, 0, z3.If(in1, 1, z3.If(in2, 2, 3)))
    want_i = z3.If(in0, nxt, z3.If(in1, idx1, idx2))
    n = 0
    bad = None
    for i, p in enumerate(paths):
        if p.kind in ("bound",):
            continue
        n += 1
        if p.kind != "return":
            if E.feasible(p.cond, z3.BoolVal(True)) and bad is None:
                bad = (p, "%s::%s can panic / diverge from a valid iterator state (%s)" % (ty, meth, p.kind), E.model(p.cond))
            continue
        d = p.ret.get(("disc",))
        gets = [e for e in p.events if e.name == "LIST-GET"]
        ty1 = p.mem.get(base + (("f", i_ty), "disc"), phase)
        nx1 = p.mem.get(base + (("f", i_nx),), nxt)
        if d is None or not gets:
            res.inconclusive.append("%s::%s path %d: no discriminant / no list access" % (ty, meth, i))
            continue
        k_last, i_last = gets[-1].args[0].get(()), gets[-1].args[1].get(())
        some = (d == 1)
        # Some <=> an item is left; the item is the specified one; the state advances to just behind it
        ok = z3.And(some == (want_k != 3),
                    z3.Implies(some, z3.And(want_k == k_last, want_i == i_last, ty1 == k_last, nx1 == i_last + 1)),
                    z3.Implies(z3.Not(some), ty1 == 2))
        m = E.model(p.cond, z3.Not(ok))
        if m is not None and bad is None:
            bad = (p, "from iterator state (type %s, index %s) over lists of %s / %s / %s items next() %s" % (
                m.eval(phase, True), m.eval(nxt, True), m.eval(lens[0], True), m.eval(lens[1], True), m.eval(lens[2], True),
                ("returns item %s of list %s instead of item %s of list %s" % (m.eval(i_last, True), k_last, m.eval(want_i, True), m.eval(want_k, True)))
                if z3.is_true(m.eval(some, True)) else "returns None although items are left"), m)
    res.distinct += n
    res.samples.append({"arc_iter_paths": n, "iterator": ty})
    if n < 4:
        res.inconclusive.append("vacuity: %s::%s explored %d paths" % (ty, meth, n))
    if bad:
        p, what, m = bad
        failed, passed, out = nativetest.run_native_test("native_c18_iter", "c18_native_arc_iter_complete")
        mm = re.search(r"C18-NATIVE-ITER (.*)", out)
        res.evaluations += 1
        fn = mprop.write_cex(res, "arc_iter_step_" + ty, p, E, what + "\n\nnative replay: " + (mm.group(1) if mm else out[-1500:]), m)
        if failed:
            res.violation("mir:%s-skips-items" % ("delta-iterator" if ty == "DeltaArcIter" else "snapshot-iterator"), "the shared iterator (%s) behind /json-delta does not yield every item exactly once: " % ty
                          + what + "; reproduced natively: " + (mm.group(1)[:300] if mm else "test failed"), fn)
        elif passed:
            res.inconclusive.append("delta iterator: %s - not reproduced natively" % what)
        else:
            res.inconclusive.append("delta iterator: %s - native replay could not be built" % what)


def run(res, tier):
    E = mprop.engine(res)
    res.extra.setdefault("source_files_sha256", {}).update(mprop.source_hashes([F]))
    visits = 3 if tier == "quick" else 4
    n = 0
    if "first" in mir.struct_fields("DeltaStream", F):
        n += check_delta_stream(res, E, visits)
        n += check_snapshot_stream(res, E, visits)
    else:
        res.notes.append("DeltaStream has no `first` field: the flag-based inductive step does not apply to this "
                         "implementation; the byte-level run below decides the property")
    mprop.finish_engine(res, E)
    for kind in ("delta", "snapshot"):
        E = mprop.engine(res)
        n += stream_run(res, E, kind, 2 if tier == "quick" else 3)
    E = mprop.engine(res)
    check_arc_iter(res, E)
    E = mprop.engine(res)
    check_arc_iter(res, E, file="src/payload/snapshot.rs", ty="SnapshotArcIter", meth="next_with_info", trait=None, container="PayloadSnapshot",
                   get_re=r"PayloadCollection(::<.*>)?::get$|Vec(::<.*>)?::get$|core::slice::.*get$|\[.*\]>?::get$|::get$")
    res.distinct += n
    if n < 20:
        res.inconclusive.append("vacuity: only %d stream paths" % n)
    res.bounds.append("byte-level run: DeltaStream / SnapshotStream from new() through successive next() calls until None, for "
                      "change sets of 0..%d items with symbolic actions; the buffer is abstracted to (length, last byte); "
                      "every item's text has a symbolic length up to 70000 bytes (header values up to 64 bytes each), so the 64000-byte chunk limit "
                      "can fall after any piece; checked per path: order of header, items, separator, footer; a comma "
                      "exactly before every item that is not the first of its list (across chunk boundaries); items are "
                      "exactly the change set's, by action, in order" % (2 if tier == "quick" else 3))
    res.bounds.append("ONE call of next() from an arbitrary stream state satisfying the representation invariant (which every "
                      "returning path is shown to re-establish): covers any number of items and chunks by induction; inside "
                      "one call the item loop is unrolled to %d items; `vec.len() > 64000` is a free boolean at every test" % (visits - 1))
    res.assumptions += ["the stream runs take the delta iterator as yielding each item of the change set once with its action; DeltaArcIter::next and SnapshotArcIter::next_with_info are checked separately by an inductive step",
                        "Vec::len() is arbitrary at each test: chunk boundaries fall anywhere"]
    res.outside += ["the JSON text of the individual pieces (append_header / append_payload format strings run through "
                    "core::fmt: out of reach for CBMC within the caps, see C22's measurements) and the header's session/serial values"]
    res.assumptions += ["byte-level run: items are route origins (PayloadRef::Origin); format placeholders write 0..70000 bytes "
                        "of unknown content; Vec<u8> / Option<Vec<u8>> operations are buffer models (new, take, "
                        "unwrap_or_default, len, push, extend_from_slice, write_fmt, ends_with, into Bytes)"]
    res.rule = ("one case = one feasible path of next(); the sequence of emitted pieces, the `first` (comma) flag of every "
                "item, the item/iterator correspondence and the post-state are checked with z3 'must' queries")
    mprop.finish_engine(res, E)


# ---------------------------------------------------------------------------------------------------------------
# byte-level bounded run: new() -> next()* -> None

def _rust_bytes(lit):
    t = lit.strip()
    if t.startswith("const "):
        t = t[6:]
    is_b = t.startswith("b")
    body = t[2:-1] if is_b else t[1:-1]
    body = re.sub(r"\\u\{([0-9a-fA-F]+)\}", lambda m: chr(int(m.group(1), 16)), body)
    if is_b:
        return ast.literal_eval('b"' + body + '"')
    return ast.literal_eval('"' + body + '"').encode("utf-8")


def _decode_template(raw):
    out = []
    i = 0
    while True:
        n = raw[i]
        i += 1
        if n == 0:
            break
        if n < 0x80:
            out.append(("lit", raw[i:i + n]))
            i += n
        elif n == 0x80:
            ln = int.from_bytes(raw[i:i + 2], "little")
            out.append(("lit", raw[i + 2:i + 2 + ln]))
            i += 2 + ln
        else:
            for bit, size in ((1, 4), (2, 2), (4, 2), (8, 2)):
                if n & bit:
                    i += size
            out.append(("arg",))
    return out


class Tok:
    """One piece of output: kind in header/item/separator/footer/chunk/write."""
    def __init__(self, kind, **kw):
        self.kind = kind
        self.__dict__.update(kw)

    def __repr__(self):
        return "%s%s" % (self.kind, {k: v for k, v in self.__dict__.items() if k not in ("kind",)})


def stream_run(res, E, kind, N):
    ty = "DeltaStream" if kind == "delta" else "SnapshotStream"
    new_body = E.prog.find(F, ty, "new")
    next_body = E.prog.find(F, ty, "next", trait="Iterator")
    res.functions.append("http::delta::%s::new + next()* with the append_* helpers inlined (MIR, byte-level run)" % ty)
    n_items = z3.Int(kind + "_n_items")
    E.solver.add(n_items >= 0, n_items <= N)
    act = [z3.Int("%s_action_%d" % (kind, i)) for i in range(N)]
    for a in act:
        E.solver.add(z3.Or(a == 0, a == 1))
    payloads = [mir.Opq("PayloadRef", "item%d" % i) for i in range(N)]
    LIM = 70000

    def buf(ln, last):
        return {("blen",): ln, ("blast",): last}

    def tok(E_, st, frame, t):
        where = (frame["body"].name, st.trace[-1][1] if st.trace else "")
        st.events.append(mir.Event("TOK", [t], None, where, "tok"))

    def load_buf(E_, st, v):
        r = v.get(())
        if isinstance(r, mir.Ref):
            cur = E_.load(st, r.loc)
            return (cur, r.loc) if ("blen",) in cur else (None, None)
        return (v, None) if ("blen",) in v else (None, None)

    def append(E_, st, frame, loc, cur, nbytes, last, first, what):
        new = dict(cur)
        new[("blen",)] = cur[("blen",)] + nbytes
        if last is not None:
            new[("blast",)] = last
        E_.store(st, loc, new)
        tok(E_, st, frame, Tok("write", first=first, what=what))

    def m_vec_new(E_, st, frame, callee, argvals, dest_ty):
        return buf(z3.BitVecVal(0, 64), z3.BitVecVal(0, 8))

    def m_take(E_, st, frame, callee, argvals, dest_ty):
        r = argvals[0].get(())
        if not isinstance(r, mir.Ref):
            return NotImplemented
        cur = dict(E_.load(st, r.loc))
        E_.store(st, r.loc, {("disc",): z3.IntVal(0)})
        return cur

    def m_unwrap_or_default(E_, st, frame, callee, argvals, dest_ty):
        v = argvals[0]
        d = v.get(("disc",))
        if d is None:
            return NotImplemented
        d = z3.simplify(d)
        if z3.is_int_value(d) and d.as_long() == 1:
            return {k[2:]: x for k, x in v.items() if k[:2] == (("v", "Some"), ("f", 0))}
        if z3.is_int_value(d) and d.as_long() == 0:
            return buf(z3.BitVecVal(0, 64), z3.BitVecVal(0, 8))
        return NotImplemented

    def m_len(E_, st, frame, callee, argvals, dest_ty):
        cur, _ = load_buf(E_, st, argvals[0])
        return {(): cur[("blen",)]} if cur else NotImplemented

    def m_push(E_, st, frame, callee, argvals, dest_ty):
        cur, loc = load_buf(E_, st, argvals[0])
        b = argvals[1].get(())
        if cur is None or loc is None or not mir.is_z(b):
            return NotImplemented
        bs = z3.simplify(b)
        append(E_, st, frame, loc, cur, z3.BitVecVal(1, 64), b, bs.as_long() if z3.is_bv_value(bs) else None, "push")
        return {(): mir.Str("()")}

    def const_bytes(v):
        leaf = v.get(())
        if isinstance(leaf, mir.Str):
            try:
                return _rust_bytes(leaf.s)
            except Exception:
                return None
        return None

    def m_extend(E_, st, frame, callee, argvals, dest_ty):
        cur, loc = load_buf(E_, st, argvals[0])
        bs = const_bytes(argvals[1])
        if cur is None or loc is None or not bs:
            return NotImplemented
        append(E_, st, frame, loc, cur, z3.BitVecVal(len(bs), 64), z3.BitVecVal(bs[-1], 8), bs[0], "extend")
        return {(): mir.Str("()")}

    def m_argument(E_, st, frame, callee, argvals, dest_ty):
        return {("akind",): mir.Str("arg")}

    def m_arguments(E_, st, frame, callee, argvals, dest_ty):
        return {("tmpl",): argvals[0].get(())}

    def m_arguments_str(E_, st, frame, callee, argvals, dest_ty):
        return {("fromstr",): argvals[0].get(())}

    def m_write_fmt(E_, st, frame, callee, argvals, dest_ty):
        cur, loc = load_buf(E_, st, argvals[0])
        a = argvals[1]
        if cur is None or loc is None:
            return NotImplemented
        try:
            if isinstance(a.get(("fromstr",)), mir.Str):
                pieces = [("lit", _rust_bytes(a[("fromstr",)].s))]
            elif isinstance(a.get(("tmpl",)), mir.Str):
                pieces = _decode_template(_rust_bytes(a[("tmpl",)].s))
            else:
                return NotImplemented
        except Exception:
            return NotImplemented
        pieces = [p_ for p_ in pieces if p_[0] == "arg" or p_[1]]
        if not pieces:
            return {(): mir.Str("()")}
        total = z3.BitVecVal(sum(len(p_[1]) for p_ in pieces if p_[0] == "lit"), 64)
        for p_ in pieces:
            if p_[0] == "arg":
                E_.fresh_n += 1
                ln = z3.BitVec("written_len!%d" % E_.fresh_n, 64)
                # header placeholders are numbers and a date (at most 64 bytes each); item text is allowed to be
                # huge so that the chunk limit can fall behind any piece with few items
                st.cond.append(z3.ULE(ln, 64 if "append_header" in frame["body"].name else LIM))
                total = total + ln
        if pieces[-1][0] == "lit":
            last = z3.BitVecVal(pieces[-1][1][-1], 8)
        else:
            E_.fresh_n += 1
            last = z3.BitVec("written_last!%d" % E_.fresh_n, 8)
        first = pieces[0][1][0] if pieces[0][0] == "lit" else None
        skeleton = b"".join(p_[1] if p_[0] == "lit" else b"0" for p_ in pieces)
        append(E_, st, frame, loc, cur, total, last, first, "fmt")
        st.events[-1].args[0].skeleton = skeleton
        return {(): mir.Str("()")}

    def m_into_bytes(E_, st, frame, callee, argvals, dest_ty):
        cur, _ = load_buf(E_, st, argvals[0])
        if cur is None:
            return NotImplemented
        tok(E_, st, frame, Tok("chunk", blen=cur[("blen",)]))
        return {(): mir.Opq("Bytes", "chunk")}

    def m_deref_vec(E_, st, frame, callee, argvals, dest_ty):
        cur, loc = load_buf(E_, st, argvals[0])
        return dict(argvals[0]) if cur is not None else NotImplemented

    def m_ends_with(E_, st, frame, callee, argvals, dest_ty):
        cur, _ = load_buf(E_, st, argvals[0])
        bs = const_bytes(argvals[1])
        if cur is None or not bs or len(bs) != 1:
            return NotImplemented
        return {(): z3.And(cur[("blen",)] != 0, cur[("blast",)] == bs[0])}

    def m_arc_iter(E_, st, frame, callee, argvals, dest_ty):
        return {("pos",): z3.IntVal(0)}

    def m_iter_next(E_, st, frame, callee, argvals, dest_ty):
        r = argvals[0].get(())
        if not isinstance(r, mir.Ref):
            return NotImplemented
        cur = E_.load(st, r.loc)
        if ("pos",) not in cur:
            return NotImplemented
        pos = cur[("pos",)].as_long()
        if pos >= N:
            return {("disc",): z3.IntVal(0)}
        new = dict(cur)
        new[("pos",)] = z3.IntVal(pos + 1)
        E_.store(st, r.loc, new)
        out = {("disc",): z3.If(pos < n_items, z3.IntVal(1), z3.IntVal(0))}
        item = {("disc",): z3.IntVal(0), ("itemno",): z3.IntVal(pos)}
        if kind == "delta":
            for k, v in item.items():
                out[(("v", "Some"), ("f", 0), ("f", 0)) + k] = v
            out[(("v", "Some"), ("f", 0), ("f", 1), "disc")] = act[pos]
        else:
            for k, v in item.items():
                out[(("v", "Some"), ("f", 0)) + k] = v
        tok(E_, st, frame, Tok("fetch", item=pos))
        return out

    models = {
        r"^Vec::<u8>::new$": m_vec_new,
        r"^(std::option::|core::option::)?Option::<Vec<u8>>::take$": m_take,
        r"^(std::option::|core::option::)?Option::<Vec<u8>>::unwrap_or_default$": m_unwrap_or_default,
        r"^Vec::<u8>::len$": m_len, r"^Vec::<u8>::push$": m_push, r"^Vec::<u8>::extend_from_slice$": m_extend,
        r"^core::fmt::rt::Argument::<'_>::new_": m_argument, r"^Arguments::<'_>::new::<": m_arguments,
        r"^Arguments::<'_>::from_str$": m_arguments_str,
        r"^<Vec<u8> as (WriteOrPanic|std::io::Write|io::Write)>::write_fmt$": m_write_fmt,
        r"^<Vec<u8> as Into<(bytes::)?Bytes>>::into$": m_into_bytes,
        r"^<Vec<u8> as Deref>::deref$": m_deref_vec,
        r"^core::slice::<impl \[u8\]>::ends_with$": m_ends_with,
        r"(PayloadDelta|PayloadSnapshot)::arc_iter$": m_arc_iter,
        r"^<(DeltaArcIter|SnapshotArcIter) as (PayloadDiff|PayloadSet|Iterator)>::next$": m_iter_next,
    }
    inline = [r"(DeltaStream|SnapshotStream)::(next_announce|next_withdraw|append_\w+)$"]

    def keep_mem(mem):
        return {k: v for k, v in mem.items() if not (isinstance(k[0], str) and re.match(r"^[FP]\d", k[0]))}

    # step 0: new()
    frontier = []
    for p in E.explore(new_body, max_visits=2, models=models, inline=inline, keep_drop_events=False):
        if p.kind != "return":
            continue
        mem = keep_mem(p.mem)
        for k, v in p.ret.items():
            mem[("STREAM",) + k] = v
        frontier.append((mem, list(p.cond), list(p.events)))
    if len(frontier) != 1:
        res.inconclusive.append("%s::new: %d returning paths (expected 1)" % (ty, len(frontier)))
        mprop.finish_engine(res, E)
        return 0
    finished = []
    MAXCALLS = N + 5
    for call in range(MAXCALLS):
        nxt = []
        for mem, cond, events in frontier:
            def pre(E_, st, frame, mem=mem, cond=cond, events=events):
                st.mem.update(mem)
                st.cond = list(cond)
                st.events = list(events)
                E_.store(st, (frame["id"] + ":_1",), {(): mir.Ref(("STREAM",), True)})
            ps = E.explore(next_body, max_visits=2 * N + 6, pre=pre, models=models, inline=inline, max_paths=50000)
            for p in ps:
                if p.kind == "bound":
                    if E.feasible(p.cond):
                        res.inconclusive.append("%s::next: a path exceeds the loop bound in the byte-level run" % ty)
                    continue
                if p.kind != "return":
                    continue
                d = p.ret.get(("disc",))
                if d is None:
                    res.inconclusive.append("%s::next: result discriminant unknown" % ty)
                    continue
                if E.feasible(p.cond, d == 0):
                    finished.append(p)
                if E.feasible(p.cond, d == 1):
                    p2cond = list(p.cond) + [d == 1]
                    nxt.append((keep_mem(p.mem), p2cond, list(p.events)))
        frontier = nxt
        if not frontier:
            break
    if frontier:
        res.inconclusive.append("%s: %d runs still produce chunks after %d calls of next()" % (ty, len(frontier), MAXCALLS))

    # ---- check every finished run ------------------------------------------------------------------------------
    bad = {}

    def viol(key, what, p, mdl=None):
        if key in bad:
            return
        bad[key] = True
        ok = native_stream(res)
        fn = mprop.write_cex(res, "%s_run_%s" % (kind, re.sub(r"\W+", "_", key)), p, E, what, mdl)
        if ok is False:
            res.inconclusive.append("%s byte-level run: '%s' did not reproduce in the native chunk-boundary sweep" % (ty, key))
        else:
            res.violation("mir:%s-run:%s" % (kind, key), what + ("; reproduced natively" if ok else " [native replay unavailable]"), fn)

    shapes = set()
    skeleton_checked = False
    for p in finished:
        # group the writes by the helper that made them
        segs = []
        cur = None
        for e in p.events:
            if e.kind == "enter":
                m = re.search(r"::append_(\w+)$", e.name)
                if m:
                    cur = Tok(m.group(1), writes=[], item=None)
                    segs.append(cur)
                continue
            if e.kind == "ret" and re.search(r"::append_\w+$", e.name):
                cur = None
                continue
            if e.kind == "call" and e.name.endswith("append_payload") and False:
                pass
            if e.kind != "tok":
                continue
            t = e.args[0]
            if t.kind == "write":
                if cur is None:
                    segs.append(Tok("stray", writes=[t], item=None))
                else:
                    cur.writes.append(t)
            elif t.kind in ("chunk", "fetch"):
                segs.append(t)
        # which item does each payload segment write?  the last fetched one
        last_fetch = None
        seq = []
        for sg in segs:
            if sg.kind == "fetch":
                last_fetch = sg.item
            elif sg.kind == "payload":
                sg.item = last_fetch
                seq.append(sg)
            elif sg.kind in ("header", "separator", "footer", "stray"):
                seq.append(sg)
        kinds = "".join({"header": "H", "payload": "P", "separator": "S", "footer": "F", "stray": "?"}[sg.kind] for sg in seq)
        shapes.add((kinds, tuple(1 if sg.kind == "chunk" else 0 for sg in segs if sg.kind != "fetch")))
        want = r"HP*SP*F" if kind == "delta" else r"HP*F"
        if re.fullmatch(want, kinds) is None:
            viol("grammar", "%s writes its pieces in the order %s (H header, P item, S separator, F footer)" % (ty, kinds), p)
            continue
        # number of items and their actions on this run
        mdl = E.model(p.cond)
        nn = mdl.eval(n_items, True).as_long()
        acts = [mdl.eval(a, True).as_long() for a in act[:nn]]
        fixed = not E.feasible(p.cond, z3.Or([n_items != nn] + ([a != v for a, v in zip(act, acts)] if kind == "delta" else [])))
        lists = kinds[1:-1].split("S") if kind == "delta" else [kinds[1:-1]]
        items = [sg for sg in seq if sg.kind == "payload"]
        k = 0
        for li, lst in enumerate(lists):
            want_items = [i for i in range(nn) if (kind != "delta" or acts[i] == li)]
            got = [items[k + j].item for j in range(len(lst))]
            if fixed and got != want_items:
                viol("items", "%s lists items %s in its %s list for a change set with actions %s (0 announce, 1 withdraw)"
                     % (ty, got, ["announced", "withdrawn"][li] if kind == "delta" else "payload", acts), p, mdl)
            for j in range(len(lst)):
                sg = items[k + j]
                comma = bool(sg.writes) and sg.writes[0].what == "push" and sg.writes[0].first == 0x2c
                if not comma and sg.writes and sg.writes[0].first == 0x2c:
                    comma = True
                if comma != (j > 0):
                    where = "after a chunk boundary" if any(True for _ in ()) else ""
                    viol("comma", "%s writes item %d of a list %s a separating comma (%s): the concatenated chunks are not "
                         "valid JSON" % (ty, j, "with" if comma else "without",
                                         "a comma directly behind the opening bracket" if comma else "two items without a comma"), p, mdl)
            k += len(lst)
        chunks = [sg for sg in segs if sg.kind == "chunk"]
        if segs and segs[-1].kind != "chunk":
            viol("tail-lost", "%s writes output after its last chunk was returned" % ty, p)
        if not skeleton_checked and all(len(sg.writes) >= 1 for sg in seq if sg.kind in ("header", "separator", "footer")):
            skeleton_checked = True
            sk = b"".join(getattr(w, "skeleton", b"") if w.what == "fmt" else b"" for sg in seq if sg.kind != "payload" for w in sg.writes)
            foot = [sg for sg in seq if sg.kind == "footer"][0]
            if all(w.what != "fmt" for w in foot.writes):
                sk += b"\n  ]\n}\n" if False else b""
            res.extra.setdefault("stream_skeletons", {})[kind] = sk.decode("utf-8", "replace")[:400]
    res.samples.append({"stream": kind, "byte_level_runs": len(finished), "distinct_piece_and_chunk_patterns": len(shapes), "max_items": N})
    if len(finished) < 4:
        res.inconclusive.append("vacuity: %s byte-level run finished only %d runs" % (ty, len(finished)))
    mprop.finish_engine(res, E)
    return len(shapes)


_STREAM_NATIVE = {}


def native_stream(res):
    """Native sweep: the real DeltaStream / SnapshotStream with the end of the announced list moved byte by byte
    across the 64000-byte limit; the concatenated chunks must parse and list exactly the change set."""
    if "r" not in _STREAM_NATIVE:
        import nativetest
        failed, passed, out = nativetest.run_native_test("native_c18", "c18_native_chunk_sweep")
        obs = re.findall(r"C18-NATIVE (.*)", out)
        res.extra.setdefault("native_replays", []).append({"test": "c18_native_chunk_sweep", "failed": failed, "observed": obs[:4] or [out[-300:]]})
        _STREAM_NATIVE["r"] = True if failed else (False if passed else None)
    return _STREAM_NATIVE["r"]
