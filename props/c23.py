"""C23 A crash at any point never corrupts the store or blocks later runs (M extraction + z3 crash-point model)."""
import json
import os
import re

import z3

import mir
import mprop
from gating import disc_of, must, is_ok, is_err

CREATE = r"((^|::)create_file|File::create|fs::File::create)$"
WRITE = r"(StoredStatus::write|StoredPointHeader::write|StoredManifest::write|StoredObject::write|write_all|fs::write|(^|::)write_file)$"
RENAME = r"(NamedTempFile::persist|fs::rename|persist)$"
TMP = r"(Store::tmp_file|NamedTempFile::new|tempfile)$"
REMOVE = r"((^|::)remove_file|fs::remove_file)$"


def origin_ident(p, val):
    """Identity of the place a path argument was derived from: Deref / AsRef results are traced back through the
    engine's memo of pure pointer functions to the reference they were computed from."""
    cur = mir._ident(val)
    for _ in range(4):
        leaf = val.get(())
        if not isinstance(leaf, mir.Opq):
            break
        src = None
        for k, v in p.memo.items():
            if isinstance(k, tuple) and len(k) == 2 and k[0] == "deref" and isinstance(v, dict) and v.get(()) is leaf:
                src = k[1]
                break
        if src is None:
            break
        cur = src
        # the source identity is itself the identity of a value; stop when it is not an opaque deref result
        nxt = None
        for k, v in p.memo.items():
            if isinstance(k, tuple) and len(k) == 2 and k[0] == "deref" and mir._ident(v) == src:
                nxt = v
                break
        if nxt is None:
            break
        val = nxt
    return cur


def writer_ops(E, body, inline=()):
    """Longest successful path's file operations: list of ('create'|'write'|'rename'|'tmp')."""
    paths = E.explore(body, max_visits=2, nomut=[r"."], inline=list(inline))
    best = None
    best_score = None
    for p in paths:
        if p.kind != "return":
            continue
        ops = []
        for e in p.events:
            if e.kind != "call":
                continue
            if re.search(TMP, e.name):
                ops.append("tmp")
            elif re.search(CREATE, e.name):
                ops.append("create")
            elif re.search(RENAME, e.name):
                ops.append("rename")
            elif re.search(WRITE, e.name):
                ops.append("write_all" if re.search(r"(fs::write|(^|::)write_file)$", e.name) else "write")
            elif re.search(REMOVE, e.name):
                ops.append(("remove", origin_ident(p, e.args[0]) if e.args else None))
        # an unlink counts when it hits the path the new version is later renamed to (or an unknown path)
        target = None
        for e in p.events:
            if e.kind == "call" and re.search(RENAME, e.name) and e.args:
                target = origin_ident(p, e.args[-1])
        ops = [("remove" if (o[1] is None or target is None or o[1] == target) else None) if isinstance(o, tuple) else o for o in ops]
        ops = [o for o in ops if o is not None]
        score = (1 if "rename" in ops else 0, len(ops))
        if best is None or score > best_score:
            best, best_score = ops, score
    return best or []


def crash_states(ops):
    """z3 model of the visible file after a crash at a symbolic point k of the operation list.
    Returns (k, state expr: 0 old, 1 partial (strict prefix incl. empty), 2 new, 3 missing), constraints."""
    k = z3.Int("crash_point")
    n = len(ops)
    cons = [k >= 0, k <= n]
    # walk the ops: in-place writers truncate at 'create'; temp-file writers only become visible at 'rename'
    uses_tmp = "tmp" in ops
    state = z3.IntVal(0)
    seen_create = False
    for i, op in enumerate(ops):
        done = k > i          # operation i completed before the crash
        if uses_tmp:
            if op == "rename":
                state = z3.If(done, z3.IntVal(2), state)
            elif op == "remove":
                state = z3.If(done, z3.IntVal(3), state)      # the visible file is gone until the rename
        else:
            if op == "create":
                state = z3.If(done, z3.IntVal(1), state)
                seen_create = True
            elif op == "write_all":
                # fs::write = create+truncate+write in one call: crashing inside it leaves a prefix
                state = z3.If(done, z3.IntVal(2), z3.If(k == i, z3.IntVal(-1), state))
            elif op == "write" and i == max(j for j, o in enumerate(ops) if o == "write"):
                state = z3.If(done, z3.IntVal(2), state)
    return k, state, cons


def run(res, tier):
    E = mprop.engine(res)
    res.extra.setdefault("source_files_sha256", {}).update(mprop.source_hashes(["src/store.rs", "src/utils/fatal.rs", "src/operation.rs", "src/engine.rs"]))
    total = 0
    writers = {
        "status file (store::Run::done)": (E.prog.find("src/store.rs", "Run", "done"), []),
        "stored point, update (StoredPoint::_update)": (E.prog.find("src/store.rs", "StoredPoint", "update"), [r"StoredPoint::_update$"]),
        "stored point, reject (StoredPoint::reject)": (E.prog.find("src/store.rs", "StoredPoint", "reject"), []),
        "stored point, create (StoredPoint::create)": (E.prog.find("src/store.rs", "StoredPoint", "create"), []),
        "trust anchor copy (store::Run::update_ta)": (E.prog.find("src/store.rs", "Run", "update_ta"), []),
    }
    wops = {}
    for name, (body, inl) in writers.items():
        ops = writer_ops(E, body, inl)
        wops[name] = ops
        res.functions.append("%s: file operations %s" % (name, ops))
        if not ops:
            res.inconclusive.append("no file operations extracted for " + name)
    res.extra["writer_file_ops"] = wops

    # ---- readers: what happens on a truncated (strict prefix) file ------------------------------------
    # Store::status -> Vrps::run
    sb = E.prog.find("src/store.rs", "Store", "status")
    status_partial_fatal = False
    for p in E.explore(sb, max_visits=2, nomut=[r"."]):
        if p.kind != "return":
            continue
        rd = [e for e in p.events if e.kind == "call" and re.search(r"StoredStatus::read$", e.name)]
        if not rd:
            continue
        d = p.ret.get(("disc",))
        perr = is_err(E, p, rd[-1])
        if perr is not None and must(E, p, perr) and d is not None:
            # non-fatal (EOF / format) parse error: is the caller told "error"?
            fatal_flag = [e for e in p.events if e.kind == "call" and re.search(r"ParseError::is_fatal$", e.name)]
            nonfatal = True
            if fatal_flag and mir.is_z(fatal_flag[-1].dest.get(())):
                nonfatal = E.feasible(p.cond, z3.Not(fatal_flag[-1].dest.get(())))
                cond_extra = z3.Not(fatal_flag[-1].dest.get(()))
            else:
                cond_extra = z3.BoolVal(True)
            if nonfatal and E.feasible(p.cond, z3.And(cond_extra, d == 1)):
                status_partial_fatal = True
                status_path = p
    res.functions.append("store::Store::status, engine::Engine::store_status, operation::Vrps::run (MIR): reaction to an unreadable status file")
    vb = E.prog.find("src/operation.rs", "Vrps", "run")
    vrps_fails = False
    for p in E.explore(vb, max_visits=2, nomut=[r"."]):
        ss = [e for e in p.events if e.kind == "call" and re.search(r"Engine::store_status$", e.name)]
        if ss and p.kind == "return":
            perr = is_err(E, p, ss[-1])
            if perr is not None and must(E, p, perr) and not p.has(r"ValidationReport::process$"):
                vrps_fails = True
    # stored point header: truncated header -> recreated?
    ob = E.prog.find("src/store.rs", "StoredPoint", "open")
    open_partial = {"recreate": 0, "fatal": 0}
    for p in E.explore(ob, max_visits=2, nomut=[r"."]):
        if p.kind != "return":
            continue
        rd = [e for e in p.events if e.kind == "call" and re.search(r"StoredPointHeader::read$", e.name)]
        if not rd:
            continue
        perr = is_err(E, p, rd[-1])
        if perr is None or not must(E, p, perr):
            continue
        fatal_flag = [e for e in p.events if e.kind == "call" and re.search(r"ParseError::is_fatal$", e.name)]
        if fatal_flag and mir.is_z(fatal_flag[-1].dest.get(())) and must(E, p, fatal_flag[-1].dest.get(())):
            continue    # a real I/O error, not a truncated file
        if p.has(r"StoredPoint::create$"):
            open_partial["recreate"] += 1
        else:
            open_partial["fatal"] += 1
    # TA copy: undecodable stored certificate is treated as absent
    res.extra["reader_reactions"] = {"status_truncated_is_error": status_partial_fatal, "vrps_update_after_fails_on_status_error": vrps_fails,
                                     "stored_point_truncated_header": open_partial}

    # ---- crash-point queries ------------------------------------------------------------------------------
    def query(name, ops, partial_is_fatal, what):
        nonlocal total
        k, state, cons = crash_states(ops)
        s = z3.Solver()
        s.add(cons)
        s.add(z3.Or(state == 1, state == -1))      # a truncated file is what the next start sees
        total += 1
        res.evaluations += 1
        if s.check() == z3.sat and partial_is_fatal:
            kk = s.model().eval(k, model_completion=True).as_long()
            d = os.path.join(mprop.VERIF, "replays", res.prop)
            os.makedirs(d, exist_ok=True)
            fn = os.path.join(d, re.sub(r"\W+", "_", name)[:40] + ".crash.json")
            with open(fn, "w") as f:
                json.dump({"property": res.prop, "file": name, "operations": ops, "crash_after_operation_index": kk - 1,
                           "left_on_disk": "strict prefix of the new content (possibly empty)", "what": what}, f, indent=1)
            return fn
        res.samples.append({"file": name, "operations": ops, "truncated_state_reachable": s.check() == z3.sat,
                            "truncated_is_fatal_for_next_start": partial_is_fatal})
        return None

    fn = query("status file (store::Run::done)", wops["status file (store::Run::done)"],
               status_partial_fatal and vrps_fails,
               "kill between creating (truncating) status.bin and completing the write: Store::status reports an error and "
               "`vrps --update-after` fails on every later start until a full run rewrites the file")
    if fn:
        ok, note = native_replay(res)
        if ok is False:
            res.inconclusive.append("status-file crash state did not reproduce natively: " + note)
        else:
            res.violation("crash:status-file-truncated-blocks-update-after",
                          "a crash while the store status file is rewritten leaves a truncated file that makes "
                          "`vrps --update-after` fail on every later start%s" % ("; reproduced natively" if ok else ""), fn)
    for nm in ("stored point, reject (StoredPoint::reject)", "stored point, create (StoredPoint::create)"):
        fn = query(nm, wops[nm], open_partial["fatal"] > 0,
                   "a truncated stored-point header is treated as a fatal error by StoredPoint::open")
        if fn:
            res.violation("crash:stored-point-header-truncated-is-fatal", "a stored point truncated by a crash makes the next run fail", fn)
    fn = query("stored point, update (StoredPoint::_update)", wops["stored point, update (StoredPoint::_update)"], True,
               "the stored point is visible in a partially written state")
    if fn:
        res.violation("crash:stored-point-update-not-atomic", "a crash during a publication point update leaves a partially written stored point", fn)
    # the recovery path: a leftover (empty / partial) stored-point file is replaced by StoredPoint::create, which
    # therefore must open the file in create-or-truncate mode; create_new would fail on the leftover file and the
    # point could never be stored again
    if open_partial["recreate"] > 0:
        cb = E.prog.find("src/store.rs", "StoredPoint", "create")
        total += 1
        for i, p in enumerate(E.explore(cb, max_visits=2, nomut=[r"."])):
            if p.kind != "return":
                continue
            cn = [e for e in p.events if e.kind == "call" and re.search(r"OpenOptions::create_new$", e.name)]
            excl = False
            for e in cn:
                v = e.args[-1].get(()) if e.args else None
                if not mir.is_z(v) or E.feasible(p.cond, v):
                    excl = True
            opened = [e for e in p.events if e.kind == "call" and re.search(r"File::create$|(^|::)create_file$|OpenOptions::open$", e.name)]
            if excl and opened:
                d = os.path.join(mprop.VERIF, "replays", res.prop)
                os.makedirs(d, exist_ok=True)
                fn = mprop.write_cex(res, "create_exclusive_%d" % i, p, E,
                                     "StoredPoint::create opens the point file with create_new(true): after a crash that left an empty "
                                     "or partial file, StoredPoint::open's recovery (discard and recreate) fails with 'File exists' on "
                                     "every later run")
                res.violation("crash:stored-point-recreate-fails-on-leftover-file",
                              "a stored-point file left empty or partial by a crash can never be replaced: StoredPoint::create "
                              "refuses to overwrite an existing file (create_new), so every later run fails at that point", fn)
                break
    # a stored point must never be missing after a crash: old or new version (StoredPoint::open would silently start an
    # empty, never-successful point and the previous version of the whole subtree is lost)
    for nm in ("stored point, update (StoredPoint::_update)", "stored point, reject (StoredPoint::reject)"):
        k, state, cons = crash_states(wops[nm])
        sv = z3.Solver()
        sv.add(cons)
        sv.add(state == 3)
        total += 1
        res.evaluations += 1
        if sv.check() == z3.sat:
            kk = sv.model().eval(k, model_completion=True).as_long()
            d = os.path.join(mprop.VERIF, "replays", res.prop)
            os.makedirs(d, exist_ok=True)
            fn = os.path.join(d, re.sub(r"\W+", "_", nm)[:40] + ".missing.crash.json")
            with open(fn, "w") as f:
                json.dump({"property": res.prop, "file": nm, "operations": wops[nm], "crash_after_operation_index": kk - 1,
                           "left_on_disk": "no file at the stored point's path (unlinked, new version not yet renamed into place)"}, f, indent=1)
            res.violation("crash:stored-point-missing-after-crash",
                          "%s unlinks the stored point before the new version is renamed into place: a crash in between "
                          "leaves neither the previous nor the new version (operations %s)" % (nm, wops[nm]), fn)
    ta_ops = wops["trust anchor copy (store::Run::update_ta)"]
    query("trust anchor copy (store::Run::update_ta)", ta_ops, False, "")
    res.distinct += total + 3
    res.bounds.append("crash point: any position in the extracted file-operation list of each writer; the file visible to the "
                      "next start is old / strict prefix / new according to: create truncates, writes land in order, "
                      "persist (rename) is atomic, an unlink of the rename target makes the file absent until the rename")
    res.assumptions += ["file-system axioms as stated; directory operations and cleanup are outside",
                        "a truncated trust-anchor copy fails to decode and is treated as absent (engine::Run::load_ta, C10)",
                        "a truncated stored-point file is discarded and recreated when its header does not parse (checked on the MIR of StoredPoint::open)"]
    res.outside += ["equality of the produced data set with an uninterrupted run (needs whole runs); RRDP archives (C24)"]
    res.rule = ("one case = one (writer, reader) pair: z3 decides whether some crash point leaves a state the reader turns "
                "into a failure of the next start; writer operation lists and reader reactions are extracted from MIR")
    check_tmp_location(res, E)
    mprop.finish_engine(res, E)

def _const_strs(path):
    import os
    import vcommon
    src = open(os.path.join(vcommon.REPO, path)).read()
    return dict(re.findall(r"const (\w+): &(?:'static )?str = \"([^\"]*)\";", src))


def _join_const(p, leaf, consts):
    """name of the directory a PathBuf was built with: the constant of the Path::join that produced it, else None"""
    src = p.mem.get(leaf.loc) if isinstance(leaf, mir.Ref) else leaf
    seen = 0
    while isinstance(src, mir.Opq) and seen < 6:
        seen += 1
        for e in p.events:
            if e.kind == "call" and isinstance(e.dest.get(()), mir.Opq) and e.dest.get(()).id == src.id:
                if re.search(r"Path(Buf)?::join$", e.name) and len(e.args) > 1:
                    a = e.args[1].get(())
                    if isinstance(a, mir.Str):
                        return a.s.strip('"')
                    if isinstance(a, mir.Opq):
                        m = re.search(r"const .*::(\w+)$", a.origin or "")
                        return consts.get(m.group(1)) if m else None
                    return None
                return None
        # through a deref of a local
        nxt = None
        for k, v in p.memo.items():
            if isinstance(k, tuple) and k and k[0] == "deref" and isinstance(v.get(()), mir.Opq) and v.get(()).id == src.id:
                for part in k[1]:
                    if len(part) >= 3 and part[1] == "o":
                        nxt = mir.Opq.registry.get(part[2])
                    elif len(part) >= 3 and part[1] == "r":
                        nxt = p.mem.get(part[2])
        src = nxt
    return None


def check_tmp_location(res, E):
    """Unfinished update data lives only where a later start sweeps it and never looks for publication points:
    Store::tmp_file creates its file in <store>/TMP and store::Run::cleanup_tmp sweeps the same <store>/TMP."""
    import nativetest
    consts = _const_strs("src/store.rs")
    made, swept = set(), set()
    n = 0
    body = E.prog.find("src/store.rs", "Store", "tmp_file")
    for p in E.explore(body, max_visits=2, nomut=[r"."]):
        for e in p.events:
            if e.kind == "call" and re.search(r"NamedTempFile::new_in$|tempfile::.*new_in$|Builder::tempfile_in$", e.name) and e.args:
                n += 1
                made.add(_join_const(p, e.args[0].get(()), consts))
    body = E.prog.find("src/store.rs", "Run", "cleanup_tmp")
    for p in E.explore(body, max_visits=2, nomut=[r"."]):
        for e in p.events:
            if e.kind == "call" and re.search(r"cleanup_dir_tree$", e.name) and e.args:
                n += 1
                swept.add(_join_const(p, e.args[0].get(()), consts))
    body = E.prog.find("src/store.rs", "StoredPoint", "update")
    direct = 0
    for p in E.explore(body, max_visits=2, nomut=[r"."]):
        if p.kind != "return":
            continue
        upd = [e for e in p.events if e.kind == "call" and re.search(r"StoredPoint::_update$", e.name)]
        tmpf = [e for e in p.events if e.kind == "call" and re.search(r"Store::tmp_file$", e.name)]
        if upd:
            n += 1
            if not tmpf:
                direct += 1
    res.functions.append("routinator::store::{Store::tmp_file, Run::cleanup_tmp, StoredPoint::update} (MIR): where unfinished data is written / swept")
    res.samples.append({"tmp_file_directory": sorted(map(str, made)), "swept_directory": sorted(map(str, swept)), "store_constants": consts})
    res.distinct += n
    repos = {v for k, v in consts.items() if re.search(r"RRDP|RSYNC", k)}
    problem = None
    if not made or not swept:
        res.inconclusive.append("tmp location: temp-file creation (%d) or sweep (%d) not found" % (len(made), len(swept)))
        return
    if None in made or made != swept:
        problem = "temporary files are created in %s but the start of a run sweeps %s" % (sorted(map(str, made)), sorted(map(str, swept)))
    elif made & repos or any(m and any(r.startswith(m + "/") or r == m for r in repos) for m in made):
        problem = "temporary files are created inside a repository tree (%s)" % sorted(made)
    elif direct:
        problem = "StoredPoint::update does not take its temporary file from Store::tmp_file"
    if problem:
        failed, passed, out = nativetest.run_native_test("native_c23_tmp", "c23_native_tmp_file_location")
        m = re.search(r"C23-NATIVE-TMP (.*)", out)
        res.evaluations += 1
        fn = mprop.write_cex(res, "tmp_location", mir.Path(mir.State(), {}, "static"), E, problem + "\n\nnative replay: " + (m.group(1) if m else out[-1500:]))
        if failed:
            res.violation("mir:store:unfinished-data-outside-tmp", problem + ": a kill during an update leaves a partial file that is never swept and is "
                          "scanned as a publication point by cleanup and dump; reproduced natively (%s)" % (m.group(1) if m else "test failed"), fn)
        elif passed:
            res.inconclusive.append("tmp location: %s - not reproduced natively" % problem)
        else:
            res.inconclusive.append("tmp location: %s - native replay could not be built" % problem)


def native_replay(res):
    import nativetest
    failed, passed, out = nativetest.run_native_test("native_c23", "c23_native")
    m = re.search(r"C23-NATIVE (.*)", out)
    res.extra.setdefault("native_replays", []).append({"test": "c23_native_truncated_status", "failed": failed, "observed": m.group(1) if m else None})
    if failed:
        return True, m.group(1) if m else ""
    if passed:
        return False, m.group(1) if m else ""
    return None, "could not build/run: " + out[-300:]
