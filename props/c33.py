"""C33 A failed run never changes the served data (M engine)."""
import re

import z3

import mir
import mprop

MUTATORS = r"(SharedHistory::update$|SharedHistory::mark_update_done$|NotifySender::notify$|" \
           r"PayloadHistory::(push_delta|update|set_current)|SharedHistory::write$)"


def check_task_failures_marked(res, E):
    """Run::process decides success by the had_err flag alone: every worker task (process_tal_task,
    process_ca_task) that ends with Err(Failed) must have marked the run failed - through run_failed, by having
    seen had_err set, or by passing on the failure of a nested process_ca_task (induction)."""
    from gating import is_err, must
    n = 0
    for fn_ in ("process_tal_task", "process_ca_task"):
        body = E.prog.find("src/engine.rs", "Run", fn_)
        E.inline_map_err = True
        try:
            paths = E.explore(body, max_visits=2, nomut=[r"."])
        finally:
            E.inline_map_err = False
        res.functions.append("routinator::engine::Run::%s (MIR, %d blocks): failed tasks mark the run failed" % (fn_, len(body.blocks)))
        for i, p in enumerate(paths):
            if p.kind != "return":
                continue
            d = p.ret.get(("disc",))
            if d is None or not must(E, p, d == 1):
                continue
            n += 1
            calls = [e for e in p.events if e.kind == "call"]
            marked = any(re.search(r"Run::<.*>::run_failed$|Run::run_failed$|(^|::)run_failed$", e.name) for e in calls)
            # had_err observed set
            for e in calls:
                if re.search(r"Atomic(Bool)?(<bool>)?::load$", e.name):
                    v = e.dest.get(()) if e.dest else None
                    if mir.is_z(v) and must(E, p, v):
                        marked = True
            # the failure is the one of a nested task (which marked it, by induction over the task tree)
            failing = [e for e in calls if re.search(r"Result<", (e.dest.get(()).ty if e.dest and isinstance(e.dest.get(()), mir.Opq) else ""))
                       and is_err(E, p, e) is not None and must(E, p, is_err(E, p, e))]
            if failing and re.search(r"process_(ca|tal)_task$", failing[-1].name):
                marked = True
            if not marked:
                src = failing[-1].name if failing else "an unknown source"
                key = "mir:task-failure-not-marked:%s:%s" % (fn_, src.split("::")[-1])
                if any(v["key"] == key for v in res.violations):
                    continue
                ok, note = native_unmarked(res)
                fn = mprop.write_cex(res, "unmarked_failure_%s_%d" % (fn_, i), p, E,
                                     "Run::%s returns Err(Failed) after %s failed, without run_failed(): the worker thread stops, "
                                     "had_err stays false and Run::process reports success. %s" % (fn_, src, note))
                if ok is False:
                    res.inconclusive.append("unmarked task failure (%s after %s) not reproduced natively" % (fn_, src))
                else:
                    res.violation(key, "a validation task that fails (%s in %s) does not mark the run as failed: the run is "
                                  "reported successful and its partial result replaces the served data%s"
                                  % (src, fn_, "; reproduced natively" if ok else ""), fn)
    res.distinct += n
    if n < 3:
        res.inconclusive.append("vacuity: only %d failing task paths" % n)


def check_failure_flags(res, E):
    """Run::run_failed and the decision at the end of Run::process, joined through the two flags: from any flag
    state, after run_failed(err) for any err, no path of process that went through the worker scope returns Ok."""
    rf = mir.struct_fields("Run", "src/engine.rs")
    selfp = mir.Opq("&engine::Run", "self")
    h, f = z3.Bool("flag_had_err"), z3.Bool("flag_is_fatal")

    def fld(a):
        if isinstance(a, mir.Ref) and len(a.loc) >= 3 and a.loc[0] == ("o", selfp.id) and a.loc[2][0] == "f":
            return rf[a.loc[2][1]]
        return None

    def m_load(E_, st, frame, callee, argvals, dest_ty):
        st.events.append(mir.Event("Atomic::load", argvals, None, ("", ""), "call", callee))
        k = fld(argvals[0].get(()))
        if k == "had_err":
            return {(): st.mem.get(("FLAG", "h"), h)}
        if k == "is_fatal":
            return {(): st.mem.get(("FLAG", "f"), f)}
        return {(): mir.Opq("bool", "load")}

    def m_store(E_, st, frame, callee, argvals, dest_ty):
        st.events.append(mir.Event("Atomic::store", argvals, None, ("", ""), "call", callee))
        k = fld(argvals[0].get(()))
        v = argvals[1].get(())
        if k in ("had_err", "is_fatal"):
            st.mem[("FLAG", "h" if k == "had_err" else "f")] = v if mir.is_z(v) else z3.BoolVal(bool(v))
        return {(): mir.Str("()")}
    models = {r"Atomic.*::load$": m_load, r"Atomic.*::store$": m_store}
    body = E.prog.find("src/engine.rs", "Run", "run_failed")
    marks = []
    for p in E.explore(body, max_visits=2, nomut=[r"."], arg_values={"_1": {(): selfp}}, models=models):
        if p.kind == "return":
            marks.append((p, p.mem.get(("FLAG", "h"), h), p.mem.get(("FLAG", "f"), f)))
    body = E.prog.find("src/engine.rs", "Run", "process")
    res.functions.append("routinator::engine::Run::{run_failed, process} (MIR) joined through had_err / is_fatal")
    n = 0
    bad = None
    for i, p in enumerate(E.explore(body, max_visits=2, nomut=[r"."], arg_values={"_1": {(): selfp}}, models=models, max_paths=3000)):
        if p.kind != "return" or not any(e.kind == "call" and re.search(r"(^|::)scope$", e.name) for e in p.events):
            continue
        d = p.ret.get(("disc",))
        if d is None:
            res.inconclusive.append("Run::process path %d: result not a known Ok/Err" % i)
            continue
        for (mp, h1, f1) in marks:
            n += 1
            cond = [z3.substitute(c, (h, h1), (f, f1)) for c in p.cond] + list(mp.cond)
            m = E.model(cond, d == 0) if mir.is_z(d) else (E.model(cond, z3.BoolVal(True)) if d == 0 else None)
            if m is not None and bad is None:
                bad = (i, p, "after run_failed(%s) from flags (had_err=%s, is_fatal=%s) Run::process returns Ok" % (
                    "fatal" if any("is_fatal" in str(c) and not str(c).startswith("Not") for c in mp.cond) else "retry",
                    m.eval(h, model_completion=True), m.eval(f, model_completion=True)))
    res.distinct += n
    res.samples.append({"failure_flag_obligations": n, "run_failed_paths": len(marks)})
    if not n:
        res.inconclusive.append("vacuity: no Run::process path through the worker scope / no run_failed path")
    if bad:
        i, p, what = bad
        ok, note = native_unmarked(res)
        fn = mprop.write_cex(res, "failure_flag_lost_%d" % i, p, E, what + "\n" + note)
        if ok is False:
            res.inconclusive.append("failure flags: %s - not reproduced natively" % what)
        else:
            res.violation("mir:failure-flag-lost", "a run in which a task marked a failure is reported as successful (its result is then published): %s%s"
                          % (what, ("; " + note) if ok else ""), fn)


_NATIVE = {}


def native_unmarked(res):
    if "r" not in _NATIVE:
        import nativetest
        failed, passed, out = nativetest.run_native_test("native_c33", "c33_native")
        obs = re.findall(r"C33-NATIVE (.*)", out)
        res.extra.setdefault("native_replays", []).append({"test": "c33_native_*", "failed": failed, "observed": obs[:3] or [out[-300:]]})
        bad = [o for o in obs if "SUCCESS" in o]
        _NATIVE["r"] = (True, "Native replay: " + "; ".join(bad or obs)) if failed else ((False, "native tests passed") if passed else (None, "native replay unavailable"))
    return _NATIVE["r"]


def run(res, tier):
    E = mprop.engine(res)
    res.extra.setdefault("source_files_sha256", {}).update(
        mprop.source_hashes(["src/operation.rs", "src/payload/history.rs"]))
    body = E.prog.find("src/operation.rs", "Server", "process_once")
    res.functions.append("routinator::operation::Server::process_once (MIR, %d blocks)" % len(body.blocks))
    paths = E.explore(body, max_visits=2, log_enabled=True)
    n_fail = n_ok = 0
    for n, p in enumerate(paths):
        i = p.index(r"ValidationReport::process$")
        if i < 0:
            # no run at all on this path: nothing may be installed either
            bad = [e.name for e in p.events if e.kind == "call" and re.search(MUTATORS, e.name)]
            if bad and p.kind == "return":
                fn = mprop.write_cex(res, "install_without_run_%d" % n, p, E, "history mutated without a validation run: %s" % bad)
                res.violation("mir:install-without-run", "served data changed on a path without a validation run", fn)
            continue
        ev = p.events[i]
        leaf = ev.dest.get(())
        d = mir.peek(E, p.mem, (("o", leaf.id), "disc")) if isinstance(leaf, mir.Opq) else ev.dest.get(("disc",))
        failed = d is not None and not E.feasible(p.cond, d == 0)
        succeeded = d is not None and not E.feasible(p.cond, d == 1)
        muts = [e.name for e in p.events if e.kind == "call" and re.search(MUTATORS, e.name)]
        before = [e.name for e in p.events[:i] if e.kind == "call" and re.search(MUTATORS, e.name)]
        if len(res.samples) < 8:
            res.samples.append({"run": "failed" if failed else "ok" if succeeded else "?",
                                "history_mutations": [m.split("::")[-1] for m in muts], "kind": p.kind})
        if before:
            fn = mprop.write_cex(res, "mutation_before_run_%d" % n, p, E,
                                 "history mutated before the validation run's outcome is known: %s" % before)
            res.violation("mir:mutation-before-outcome", "served data changed before the run's outcome is known", fn)
        if failed:
            n_fail += 1
            if muts:
                fn = mprop.write_cex(res, "failed_run_mutates_%d" % n, p, E,
                                     "ValidationReport::process returned Err and then %s is called" % muts)
                res.violation("mir:failed-run-mutates-history",
                              "a failed validation run is followed by %s" % ", ".join(m.split("::")[-1] for m in muts), fn)
            d0 = p.ret.get(("disc",))
            if p.kind == "return" and d0 is not None and E.feasible(p.cond, d0 == 0):
                fn = mprop.write_cex(res, "failed_run_reported_ok_%d" % n, p, E, "process_once returns Ok after a failed run")
                res.violation("mir:failed-run-reported-ok", "process_once returns Ok(()) although the run failed", fn)
        elif succeeded:
            n_ok += 1
            # liveness half (guards against a vacuous pass): a successful run installs its result
            if p.kind == "return" and not any(re.search(r"SharedHistory::update$", m) for m in muts):
                fn = mprop.write_cex(res, "ok_run_not_installed_%d" % n, p, E, "successful run not installed")
                res.violation("mir:ok-run-not-installed", "a successful run is not installed into the history", fn)
            # notify only if update reported a change
            upd = [e for e in p.events if e.kind == "call" and re.search(r"SharedHistory::update$", e.name)]
            noti = [e for e in p.events if e.kind == "call" and re.search(r"NotifySender::notify$", e.name)]
            if upd:
                flag = upd[0].dest.get(())
                if mir.is_z(flag):
                    if noti and E.feasible(p.cond, z3.Not(flag)):
                        fn = mprop.write_cex(res, "notify_without_change_%d" % n, p, E, "notify although update() returned false")
                        res.violation("mir:notify-without-change", "notification sent although the data set did not change", fn)
                    if not noti and p.kind == "return" and E.feasible(p.cond, flag):
                        fn = mprop.write_cex(res, "change_without_notify_%d" % n, p, E, "no notify although update() returned true")
                        res.violation("mir:change-without-notify", "data set changed but no notification sent", fn)
    # ---- what happens before the outcome is known: mark_update_start may only record the start time ----
    hist_fields = mir.struct_fields("PayloadHistory", "src/payload/history.rs")
    mb = E.prog.find("src/payload/history.rs", "SharedHistory", "mark_update_start")
    res.functions.append("routinator::payload::history::SharedHistory::mark_update_start (MIR, %d blocks)" % len(mb.blocks))
    mpaths = E.explore(mb, max_visits=2)
    ALLOWED_CALLS = r"(SharedHistory::write|Utc::now|DerefMut::deref_mut|Deref::deref)$"
    n_ms = 0
    for i, p in enumerate(mpaths):
        if p.kind != "return":
            continue
        n_ms += 1
        other = [e.name for e in p.events if e.kind == "call" and not re.search(ALLOWED_CALLS, e.name)]
        wr = []
        for loc, at in p.writes:
            fld = None
            for part in loc:
                if isinstance(part, tuple) and part[0] == "f":
                    fld = hist_fields[part[1]] if part[1] < len(hist_fields) else str(part[1])
                    break
            wr.append(fld)
        bad_w = [w for w in wr if w != "last_update_start"]
        if other or bad_w:
            fn = mprop.write_cex(res, "mark_update_start_%d" % i, p, E,
                                 "mark_update_start (called before the run's outcome is known) does more than record "
                                 "the start time: calls %s, writes %s" % (other, bad_w))
            res.violation("mir:mark-update-start-mutates-history",
                          "SharedHistory::mark_update_start, which also runs before a FAILED validation run, "
                          "touches served state (calls %s, writes %s)" % (other, bad_w), fn)
    if n_ms == 0:
        res.inconclusive.append("vacuity: mark_update_start has no returning path")
    res.distinct += n_fail + n_ok + n_ms
    res.extra["paths"] = len(paths)
    res.extra["paths_failed_run"] = n_fail
    res.extra["paths_ok_run"] = n_ok
    if n_fail == 0 or n_ok == 0:
        res.inconclusive.append("vacuity: failed-run paths=%d ok-run paths=%d" % (n_fail, n_ok))
    res.bounds.append("all paths of Server::process_once (loop-free); log-level tests are free booleans")
    res.assumptions += [
        "ValidationReport::process is opaque (Ok or Err); that a failing run does not itself touch the "
        "SharedHistory follows from its signature (it receives no history handle)",
        "the served data, serial, ETag inputs and notification state are only reachable through SharedHistory "
        "and NotifySender, whose mutating methods are the events checked",
    ]
    res.rule = ("one case = one feasible MIR path of process_once classified by the forced outcome of the validation "
                "run; assertion: no history-mutating or notifying event on a failed-run path; evaluations = z3 queries")
    check_task_failures_marked(res, E)
    check_failure_flags(res, E)
    mprop.finish_engine(res, E)
