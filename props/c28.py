"""C28 Every persisted record reads back as written (Kani scalar round trips + MIR write/read symmetry)."""
import re

import mir
import mprop
from kprop import run_kani_part

SPEC = {
    "groups": ["binio"],
    "files": ["src/utils/binio.rs", "src/store.rs", "src/collector/rrdp/archive.rs"],
    "harnesses": {
        "quick": ["c28_roundtrip_u8", "c28_roundtrip_u32", "c28_roundtrip_u64", "c28_roundtrip_i64",
                  "c28_opt_markers_distinct", "c28_roundtrip_serial"],
        "thorough": ["c28_roundtrip_uuid", "c28_roundtrip_hash"],
    },
    "harness_file": {"*": ("binio.rs", "src/utils/binio.rs")},
    "timeout": {"quick": 900, "thorough": 5000},
}

RECORDS = [
    ("src/store.rs", "StoredPointHeader", "write", "read"),
    ("src/store.rs", "UpdateStatus", "write", "read"),
    ("src/store.rs", "StoredManifest", "write", "read"),
    ("src/store.rs", "StoredObject", "write", "read"),
    ("src/store.rs", "StoredStatus", "write", "read"),
    ("src/collector/rrdp/archive.rs", "RepositoryState", "compose", "parse"),
]


def field_types(E, body, kind):
    """Longest returning path's sequence of composed / parsed field types (nested record calls included)."""
    paths = E.explore(body, max_visits=2, nomut=[r"."])
    best = None
    for p in paths:
        if p.kind != "return":
            continue
        d = p.ret.get(("disc",))
        seq = []
        for e in p.events:
            if e.kind != "call":
                continue
            m = re.match(r"^<(.*) as (?:\w+::)*(Compose|Parse)<.*>>::(compose|parse)$", e.callee)
            if m:
                seq.append(re.sub(r"^(std::option::|std::collections::|bytes::|rpki::repository::x509::|rpki::uri::|rpki::rrdp::)", "", m.group(1)))
                continue
            m = re.search(r"(UpdateStatus|StoredManifest|StoredPointHeader)::(write|read)$", e.name)
            if m:
                seq.append("record:" + m.group(1))
                continue
            if re.search(r"(write_all|read_exact)$", e.name):
                seq.append("raw-bytes")
        if best is None or len(seq) > len(best):
            best = seq
    return best or [], len(paths)


def run(res, tier):
    res.functions += ["utils::binio Compose/Parse for u8, u32, u64, i64, x509::Serial (quick), Uuid, rrdp::Hash (thorough): Kani round trip through a fixed stack buffer"]
    res.bounds += ["scalar encodings: every value of the full width is symbolic; the reader must return the value and be left empty",
                   "container parsers (HashMap): the item loop's range is 0..decoded length, for every 64-bit length",
                   "records: the sequence of field encodings written by write()/compose() must equal, type by type, the "
                   "sequence read by read()/parse() on their longest paths"]
    res.outside += ["Option<i64>: its parser's error arm builds an io::Error from a string, whose drop glue exhausts CBMC's "
                    "memory cap (14 GB) - the harness exists (c28_roundtrip_opt_i64) but is not part of a tier",
                    "byte-level round trips of URIs, Bytes, Time and the delta-state HashMap (heap buffers / chrono "
                    "division under CBMC: out of reach within the time caps); their symmetry is covered type-by-type only",
                    "HashMap iteration order does not matter for equality of the parsed map"]
    res.rule = ("K: one case = one Kani round-trip harness; M: one case = one record type whose write and read field "
                "sequences are extracted from MIR and compared")
    run_kani_part(res, SPEC, tier)
    E = mprop.engine(res)
    n = 0
    for f, ty, w, r in RECORDS:
        wb = E.prog.find(f, ty, w)
        rb = E.prog.find(f, ty, r)
        ws, _ = field_types(E, wb, "Compose")
        rs, _ = field_types(E, rb, "Parse")
        n += 1
        res.samples.append({"record": ty, "written": ws, "read": rs})
        res.functions.append("%s::{%s,%s} (MIR)" % (ty, w, r))
        if not ws or not rs:
            res.inconclusive.append("%s: could not extract field sequences (%d written, %d read)" % (ty, len(ws), len(rs)))
            continue
        if ws != rs:
            fn = mprop.write_cex(res, "asymmetric_%s" % ty, mir.Path(mir.State(), {}, "static"), E,
                                 "%s writes %s but reads %s" % (ty, ws, rs))
            res.violation("mir:record-asymmetry:" + ty, "%s: the fields read back (%s) differ in order or type from the fields written (%s)" % (ty, rs, ws), fn)
    n += check_counted_loops(res, E)
    n += check_time_codec(res, E)
    n += check_leaf_shapes(res, E)
    res.distinct += n
    mprop.finish_engine(res, E)


def check_time_codec(res, E):
    """Time and Option<Time> are stored as the i64 of DateTime::timestamp() and read back with
    Utc.timestamp_opt(v, 0): the value handed to the i64 writer must be exactly the result of timestamp() (or the
    i64::MIN sentinel for None), and the reader must hand exactly the parsed i64 with nanoseconds 0 to
    timestamp_opt - that pair is an inverse for every whole-second time; any arithmetic in between is not."""
    import z3
    from gating import must
    n = 0
    found = 0
    for name, bodies in E.prog.bodies.items():
        m = re.search(r"binio::<impl at src/utils/binio\.rs:[^>]*>::(compose|parse)$", name)
        if not m:
            continue
        for b in bodies:
            st_ = E.prog.self_type(name) or ""
            sig = (b.args[0][1] if b.args else "") + " " + (b.ret or "")
            if not re.search(r"x509::Time\b|\bTime\b", sig) or "HashMap" in sig:
                continue
            kind = m.group(1)
            paths = [p for p in E.explore(b.parse(), max_visits=2, nomut=[r"."]) if p.kind == "return"]
            found += 1
            res.functions.append("utils::binio %s for %s (MIR): value written / read is the timestamp itself" % (kind, sig.strip()[:60]))
            for i, p in enumerate(paths):
                calls = [e for e in p.events if e.kind in ("call", "pure")]
                if kind == "compose":
                    wr = [e for e in calls if re.search(r"<i64 as (binio::)?Compose<W>>::compose$", e.callee or "")]
                    ts = [e for e in calls if re.search(r"DateTime::<.*>::timestamp$|DateTime::timestamp$", e.name)]
                    for e in wr:
                        n += 1
                        leaf = e.args[0].get(())
                        val = mir.peek(E, p.mem, leaf.loc) if isinstance(leaf, mir.Ref) else leaf
                        good = any(t.dest and t.dest.get(()) is val for t in ts)
                        if not good and isinstance(val, mir.Opq) and re.search(r"i64>::MIN$", val.origin or "") and not ts:
                            good = True        # Option<Time>::None is stored as the i64::MIN sentinel
                        if not good and mir.is_z(val):
                            # the None sentinel of Option<Time>: i64::MIN
                            good = must(E, p, val == z3.BitVecVal(1 << 63, 64)) or any(
                                mir.is_z(t.dest.get(())) and must(E, p, val == t.dest.get(())) for t in ts if t.dest)
                        if not good and not any(v_["key"] == "mir:time-codec:compose" for v_ in res.violations):
                            ok = native_time_roundtrip(res)
                            fn = mprop.write_cex(res, "time_compose_%d" % i, p, E,
                                                 "the i64 written for a Time is %s, not the result of timestamp()" % (str(val)[:200],))
                            if ok is False:
                                res.inconclusive.append("Time codec: written value is not timestamp() but the native round trip passes")
                            else:
                                res.violation("mir:time-codec:compose",
                                              "a Time is not stored as its own timestamp() (value written: %s): times do not read back as "
                                              "written%s" % (str(val)[:120], "; reproduced natively" if ok else ""), fn)
                else:
                    rd = [e for e in calls if re.search(r"<i64 as (binio::)?Parse<R>>::parse$", e.callee or "")]
                    mk = [e for e in calls if re.search(r"timestamp_opt$", e.name)]
                    for e in mk:
                        n += 1
                        secs, nanos = e.args[1].get(()), e.args[2].get(())
                        src = [mir.peek(E, p.mem, (("o", r.dest.get(()).id), ("v", "Ok"), ("f", 0))) for r in rd
                               if r.dest and isinstance(r.dest.get(()), mir.Opq)]
                        good = any(x is secs or (mir.is_z(x) and mir.is_z(secs) and must(E, p, x == secs)) for x in src) \
                            and mir.is_z(nanos) and must(E, p, nanos == 0)
                        if not good and not any(v_["key"] == "mir:time-codec:parse" for v_ in res.violations):
                            ok = native_time_roundtrip(res)
                            fn = mprop.write_cex(res, "time_parse_%d" % i, p, E,
                                                 "timestamp_opt is called with (%s, %s), not with (the parsed i64, 0)" % (str(secs)[:100], str(nanos)[:40]))
                            if ok is False:
                                res.inconclusive.append("Time codec: reader does not pass the parsed value on unchanged but the native round trip passes")
                            else:
                                res.violation("mir:time-codec:parse", "a stored Time is not rebuilt from exactly the stored seconds", fn)
    if found < 4:
        res.inconclusive.append("Time codec: only %d of the 4 Time / Option<Time> codec functions found" % found)
    return n


def native_time_roundtrip(res):
    """Real Time / Option<Time> round trips for whole-second times on both sides of the epoch."""
    if "time" in _NATIVE:
        return _NATIVE["time"]
    import os
    import nativetest
    from vcommon import VERIF
    src = """// generated by props/c28.py: native round trip of the Time codec
use super::*;
#[test]
fn c28_native_time_roundtrip() {
    let mut bad = Vec::new();
    for secs in [-2_000_000_000i64, -86_400, -1, 0, 1, 59, 1_000_000_000, 1_700_000_000, 4_102_444_800] {
        let t: Time = Utc.timestamp_opt(secs, 0).single().unwrap().into();
        let mut buf = Vec::new();
        t.compose(&mut buf).unwrap();
        let back = Time::parse(&mut &buf[..]).ok();
        let mut buf2 = Vec::new();
        Some(t).compose(&mut buf2).unwrap();
        let back2 = Option::<Time>::parse(&mut &buf2[..]).ok();
        if back != Some(t) || back2 != Some(Some(t)) { bad.push(secs) }
    }
    let mut buf = Vec::new();
    Option::<Time>::None.compose(&mut buf).unwrap();
    if Option::<Time>::parse(&mut &buf[..]).ok() != Some(None) { bad.push(i64::MIN) }
    println!("C28-NATIVE-TIME timestamps that do not read back as written: {:?}", bad);
    assert!(bad.is_empty(), "times that do not round-trip: {:?}", bad);
}
"""
    with open(os.path.join(VERIF, "native", "c28_generated.rs"), "w") as f:
        f.write(src)
    failed, passed, out = nativetest.run_native_test("native_c28", "c28_native_time_roundtrip")
    obs = re.findall(r"C28-NATIVE-TIME (.*)", out)
    res.extra.setdefault("native_replays", []).append({"test": "c28_native_time_roundtrip", "failed": failed, "observed": obs[:2] or [out[-300:]]})
    _NATIVE["time"] = True if failed else (False if passed else None)
    return _NATIVE["time"]

def native_blob_roundtrip(res):
    """Real round trips of the length-prefixed encodings (URIs, Bytes and their Option forms) at boundary lengths."""
    if "blob" in _NATIVE:
        return _NATIVE["blob"]
    import os
    import nativetest
    from vcommon import VERIF
    src = """// generated by props/c28.py: native round trip of the length-prefixed encodings
use super::*;
use std::str::FromStr;
fn rt<T: for<'a> Parse<&'a [u8]> + Compose<Vec<u8>> + PartialEq + std::fmt::Debug>(what: &str, v: &T, bad: &mut Vec<String>) {
    let mut buf = Vec::new();
    v.compose(&mut buf).unwrap();
    let mut rd = &buf[..];
    let back = T::parse(&mut rd);
    let same_text = match &back { Ok(b) => format!("{:?}", b) == format!("{:?}", v), Err(_) => false };
    if !(matches!(&back, Ok(b) if b == v) && same_text && rd.is_empty()) {
        bad.push(format!("{} ({} bytes encoded, {} left unread)", what, buf.len(), rd.len()));
    }
}
#[test]
fn c28_native_blob_roundtrip() {
    let mut bad = Vec::new();
    for n in [0usize, 1, 2, 127, 128, 255, 256, 257, 65535, 65536, 70000] {
        let b = Bytes::from((0..n).map(|i| (i * 7 + 3) as u8).collect::<Vec<u8>>());
        rt(&format!("Bytes of {} octets", n), &b, &mut bad);
        rt(&format!("Some(Bytes) of {} octets", n), &Some(b), &mut bad);
        let path: String = std::iter::repeat('a').take(n).collect();
        let r = uri::Rsync::from_str(&format!("rsync://example.net/module/{}", path)).unwrap();
        rt(&format!("rsync URI with a path of {} octets", n), &r, &mut bad);
        let r = uri::Rsync::from_str(&format!("rsync://Host.Example.NET/Mixed-Case_Module/Dir/{}.CER", path)).unwrap();
        rt(&format!("mixed-case rsync URI with a path of {} octets", n), &r, &mut bad);
        let h = uri::Https::from_str(&format!("https://Host.Example.NET/Dir/{}.XML", path)).unwrap();
        rt(&format!("mixed-case https URI with a path of {} octets", n), &h, &mut bad);
        let h = uri::Https::from_str(&format!("https://example.net/{}", path)).unwrap();
        rt(&format!("https URI with a path of {} octets", n), &h, &mut bad);
        rt(&format!("Some(https URI) with a path of {} octets", n), &Some(h), &mut bad);
    }
    rt("None::<Bytes>", &Option::<Bytes>::None, &mut bad);
    rt("None::<uri::Https>", &Option::<uri::Https>::None, &mut bad);
    println!("C28-NATIVE-BLOB values that do not read back as written: {:?}", bad);
    assert!(bad.is_empty(), "values that do not round-trip: {:?}", bad);
}
"""
    with open(os.path.join(VERIF, "native", "c28_generated.rs"), "w") as f:
        f.write(src)
    failed, passed, out = nativetest.run_native_test("native_c28", "c28_native_blob_roundtrip")
    obs = re.findall(r"C28-NATIVE-BLOB (.*)", out)
    res.extra.setdefault("native_replays", []).append({"test": "c28_native_blob_roundtrip", "failed": failed, "observed": obs[:2] or [out[-300:]]})
    _NATIVE["blob"] = (True if failed else (False if passed else None), (obs[:1] or [out[-400:]])[0])
    return _NATIVE["blob"]


def check_leaf_shapes(res, E):
    """Each leaf encoding in utils::binio: the set of sequences of integer encodings and raw byte runs that
    compose() writes on its successful paths equals the set parse() reads (e.g. {[u32, raw]} for a URI,
    {[u64], [u64, raw]} for Option<Bytes>); nested leaf encodings are expanded."""
    norm = lambda t: re.sub(r"std::option::|rpki::|bytes::|repository::x509::|chrono::|uuid::|rrdp::|uri::", "", t).strip()
    shapes = {}
    for name, bodies in E.prog.bodies.items():
        m = re.search(r"binio::<impl at src/utils/binio\.rs:[^>]*>::(compose|parse)$", name)
        if not m:
            continue
        kind = m.group(1)
        for b in bodies:
            arg = b.args[0][1] if b.args else ""
            ty = arg.lstrip("&").strip() if kind == "compose" else (re.match(r"Result<(.*), binio::ParseError>$", (b.ret or "").replace("std::result::", "")) or [None, ""])[1]
            ty = norm(ty)
            if not ty or "HashMap" in ty:
                continue
            seqs = set()
            for p in E.explore(b.parse(), max_visits=2, nomut=[r"."]):
                if p.kind != "return":
                    continue
                d = p.ret.get(("disc",))
                if d is not None and not E.feasible(p.cond, d == 0):
                    continue
                seq = []
                for e in p.events:
                    if e.kind != "call":
                        continue
                    mm = re.match(r"^<(.*) as (?:\w+::)*(Compose|Parse)<.*>>::(compose|parse)$", e.callee or "")
                    if mm:
                        seq.append(norm(mm.group(1).lstrip("&")))
                    elif re.search(r"(write_all|read_exact|read_vec)$", e.name):
                        seq.append("raw")
                seqs.add(tuple(seq))
            shapes.setdefault(ty, {})[kind] = seqs

    def expand(kind, seqs, depth=0):
        out = set()
        for seq in seqs:
            acc = {()}
            for el in seq:
                sub = shapes.get(el, {}).get(kind) if depth < 3 and el not in ("raw",) and not re.match(r"^[ui]\d+$", el) else None
                alts = expand(kind, sub, depth + 1) if sub else {(el,)}
                acc = {x + y for x in acc for y in alts}
            out |= acc
        return out
    n = 0
    for ty, sh in sorted(shapes.items()):
        if not sh.get("compose") or not sh.get("parse"):
            continue
        n += 1
        w, r = expand("compose", sh["compose"]), expand("parse", sh["parse"])
        show = lambda x: sorted(list(t) for t in x)
        res.extra.setdefault("leaf_shapes", {})[ty] = {"written": show(w), "read": show(r)}
        if w != r:
            verdict, obs = native_blob_roundtrip(res) if re.search(r"Bytes|Https|Rsync", ty) else (None, "")
            fn = mprop.write_cex(res, "leaf_shape_%s" % re.sub(r"\W+", "_", ty), mir.Path(mir.State(), {}, "static"), E,
                                 "%s is written as %s but read as %s\nnative round trip: %s" % (ty, show(w), show(r), obs))
            if verdict is False:
                res.inconclusive.append("leaf encoding %s: written %s, read %s, but the native round trip passed" % (ty, show(w), show(r)))
            else:
                res.violation("mir:leaf-asymmetry:" + ty, "%s: written as %s but read back as %s%s" % (ty, show(w), show(r), "; native round trip fails: " + obs if verdict else ""), fn)
    if n < 8:
        res.inconclusive.append("vacuity: only %d leaf encodings paired" % n)
    res.functions.append("utils::binio: %d leaf Compose/Parse pairs (MIR): nested encodings and raw runs, written vs read" % n)
    return n


def check_counted_loops(res, E):
    """Container parsers: the item loop runs exactly as often as the decoded length field says (0..len with the
    decoded value itself, not a clamped or otherwise derived one); the writer stores the container's len()."""
    import z3
    from gating import must
    n = 0
    for name, bodies in E.prog.bodies.items():
        if not re.search(r"binio::<impl at src/utils/binio\.rs:[^>]*>::parse$", name):
            continue
        for b in bodies:
            b.parse()
            txt = "\n".join(st for blk in b.blocks.values() for st in blk["stmts"])
            if not re.search(r"Range::<usize>|Range<usize>", txt):
                continue
            lens = []

            def m_len(E_, st, frame, callee, argvals, dest_ty, lens=lens):
                E_.fresh_n += 1
                L = z3.BitVec("decoded_length!%d" % E_.fresh_n, 64)
                lens.append(L)
                d = z3.Int("length_read!%d" % E_.fresh_n)
                st.cond.append(z3.Or(d == 0, d == 1))
                return {("disc",): d, (("v", "Ok"), ("f", 0)): L}

            def m_map_err(E_, st, frame, callee, argvals, dest_ty):
                # Result::map_err keeps the discriminant and the Ok payload
                v = argvals[0]
                if ("disc",) not in v:
                    return NotImplemented
                return {k: x for k, x in v.items() if k == ("disc",) or (k and k[0] == ("v", "Ok"))}

            paths = E.explore(b, max_visits=2, nomut=[r"."], models={r"^<u64 as (binio::)?Parse<R>>::parse$": m_len,
                                                                     r"Result::<usize, .*>::map_err::<": m_map_err})
            ty = b.ret
            res.functions.append("utils::binio Parse for %s: counted item loop (MIR)" % re.sub(r"^Result<(.*), binio::ParseError>$", r"\1", ty)[:60])
            seen = 0
            for i, p in enumerate(paths):
                its = [e for e in p.events if e.kind == "call" and re.search(r"Range<usize> as IntoIterator>::into_iter$", e.callee or "")]
                for e in its:
                    a = e.args[0]
                    start, end = a.get((("f", 0),)), a.get((("f", 1),))
                    seen += 1
                    n += 1
                    good = mir.is_z(start) and mir.is_z(end) and lens and must(E, p, start == 0) and any(
                        L.size() == end.size() and must(E, p, end == L) for L in lens)
                    if not good:
                        mdl = E.model(p.cond, z3.And([end != L for L in lens if mir.is_z(end) and L.size() == end.size()])) if mir.is_z(end) else None
                        what = ("the parser of %s iterates %s times for a decoded length %s" % (
                            ty[:50], mdl.eval(end, True).as_long() if mdl is not None else "?", 
                            mdl.eval(lens[0], True).as_long() if mdl is not None and lens else "?"))
                        fn = mprop.write_cex(res, "counted_loop_%d" % i, p, E, what, mdl)
                        if not any(v["key"] == "mir:container-loop-count" for v in res.violations) and "loop" not in _NATIVE:
                            want = mdl.eval(lens[0], True).as_long() if mdl is not None and lens else 70000
                            ok = native_map_roundtrip(res, want)
                            _NATIVE["loop"] = ok
                            if ok is False:
                                res.inconclusive.append("container loop count: %s - did not reproduce natively" % what)
                            else:
                                res.violation("mir:container-loop-count",
                                              "a container parser does not read as many items as its length field says: " + what +
                                              " (entries beyond that are silently dropped and left unread)%s"
                                              % ("; reproduced natively" if ok else ""), fn)
                    break
            if seen == 0:
                res.inconclusive.append("container parser %s: item loop not found on any path" % ty[:50])
            res.samples.append({"container_parser": ty[:60], "paths": len(paths), "loops_checked": seen})
    return n


_NATIVE = {}


def native_map_roundtrip(res, entries):
    """Round trip of a real HashMap<u64, u64> with `entries` entries (capped at 300000) and a few boundary sizes."""
    import os
    import nativetest
    from vcommon import VERIF
    entries = max(1, min(int(entries), 300000))
    src = """// generated by props/c28.py: native round trip of the delta-state map codec at a solver-found size
use super::*;
#[test]
fn c28_native_map_roundtrip() {
    let mut bad = Vec::new();
    for n in [0usize, 1, 3, 65535, 65536, 65537, %d] {
        let map: HashMap<u64, u64> = (0..n as u64).map(|i| (i, i.wrapping_mul(0x9e3779b97f4a7c15))).collect();
        let mut buf = Vec::new();
        map.compose(&mut buf).unwrap();
        let mut rd = &buf[..];
        let back = HashMap::<u64, u64>::parse(&mut rd);
        let ok = matches!(&back, Ok(m) if *m == map) && rd.is_empty();
        println!("C28-NATIVE map with {} entries: round trip {} ({} bytes left unread)", n, if ok { "exact" } else { "DIFFERS" }, rd.len());
        if !ok { bad.push(n) }
    }
    assert!(bad.is_empty(), "maps that do not read back as written: {:?}", bad);
}
""" % entries
    with open(os.path.join(VERIF, "native", "c28_generated.rs"), "w") as f:
        f.write(src)
    failed, passed, out = nativetest.run_native_test("native_c28", "c28_native_map_roundtrip")
    obs = re.findall(r"C28-NATIVE (.*)", out)
    res.extra.setdefault("native_replays", []).append({"test": "c28_native_map_roundtrip", "failed": failed, "observed": obs[:8] or [out[-300:]]})
    return True if failed else (False if passed else None)
