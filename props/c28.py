"""C28 Every persisted record reads back as written (Kani scalar round trips + MIR write/read symmetry)."""
import re

import mir
import mprop
from kprop import run_kani_part

SPEC = {
    "groups": ["binio"],
    "files": ["src/utils/binio.rs", "src/store.rs", "src/collector/rrdp/archive.rs"],
    "harnesses": {
        "quick": ["c28_roundtrip_u8", "c28_roundtrip_u32", "c28_roundtrip_u64", "c28_roundtrip_i64",
                  "c28_opt_markers_distinct"],
        "thorough": ["c28_roundtrip_uuid", "c28_roundtrip_hash"],
    },
    "harness_file": {"*": ("binio.rs", "src/utils/binio.rs")},
    "timeout": {"quick": 900, "thorough": 5000},
}

RECORDS = [
    ("src/store.rs", "StoredPointHeader", "write", "read"),
    ("src/store.rs", "UpdateStatus", "write", "read"),
    ("src/store.rs", "StoredManifest", "write", "read"),
    ("src/store.rs", "StoredObject", "write", "read"),
    ("src/store.rs", "StoredStatus", "write", "read"),
    ("src/collector/rrdp/archive.rs", "RepositoryState", "compose", "parse"),
]


def field_types(E, body, kind):
    """Longest returning path's sequence of composed / parsed field types (nested record calls included)."""
    paths = E.explore(body, max_visits=2, nomut=[r"."])
    best = None
    for p in paths:
        if p.kind != "return":
            continue
        d = p.ret.get(("disc",))
        seq = []
        for e in p.events:
            if e.kind != "call":
                continue
            m = re.match(r"^<(.*) as (?:\w+::)*(Compose|Parse)<.*>>::(compose|parse)$", e.callee)
            if m:
                seq.append(re.sub(r"^(std::option::|std::collections::|bytes::|rpki::repository::x509::|rpki::uri::|rpki::rrdp::)", "", m.group(1)))
                continue
            m = re.search(r"(UpdateStatus|StoredManifest|StoredPointHeader)::(write|read)$", e.name)
            if m:
                seq.append("record:" + m.group(1))
                continue
            if re.search(r"(write_all|read_exact)$", e.name):
                seq.append("raw-bytes")
        if best is None or len(seq) > len(best):
            best = seq
    return best or [], len(paths)


def run(res, tier):
    res.functions += ["utils::binio Compose/Parse for u8, u32, u64, i64 (quick), Uuid, rrdp::Hash (thorough): Kani round trip through a fixed stack buffer"]
    res.bounds += ["scalar encodings: every value of the full width is symbolic; the reader must return the value and be left empty",
                   "records: the sequence of field encodings written by write()/compose() must equal, type by type, the "
                   "sequence read by read()/parse() on their longest paths"]
    res.outside += ["Option<i64>: its parser's error arm builds an io::Error from a string, whose drop glue exhausts CBMC's "
                    "memory cap (14 GB) - the harness exists (c28_roundtrip_opt_i64) but is not part of a tier",
                    "byte-level round trips of URIs, Bytes, Serial, Time and the delta-state HashMap (heap buffers / chrono "
                    "division under CBMC: out of reach within the time caps); their symmetry is covered type-by-type only",
                    "HashMap iteration order does not matter for equality of the parsed map"]
    res.rule = ("K: one case = one Kani round-trip harness; M: one case = one record type whose write and read field "
                "sequences are extracted from MIR and compared")
    run_kani_part(res, SPEC, tier)
    E = mprop.engine(res)
    n = 0
    for f, ty, w, r in RECORDS:
        wb = E.prog.find(f, ty, w)
        rb = E.prog.find(f, ty, r)
        ws, _ = field_types(E, wb, "Compose")
        rs, _ = field_types(E, rb, "Parse")
        n += 1
        res.samples.append({"record": ty, "written": ws, "read": rs})
        res.functions.append("%s::{%s,%s} (MIR)" % (ty, w, r))
        if not ws or not rs:
            res.inconclusive.append("%s: could not extract field sequences (%d written, %d read)" % (ty, len(ws), len(rs)))
            continue
        if ws != rs:
            fn = mprop.write_cex(res, "asymmetric_%s" % ty, mir.Path(mir.State(), {}, "static"), E,
                                 "%s writes %s but reads %s" % (ty, ws, rs))
            res.violation("mir:record-asymmetry:" + ty, "%s: the fields read back (%s) differ in order or type from the fields written (%s)" % (ty, rs, ws), fn)
    res.distinct += n
    mprop.finish_engine(res, E)
