"""C16 HTTP 304 only when the client already has the served version (MIR-extracted pieces composed in a z3 history model)."""
import json
import os
import re

import z3

import mir
import mprop
from gating import must, disc_of

NS = 1000000000


def extract_created_transition(res, E):
    """new created as a z3 function of (had_created, created0, now), from the MIR of mark_update_done."""
    hist = mir.struct_fields("PayloadHistory", "src/payload/history.rs")
    i_created = hist.index("created")
    guard = mir.Opq("impl DerefMut<Target = PayloadHistory>", "guard")
    hp = mir.Opq("&mut PayloadHistory", "history")
    c_d = z3.Int("had_created")
    c0 = z3.Int("created0_ns")
    now = z3.Int("now_ns")
    E.solver.add(z3.And(c_d >= 0, c_d <= 1, c0 >= 0, now >= 0))

    def m_write(E_, st, frame, callee, argvals, dest_ty):
        return {(): guard}

    def m_deref(E_, st, frame, callee, argvals, dest_ty):
        a = argvals[0].get(())
        tgt = a
        if isinstance(a, mir.Ref):
            tgt = E_.load(st, a.loc).get(())
        if tgt is guard:
            return {(): hp}
        return NotImplemented

    def m_now(E_, st, frame, callee, argvals, dest_ty):
        return {(): now}

    def m_timestamp(E_, st, frame, callee, argvals, dest_ty):
        a = argvals[0].get(())
        if isinstance(a, mir.Ref):
            a = E_.load(st, a.loc).get(())
        if mir.is_z(a) and z3.is_int(a):
            return {(): z3.Int2BV(a / NS, 64)}
        return NotImplemented

    def m_try_seconds(E_, st, frame, callee, argvals, dest_ty):
        a = argvals[0].get(())
        if mir.is_z(a) and z3.is_bv_value(z3.simplify(a)):
            return {("disc",): z3.IntVal(1), (("v", "Some"), ("f", 0)): z3.IntVal(z3.simplify(a).as_signed_long() * NS)}
        return NotImplemented

    def m_add(E_, st, frame, callee, argvals, dest_ty):
        a, b = argvals[0].get(()), argvals[1].get(())
        if mir.is_z(a) and mir.is_z(b) and z3.is_int(a) and z3.is_int(b):
            return {(): a + b}
        return NotImplemented

    def pre(E_, st, frame):
        base = (("o", hp.id), "deref", ("f", i_created))
        st.mem[base + ("disc",)] = c_d
        st.mem[base + (("v", "Some"), ("f", 0))] = c0
    body = E.prog.find("src/payload/history.rs", "SharedHistory", "mark_update_done")
    res.functions.append("payload::history::SharedHistory::mark_update_done (MIR, %d blocks): transition of `created`" % len(body.blocks))
    paths = E.explore(body, max_visits=2, pre=pre, nomut=[r"."], models={
        r"SharedHistory::write$": m_write, r"as DerefMut>::deref_mut$|as Deref>::deref$": m_deref,
        r"Utc::now$": m_now, r"DateTime::<.*>::timestamp$|DateTime::timestamp$": m_timestamp,
        r"(TimeDelta|Duration)::try_seconds$": m_try_seconds,
        r"^<DateTime<Utc> as Add<.*>>::add$": m_add,
    })
    cases = []
    for p in paths:
        if p.kind != "return":
            continue
        base = (("o", hp.id), "deref", ("f", i_created))
        nd = mir.peek(E, p.mem, base + ("disc",))
        nv = mir.peek(E, p.mem, base + (("v", "Some"), ("f", 0)))
        if nd is None or nv is None or not mir.is_z(nv) or not z3.is_int(nv):
            res.inconclusive.append("mark_update_done: new `created` not symbolic on a path (%r)" % (nv,))
            continue
        if not must(E, p, nd == 1):
            res.inconclusive.append("mark_update_done: a path leaves `created` unset")
        # project the path condition onto (had_created, created0, now): outcomes of unrelated opaque calls
        # (duration conversion, snapshot refresh, ...) are existentially quantified away
        keep = []
        names = {"had_created", "created0_ns", "now_ns"}
        for c in p.cond:
            vs = set()

            def collect(e):
                if z3.is_const(e) and e.decl().kind() == z3.Z3_OP_UNINTERPRETED:
                    vs.add(e.decl().name())
                for ch in e.children():
                    collect(ch)
            collect(c)
            if vs and vs <= names:
                keep.append(c)
        cases.append((z3.And(keep) if keep else z3.BoolVal(True), nv))
    if not cases:
        raise mir.Inconclusive("no transition extracted from mark_update_done")
    expr = cases[-1][1]
    for cond, nv in cases[:-1]:
        expr = z3.If(cond, nv, expr)
    covered = z3.Or([c for c, _ in cases])
    return (c_d, c0, now), expr, covered


def extract_ims_predicate(res, E):
    """The If-Modified-Since decision of maybe_not_modified as a z3 predicate over (date_ns, done_ns): the
    function's MIR is run with both instants as integers (chrono comparisons / timestamp() modelled on integer
    nanoseconds); the disjunction of the projected conditions of the paths that parse the header's date and return 304."""
    body = E.prog.find("src/http/response.rs", "Response", "maybe_not_modified")
    res.functions.append("http::response::Response::maybe_not_modified (MIR, %d blocks): If-Modified-Since decision" % len(body.blocks))
    done_ns, date_ns = z3.Int("ims_done_ns"), z3.Int("ims_date_ns")
    E.solver.add(done_ns >= 0, date_ns >= 0, done_ns <= 4 * 10 ** 18, date_ns <= 4 * 10 ** 18)
    shapes = set()

    def through(E_, st, v):
        a = v.get(())
        for _ in range(3):
            if isinstance(a, mir.Ref):
                a = E_.load(st, a.loc).get(())
        return a

    def m_cmp(E_, st, frame, callee, argvals, dest_ty):
        m = re.search(r"PartialOrd(<.*>)?>::(lt|le|gt|ge)$", callee)
        a, b = through(E_, st, argvals[0]), through(E_, st, argvals[1])
        if not (mir.is_z(a) and mir.is_z(b) and z3.is_int(a) and z3.is_int(b)):
            return NotImplemented
        shapes.add("DateTime " + m.group(2))
        return {(): {"lt": a < b, "le": a <= b, "gt": a > b, "ge": a >= b}[m.group(2)]}

    def m_timestamp(E_, st, frame, callee, argvals, dest_ty):
        a = through(E_, st, argvals[0])
        if mir.is_z(a) and z3.is_int(a):
            shapes.add("timestamp()")
            return {(): a / NS}
        return NotImplemented

    def m_parse(E_, st, frame, callee, argvals, dest_ty):
        E_.fresh_n += 1
        d = z3.Int("ims_parsed!%d" % E_.fresh_n)
        st.cond.append(z3.Or(d == 0, d == 1))
        st.events.append(mir.Event("ims-date-parsed", argvals, None, ("", ""), "call", callee))
        return {("disc",): d, (("v", "Some"), ("f", 0)): date_ns}

    paths = E.explore(body, max_visits=3, nomut=[r"."], arg_values={"_3": {(): done_ns}}, max_paths=20000,
                      models={r"^<DateTime<Utc> as PartialOrd(<.*>)?>::(lt|le|gt|ge)$": m_cmp,
                              r"DateTime::<.*>::timestamp$|DateTime::timestamp$": m_timestamp,
                              r"parse_http_date$": m_parse})
    names = {"ims_done_ns", "ims_date_ns"}
    alts = []
    n304 = 0
    mixed = False
    for p in paths:
        if p.kind != "return" or not p.has(r"Response::not_modified$"):
            continue
        n304 += 1
        if not p.has(r"ims-date-parsed$"):
            continue            # decided by the ETag alone
        keep = []
        for c in p.cond:
            vs = set()

            def collect(e):
                if z3.is_const(e) and e.decl().kind() == z3.Z3_OP_UNINTERPRETED:
                    vs.add(e.decl().name())
                for ch in e.children():
                    collect(ch)
            collect(c)
            if vs & names:
                if vs <= names:
                    keep.append(c)
                else:
                    mixed = True
        alts.append(z3.And(keep) if keep else z3.BoolVal(True))
    if mixed:
        res.inconclusive.append("maybe_not_modified: a condition mixes the instants with other values; the If-Modified-Since predicate is not separable")
    pred = z3.simplify(z3.Or(alts)) if alts else z3.BoolVal(False)
    return (date_ns, done_ns), pred, sorted(shapes), n304, len(paths), len(alts)


def run(res, tier):
    E = mprop.engine(res)
    res.extra.setdefault("source_files_sha256", {}).update(mprop.source_hashes(
        ["src/http/response.rs", "src/http/payload.rs", "src/payload/history.rs", "src/operation.rs"]))
    # 1. order of the writer's steps and what each step touches
    hist = mir.struct_fields("PayloadHistory", "src/payload/history.rs")
    pb = E.prog.find("src/operation.rs", "Server", "process_once")
    order_ok = False
    for p in E.explore(pb, max_visits=2, nomut=[r"."]):
        u = p.index(r"SharedHistory::update$")
        d = p.index(r"SharedHistory::mark_update_done$")
        if u >= 0 and d >= 0:
            order_ok = True
            if d < u:
                res.inconclusive.append("process_once calls mark_update_done before update: the history model below does not apply")
    ub = E.prog.find("src/payload/history.rs", "SharedHistory", "update")
    update_sets_created = False
    for p in E.explore(ub, max_visits=2, nomut=[r"."], log_enabled=True):
        for loc, at in p.writes:
            for part in loc:
                if isinstance(part, tuple) and part[0] == "f":
                    if hist[part[1]] == "created":
                        update_sets_created = True
                    break
        if p.has(r"mark_update_done$|touch_created$|advance_created$"):
            update_sets_created = True
    res.functions.append("operation::Server::process_once, payload::history::SharedHistory::update (MIR): step order and which step writes `created`")
    (c_d, c0, now), new_created, covered = extract_created_transition(res, E)
    (ims_date, ims_done), ims_pred, ims_shapes, n304, npaths, n_ims = extract_ims_predicate(res, E)
    res.extra["ims_predicate"] = str(ims_pred)
    res.extra["ims_predicate_built_from"] = ims_shapes
    res.extra["update_writes_created"] = update_sets_created
    if n_ims == 0:
        res.inconclusive.append("maybe_not_modified has no path that returns 304 on the If-Modified-Since date: model not applicable")
        mprop.finish_engine(res, E)
        return
    op, left, right = str(ims_pred), "date", "done"

    def ims_304(date, done):
        return z3.substitute(ims_pred, (ims_date, date), (ims_done, done))

    # 2. the history model -------------------------------------------------------------------------------
    s = z3.Solver()
    created0 = z3.Int("created_seen_by_client_ns")
    now1 = z3.Int("now_at_mark_update_done_ns")
    # the clock does not run backwards - but `created` may be ahead of it: mark_update_done advances `created` by a
    # second for each run that ends within the second of the previous one (up to 3 such bumps are modelled)
    s.add(created0 >= 4 * NS, created0 < 8 * NS, now1 >= created0 - 3 * NS)
    # the code only compares instants and adds whole seconds, so it is invariant under translation by whole
    # seconds: an 8-second window of instants with every sub-second part represents all histories (no i64 wrap)
    s.add(now1 <= created0 + 4 * NS)
    s.set("timeout", 300000)
    lm0 = (created0 / NS) * NS                        # what Last-Modified conveys: whole seconds
    has_inm, has_ims = z3.Bool("sends_etag"), z3.Bool("sends_if_modified_since")
    s.add(z3.Or(has_inm, has_ims))
    data_changed = z3.Bool("run_changed_the_data")
    # states at which the request may arrive: 0 = before the run (served version is the client's),
    # 1 = in the window after update() and before mark_update_done(), 2 = after mark_update_done()
    at = z3.Int("request_arrives_at")
    s.add(at >= 0, at <= 2)
    created1 = z3.substitute(new_created, (c_d, z3.IntVal(1)), (c0, created0), (now, now1))
    done = z3.If(at == 2, created1, created0) if not update_sets_created else z3.If(at >= 1, created1, created0)
    version_differs = z3.And(data_changed, at >= 1)
    etag_matches = z3.Not(version_differs)             # ETag = session-serial: equal iff same version
    not_modified = z3.Or(z3.And(has_inm, etag_matches), z3.And(has_ims, ims_304(lm0, done)))
    res.evaluations += 1
    findings = []
    s.push()
    s.add(not_modified, version_differs)
    while len(findings) < 4:
        r_ = s.check()
        if r_ == z3.unknown:
            res.inconclusive.append("history model: z3 gave no answer within 300 s")
            break
        if r_ != z3.sat:
            break
        m = s.model()
        where = m.eval(at, True).as_long()
        zero_ns = (m.eval(created0, True).as_long() % NS) == 0
        key = "c16:304-for-old-validators:%s:%s" % ("window-between-update-and-mark-update-done" if where == 1 else "after-mark-update-done",
                                                      "zero-nanosecond-created" if zero_ns else "any-created")
        findings.append((key, m))
        # look for a different kind of counterexample
        s.add(z3.Not(z3.And(at == where, (created0 % NS == 0) == zero_ns)))
        res.evaluations += 1
    s.pop()
    d = os.path.join(mprop.VERIF, "replays", res.prop)
    os.makedirs(d, exist_ok=True)
    for key, m in findings:
        fn = os.path.join(d, re.sub(r"\W+", "_", key) + ".history.json")
        with open(fn, "w") as f:
            json.dump({"property": res.prop, "key": key,
                       "history": {"client_fetched_with_created_ns": m.eval(created0, True).as_long(),
                                   "Last-Modified_sent_ns": m.eval(lm0, True).as_long(),
                                   "run_changed_the_data": str(m.eval(data_changed, True)),
                                   "request_arrives_at": ["before the run", "between update() and mark_update_done()", "after mark_update_done()"][m.eval(at, True).as_long()],
                                   "sends_etag": str(m.eval(has_inm, True)), "sends_if_modified_since": str(m.eval(has_ims, True)),
                                   "now_at_mark_update_done_ns": m.eval(now1, True).as_long()},
                       "extracted": {"ims_comparison": [op, left, right], "update_writes_created": update_sets_created}}, f, indent=1)
        from vcommon import known_keys
        if key not in known_keys(res.prop) or res.tier == "thorough":
            import nativetest
            failed, passed, out = nativetest.run_native_test("native_c16", "c16_native")
            mm = re.search(r"C16-NATIVE (.*)", out)
            res.extra.setdefault("native_replays", []).append({"test": "c16_native_window_304", "failed": failed, "observed": mm.group(1) if mm else None})
            if passed and "window" in key:
                res.inconclusive.append("history-model counterexample did not reproduce natively")
                continue
        res.violation(key, "a conditional request carrying only If-Modified-Since (the Last-Modified it was given) is answered 304 "
                      "although the data set changed: %s" % key.split(":", 1)[1], fn)
    # liveness / vacuity: validators of the served version do yield 304, and old ETags never do
    s.push()
    s.add(z3.Not(version_differs), has_inm, z3.Not(has_ims), z3.Not(not_modified))
    if s.check() == z3.sat:
        res.inconclusive.append("model inconsistency: current ETag does not give 304")
    s.pop()
    res.samples.append({"ims_comparison": [op, left, right], "created_transition_cases": "extracted from mark_update_done",
                        "update_writes_created": update_sets_created, "maybe_not_modified_paths": npaths, "paths_returning_304": n304})
    res.samples.append({"history_model": "client validators = (ETag of serial, whole-second Last-Modified of created); request at: before run / window / after mark_update_done; data changed or not"})
    res.distinct += 3 + len(findings)
    res.bounds.append("one validation run (data-changing or not) after the client's fetch; the request arrives before the run, in the window "
                      "between update() and mark_update_done(), or afterwards; any subset of {If-None-Match, If-Modified-Since} of the "
                      "validators the client was given; clock values are arbitrary non-decreasing nanosecond instants within an 8-second window (the code is invariant under translation by whole seconds); the stored `created` may be up to 3 s ahead of the clock (earlier same-second bumps)")
    res.assumptions += ["ETag = \"session-serial\" is injective in the serial (format string read off http/payload.rs); Last-Modified and "
                        "If-Modified-Since have whole-second resolution (HTTP-date)",
                        "pieces taken from the code: the deciding comparison of maybe_not_modified (operator and operand roles), the "
                        "transition of `created` in mark_update_done (chrono calls modelled on integer nanoseconds), that update() does "
                        "not touch `created`, and the order update -> mark_update_done in process_once",
                        "composition of these pieces into the history model is the spec's (props/c16.py)"]
    res.rule = ("one case = one class of history (arrival point x zero/non-zero sub-second part of `created`) found by z3 in the "
                "history model whose parts are extracted from MIR; evaluations = z3 queries")
    mprop.finish_engine(res, E)
