"""C05 Fetched manifests never roll back stored data (M engine)."""
import re

import z3

import mir
import mprop


def check_cached_fields(res, E, fields):
    """The ordering fields the comparison works on are cached by StoredManifest::new: manifest_number and this_update
    must be the manifest content's own values (not the EE certificate's), not_after the EE certificate's notAfter."""
    body = E.prog.find("src/store.rs", "StoredManifest", "new")
    ee, mft = mir.Opq("&ResourceCert", "ee_cert"), mir.Opq("&ManifestContent", "manifest")
    paths = [p for p in E.explore(body, max_visits=2, arg_values={"_1": {(): ee}, "_2": {(): mft}}) if p.kind == "return"]
    res.functions.append("routinator::store::StoredManifest::new (MIR): source of the cached manifest_number / this_update / not_after")
    want = {"manifest_number": (r"ManifestContent::manifest_number$", mft), "this_update": (r"ManifestContent::this_update$", mft),
            "not_after": (r"Validity::not_after$", None)}
    if len(paths) != 1:
        res.inconclusive.append("StoredManifest::new: %d returning paths" % len(paths))
        return
    p = paths[0]
    for fld, (pat, recv) in want.items():
        leaf = p.ret.get((("f", fields.index(fld)),))
        src = [e for e in p.events if e.kind in ("call", "pure") and e.dest and e.dest.get(()) is leaf]
        good = len(src) == 1 and re.search(pat, src[0].name) is not None
        if good and recv is not None:
            good = bool(src[0].args) and src[0].args[0].get(()) is recv
        res.distinct += 1
        res.samples.append({"StoredManifest::new field": fld, "computed_by": src[0].name if src else None})
        if not good:
            fn = mprop.write_cex(res, "cached_%s" % fld, p, E,
                                 "StoredManifest::new fills `%s` from %s, not from %s" % (fld, src[0].name if src else "an unknown source", pat))
            res.violation("mir:stored-manifest-caches-wrong-" + fld,
                          "the stored manifest's cached `%s` is not the manifest's own value (%s): the newer-than comparison "
                          "and the consistency check of the stored copy then work on wrong data" % (fld, src[0].name if src else "unknown source"), fn)


def run(res, tier):
    E = mprop.engine(res)
    fields = check_newer(res, E)
    check_cached_fields(res, E, fields)
    mprop.finish_engine(res, E)


def check_newer(res, E, only_reject=False):
    """check_collected_is_newer against its specification; only_reject: just obligation 3 (the stored point is
    rejected only when it is inconsistent) - C04 relies on it: nothing else may destroy the stored version before
    an update has completed."""
    body = E.prog.find("src/engine.rs", "PubPoint", "check_collected_is_newer")
    fields = mir.struct_fields("StoredManifest", "src/store.rs")
    i_num = fields.index("manifest_number")
    i_time = fields.index("this_update")
    vpm = mir.struct_fields("ValidPointManifest", "src/engine.rs")
    i_content = vpm.index("content")
    collected = mir.Opq("&ValidPointManifest", "collected")
    res.functions.append("routinator::engine::PubPoint::check_collected_is_newer (MIR, %d blocks)" % len(body.blocks))
    res.extra.setdefault("source_files_sha256", {}).update(mprop.source_hashes(["src/engine.rs", "src/store.rs"]))
    paths = E.explore(
        body,
        pure=[r"ManifestContent::manifest_number$", r"ManifestContent::this_update$",
              r"Manifest::content$", r"StoredPoint::manifest$", r"CaCert::rpki_manifest$"],
        arg_values={"_2": {(): collected}},
        max_visits=2)
    res.bounds.append("all paths of check_collected_is_newer (loop-free; block visit bound 2 never reached); "
                      "manifest numbers and times are values of an uninterpreted total order")
    res.assumptions += [
        "ManifestContent::manifest_number/this_update, Manifest::content, StoredPoint::manifest are pure getters "
        "(same receiver => same value); x509::Serial and Time comparisons are a total order",
        "Manifest::decode and StoredPoint::reject are opaque: any Ok/Err outcome",
        "unwind (panic) edges are not followed",
    ]
    if E.bound_hits:
        res.inconclusive.append("block visit bound reached on %d paths" % E.bound_hits)
    coll_content = (("o", collected.id), "deref", ("f", i_content))
    n_true = n_false = 0
    for n, p in enumerate(paths):
        if p.kind != "return":
            continue
        d, v = mprop.ok_true(p)
        if d is None:
            res.inconclusive.append("path %d: return value has no discriminant" % n)
            continue
        # handles -------------------------------------------------------
        num_c = time_c = None
        dec_num = dec_time = None
        stored_disc = None
        stored_ptr = None
        decode_disc = None
        content_ptrs = []
        reject_idx = p.index(r"StoredPoint::reject$")
        for e in p.events:
            if e.name.endswith("StoredPoint::manifest"):
                stored_disc = E._disc_of(mir.State(), dict(e.dest), "Option<>") if False else None
                leaf = e.dest.get(())
                stored_disc = mir.peek(E, p.mem, (("o", leaf.id), "disc"))
                stored_ptr = mir.peek(E, p.mem, (("o", leaf.id), ("v", "Some"), ("f", 0)))
            elif e.name.endswith("Manifest::decode"):
                leaf = e.dest.get(())
                decode_disc = mir.peek(E, p.mem, (("o", leaf.id), "disc"))
            elif e.name.endswith("Manifest::content"):
                content_ptrs.append(e.dest.get(()))
            elif e.name.endswith("manifest_number") or e.name.endswith("this_update"):
                a = e.args[0].get(())
                which = "num" if e.name.endswith("manifest_number") else "time"
                is_coll = isinstance(a, mir.Ref) and a.loc[:3] == coll_content
                val = e.dest.get(())
                if is_coll:
                    if which == "num":
                        num_c = val
                    else:
                        time_c = val
                elif any(a is c for c in content_ptrs):
                    if which == "num":
                        dec_num = val
                    else:
                        dec_time = val
        if stored_disc is None:
            res.inconclusive.append("path %d: StoredPoint::manifest not called" % n)
            continue
        num_s = time_s = None
        if stored_ptr is not None:
            base = mir.leaf_loc(stored_ptr)
            num_s = mir.peek(E, p.mem, base + (("f", i_num),))
            time_s = mir.peek(E, p.mem, base + (("f", i_time),))
        o = E.ord_var
        stored_none = stored_disc == 0
        if num_c is not None and num_s is not None and time_c is not None and time_s is not None:
            newer = z3.And(o(num_c) > o(num_s), o(time_c) > o(time_s))
        elif num_c is not None and num_s is not None:
            # this_update never consulted on this path: cannot be "strictly newer" unless proven elsewhere
            newer = z3.BoolVal(False)
            newer_num_only = o(num_c) > o(num_s)
        else:
            newer = z3.BoolVal(False)
        inconsistent = z3.BoolVal(False)
        if reject_idx >= 0 and decode_disc is not None:
            parts = [decode_disc == 1]
            if dec_num is not None and num_s is not None:
                parts.append(o(dec_num) != o(num_s))
            if dec_time is not None and time_s is not None:
                parts.append(o(dec_time) != o(time_s))
            inconsistent = z3.Or(parts)
        returned_true = z3.And(d == 0, v) if v is not None else z3.BoolVal(False)
        returned_false = z3.And(d == 0, z3.Not(v)) if v is not None else z3.BoolVal(False)
        # obligation 1: Ok(true) => none | strictly newer | stored copy inconsistent (and rejected)
        bad = z3.And(returned_true, z3.Not(z3.Or(stored_none, newer, inconsistent)))
        m = E.model(p.cond, bad) if not only_reject else None
        if m is not None:
            fn = mprop.write_cex(res, "accepts_not_newer_%d" % n, p, E,
                                 "check_collected_is_newer returns Ok(true) although the stored manifest exists, "
                                 "is consistent, and the collected one is not strictly newer in number and thisUpdate", m)
            res.violation("mir:accepts-not-newer", "Ok(true) for a collected manifest that is not strictly newer "
                          "than a consistent stored one (MIR path)", fn)
        # obligation 2: a strictly newer manifest is not refused (Ok(false))
        if not only_reject and num_c is not None and num_s is not None and time_c is not None and time_s is not None:
            m = E.model(p.cond, z3.And(returned_false, newer))
            if m is not None:
                fn = mprop.write_cex(res, "refuses_newer_%d" % n, p, E,
                                     "check_collected_is_newer returns Ok(false) for a strictly newer manifest", m)
                res.violation("mir:refuses-newer", "Ok(false) for a strictly newer collected manifest", fn)
        # obligation 3: reject() only when the stored copy is inconsistent
        if reject_idx >= 0:
            m = E.model(p.cond, z3.Not(inconsistent))
            if m is not None:
                fn = mprop.write_cex(res, "rejects_consistent_%d" % n, p, E,
                                     "StoredPoint::reject reached although the stored manifest decodes and matches "
                                     "its cached number/time", m)
                res.violation("mir:rejects-consistent-stored", "stored point rejected while consistent", fn)
        if E.feasible(p.cond, returned_true):
            n_true += 1
        if E.feasible(p.cond, returned_false):
            n_false += 1
        res.distinct += 1
        res.samples.append(mprop.path_sample(p))
    if n_true == 0 or n_false == 0:
        res.inconclusive.append("vacuity: paths returning Ok(true)=%d, Ok(false)=%d" % (n_true, n_false))
    res.extra["paths"] = len(paths)
    res.extra["paths_ok_true"] = n_true
    res.extra["paths_ok_false"] = n_false
    if not only_reject:
        res.rule = ("one case = one feasible MIR path of check_collected_is_newer (path condition satisfiable); "
                    "for each, three z3 queries (accept-implies-newer, newer-not-refused, reject-implies-inconsistent); "
                    "evaluations = z3 queries including feasibility checks")
    return fields
