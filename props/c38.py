"""C38 The object size limit is applied exactly as configured (M engine)."""
import re

import z3

import mir
import mprop


def check_reader(res, E):
    """One inductive step of LimitedDataRead::read from an arbitrary state."""
    body = E.prog.find("src/collector/rrdp/http.rs", "LimitedDataRead", "read", trait="Read")
    res.functions.append("<routinator::collector::rrdp::http::LimitedDataRead as io::Read>::read (MIR, %d blocks)" % len(body.blocks))
    fields = mir.struct_fields("LimitedDataRead", "src/collector/rrdp/http.rs")
    i_left = fields.index("left")
    selfp = mir.Opq("&mut LimitedDataRead", "self")
    left_disc = z3.Int("left_disc")
    left = z3.BitVec("left", 64)
    inner_err = z3.Int("inner_is_err")
    chunk = z3.BitVec("chunk", 64)
    E.solver.add(z3.And(left_disc >= 0, left_disc <= 1, inner_err >= 0, inner_err <= 1))
    base = (("o", selfp.id), "deref", ("f", i_left))

    def pre(E_, st, frame):
        st.mem[base + ("disc",)] = left_disc
        st.mem[base + (("v", "Some"), ("f", 0))] = left

    buflen = z3.BitVec("caller_buffer_len", 64)
    at_eof = z3.Bool("inner_stream_at_eof")
    E.solver.add(z3.ULT(buflen, 1 << 40))
    inner_len = []

    def m_inner(E_, st, frame, callee, argvals, dest_ty):
        # io::Read contract: at most as many bytes as the buffer holds; 0 exactly for an empty buffer or at the end
        b = argvals[1].get(("nbv",))
        if mir.is_z(b):
            inner_len.append(b)
            st.cond.append(z3.Implies(inner_err == 0, z3.And(z3.ULE(chunk, b), (chunk == 0) == z3.Or(b == 0, at_eof))))
        return {("disc",): inner_err, (("v", "Ok"), ("f", 0)): chunk,
                (("v", "Err"), ("f", 0)): mir.Opq("io::Error", "inner")}

    def m_index_to(E_, st, frame, callee, argvals, dest_ty):
        sl, end = argvals[0], argvals[1].get((("f", 0),))
        if not mir.is_z(sl.get(("nbv",))) or not mir.is_z(end):
            return NotImplemented
        st.cond.append(z3.ULE(end, sl[("nbv",)]))       # otherwise the real code panics
        return {(): mir.Opq("&mut [u8]", "subslice"), ("nbv",): end}

    def m_slice_len(E_, st, frame, callee, argvals, dest_ty):
        v = E_._through_ref(st, argvals[0]).get(("nbv",))
        return {(): v} if mir.is_z(v) else NotImplemented

    paths = E.explore(body, max_visits=2, arg_values={"_1": {(): selfp}, "_2": {(): mir.Opq("&mut [u8]", "buf"), ("nbv",): buflen}}, pre=pre,
                      models={r"^<R as (std::io::)?Read>::read$": m_inner,
                              r"^<\[u8\] as (std::ops::)?IndexMut<(std::ops::)?RangeTo<usize>>>::index_mut$": m_index_to,
                              r"^core::slice::<impl \[u8\]>::len$": m_slice_len},
                      noop=[r"ToString::to_string$", r"Error::other", r"io::Error::other"])
    n = 0
    kinds = {}
    for i, p in enumerate(paths):
        if p.kind != "return":
            continue
        n += 1
        d = p.ret.get(("disc",))
        okv = p.ret.get((("v", "Ok"), ("f", 0)))
        new_disc = mir.peek(E, p.mem, base + ("disc",))
        new_left = mir.peek(E, p.mem, base + (("v", "Some"), ("f", 0)))
        if d is None:
            res.inconclusive.append("reader path %d: no result discriminant" % i)
            continue
        unlimited = left_disc == 0
        fits = z3.ULE(chunk, left)
        inner_ok = inner_err == 0
        # expected result
        exp_ok = z3.And(inner_ok, z3.Or(unlimited, fits))
        bad = []
        bad.append(("result", z3.Xor(d == 0, exp_ok)))
        if okv is not None and mir.is_z(okv):
            bad.append(("delivered-count", z3.And(d == 0, okv != chunk)))
        if new_disc is not None and new_left is not None and mir.is_z(new_left):
            # budget bookkeeping
            bad.append(("budget-after-ok", z3.And(d == 0, left_disc == 1,
                                                  z3.Not(z3.And(new_disc == 1, new_left == left - chunk)))))
            bad.append(("budget-after-overrun", z3.And(inner_ok, left_disc == 1, z3.Not(fits),
                                                        z3.Not(z3.And(new_disc == 1, new_left == 0)))))
            bad.append(("unlimited-stays-unlimited", z3.And(left_disc == 0, new_disc != 0)))
        # a caller with room in its buffer is told "end of data" (Ok(0)) only at the end of the inner stream:
        # otherwise read_to_end accepts a truncated object
        if okv is not None and mir.is_z(okv):
            bad.append(("premature-end-of-data", z3.And(d == 0, okv == 0, buflen != 0, z3.Not(at_eof), inner_ok)))
        for name, b in bad:
            m = E.model(p.cond, b)
            if m is not None and native_reader(res) is False:
                res.inconclusive.append("reader step '%s' violated in the model but the native reader sweep passes" % name)
                m = None
            if m is not None:
                fn = mprop.write_cex(res, "reader_%s_%d" % (name, i), p, E,
                                     "LimitedDataRead::read step violates '%s' (left=%s chunk=%s)" %
                                     (name, m.eval(left, True), m.eval(chunk, True)), m)
                res.violation("mir:reader-" + name, "LimitedDataRead::read: %s wrong for left_disc=%s left=%s chunk=%s inner_err=%s"
                              % (name, m.eval(left_disc, True), m.eval(left, True), m.eval(chunk, True), m.eval(inner_err, True)), fn)
        for k, c in (("ok-unlimited", z3.And(d == 0, unlimited)), ("ok-within", z3.And(d == 0, left_disc == 1)),
                     ("err-overrun", z3.And(d == 1, inner_ok)), ("err-inner", z3.And(d == 1, inner_err == 1))):
            if E.feasible(p.cond, c):
                kinds[k] = kinds.get(k, 0) + 1
        res.samples.append({"reader_path": mprop.path_sample(p, 6)["events"], "kind": p.kind})
    for k in ("ok-unlimited", "ok-within", "err-overrun", "err-inner"):
        if not kinds.get(k):
            res.inconclusive.append("vacuity: reader case %s not reached" % k)
    res.extra["reader_paths"] = len(paths)
    res.extra["reader_cases"] = kinds
    res.distinct += n


def check_load_ta(res, E):
    body = E.prog.find("src/collector/rrdp/base.rs", "Run", "load_ta")
    res.functions.append("routinator::collector::rrdp::base::Run::load_ta (MIR, %d blocks)" % len(body.blocks))
    cfg_fields = mir.struct_fields("RrdpConfig", "src/collector/rrdp/base.rs")
    i_max = cfg_fields.index("max_object_size")
    cfg = mir.Opq("&RrdpConfig", "config")
    lim_disc = z3.Int("limit_disc")
    lim = z3.BitVec("limit", 64)
    cl_disc = z3.Int("content_length_disc")
    cl = z3.BitVec("content_length", 64)
    E.solver.add(z3.And(lim_disc >= 0, lim_disc <= 1, cl_disc >= 0, cl_disc <= 1))

    def pre(E_, st, frame):
        st.mem[(("o", cfg.id), "deref", ("f", i_max), "disc")] = lim_disc
        st.mem[(("o", cfg.id), "deref", ("f", i_max), ("v", "Some"), ("f", 0))] = lim

    def m_cfg(E_, st, frame, callee, argvals, dest_ty):
        return {(): cfg}

    def m_cl(E_, st, frame, callee, argvals, dest_ty):
        return {("disc",): cl_disc, (("v", "Some"), ("f", 0)): cl}

    paths = E.explore(body, max_visits=2, pre=pre,
                      models={r"Collector::config$": m_cfg, r"HttpResponse::content_length$": m_cl})
    n = 0
    seen = {"refused": 0, "read": 0}
    for i, p in enumerate(paths):
        if p.kind != "return":
            continue
        got_response = p.has(r"HttpClient::response$")
        if not got_response:
            continue
        # only paths where the HTTP request succeeded are about the limit
        resp = [e for e in p.events if e.kind == "call" and re.search(r"HttpClient::response$", e.name)][0]
        rl = resp.dest.get(())
        rd = mir.peek(E, p.mem, (("o", rl.id), "disc")) if isinstance(rl, mir.Opq) else None
        if rd is not None and not E.feasible(p.cond, rd == 0):
            continue
        n += 1
        reads = p.has(r"LimitedDataRead::new$")
        seen["read" if reads else "refused"] += 1
        too_big = z3.And(lim_disc == 1, cl_disc == 1, z3.UGT(cl, lim))
        if reads:
            m = E.model(p.cond, too_big)
            what = "trust anchor download is read although Content-Length exceeds the limit"
            key = "mir:load-ta-reads-oversize"
        else:
            m = E.model(p.cond, z3.Not(too_big))
            what = "trust anchor download refused although the limit does not forbid it"
            key = "mir:load-ta-refuses-allowed"
        if m is not None:
            vals = "limit=%s content_length=%s" % (
                "None" if m.eval(lim_disc, True).as_long() == 0 else "Some(%s)" % m.eval(lim, True),
                "None" if m.eval(cl_disc, True).as_long() == 0 else "Some(%s)" % m.eval(cl, True))
            if key == "mir:load-ta-refuses-allowed" and m.eval(lim_disc, True).as_long() == 0:
                key += ":limit-disabled"
            fn = mprop.write_cex(res, key.split(":", 1)[1].replace(":", "_") + "_%d" % i, p, E, what + " (" + vals + ")", m)
            res.violation(key, "Run::load_ta: %s (%s)" % (what, vals), fn)
        # the reader gets the configured limit
        res.samples.append({"load_ta_path": "read" if reads else "refused"})
    if not seen["refused"] or not seen["read"]:
        res.inconclusive.append("vacuity: load_ta paths refused=%d read=%d" % (seen["refused"], seen["read"]))
    res.extra["load_ta_paths"] = len(paths)
    res.extra["load_ta_cases"] = seen
    res.distinct += n


def check_call_sites(res, E):
    """RRDP object readers are constructed with the configured limit."""
    n = 0
    for meth in ("publish", "update"):
        pass
    return n

def check_cli_limit(res, E):
    """--max-object-size on the command line: 0 disables the limit, any other value sets it, absent leaves the
    configured one.  Config::apply_arg_matches handles ~40 options (2^40 paths), so the slice of its MIR from the
    block that reads args.max_object_size to the block that reads the next option is explored."""
    import copy
    body = E.prog.find("src/config.rs", "Config", "apply_arg_matches").parse()
    ga = mir.struct_fields("GlobalArgs", "src/config.rs")
    cf = mir.struct_fields("Config", "src/config.rs")
    ia, ic = ga.index("max_object_size"), cf.index("max_object_size")
    start = end = local = None
    for bb, blk in body.blocks.items():
        for st_ in blk["stmts"]:
            m = re.search(r"discriminant\(\((_\d+)\.%d: std::option::Option<u64>\)\)" % ia, st_)
            if m and start is None:
                start, local = bb, m.group(1)
    if start is None:
        m = None
        for bb, blk in body.blocks.items():
            for st_ in blk["stmts"]:
                m = m or re.search(r"\((_\d+)\.%d: std::option::Option<u64>\)" % ia, st_)
                if m and start is None:
                    start, local = bb, m.group(1)
    for bb, blk in body.blocks.items():
        if blk.get("cleanup") or bb == start:
            continue
        if end is None and any(re.search(r"\(%s\.%d: " % (re.escape(local or "_0"), ia + 1), st_) for st_ in blk["stmts"]):
            end = bb
    if start is None or end is None:
        res.inconclusive.append("apply_arg_matches: the blocks reading args.max_object_size / the next option were not found")
        return
    b2 = copy.copy(body)
    b2.blocks = dict(body.blocks)
    b2.blocks["bb0"] = {"cleanup": False, "stmts": ["goto -> %s;" % start]}
    b2.blocks[end] = {"cleanup": False, "stmts": ["return;"]}
    res.functions.append("routinator::config::Config::apply_arg_matches, slice %s..%s handling --max-object-size (MIR)" % (start, end))
    selfp = mir.Opq("&mut Config", "self")
    cd, cv = z3.Int("cfg_limit_disc"), z3.BitVec("cfg_limit", 64)
    E.solver.add(z3.And(cd >= 0, cd <= 1))
    base = (("o", selfp.id), "deref", ("f", ic))

    def pre(E_, st, frame):
        st.mem[base + ("disc",)] = cd
        st.mem[base + (("v", "Some"), ("f", 0))] = cv
    n = 0
    for i, p in enumerate(E.explore(b2, max_visits=2, arg_values={"_1": {(): selfp}}, pre=pre, max_paths=500)):
        if p.kind != "return":
            if p.kind == "bound":
                res.inconclusive.append("apply_arg_matches slice: path bound reached")
            continue
        n += 1
        ad = av = None
        for k, v in p.mem.items():
            if isinstance(k, tuple) and k and k[0] == "F1:%s" % local and ("f", ia) in k:
                if k[-1] == "disc":
                    ad = v
                elif k[-1] == ("f", 0):
                    av = v
        d1 = p.mem.get(base + ("disc",))
        v1 = p.mem.get(base + (("v", "Some"), ("f", 0)))
        if ad is None:
            res.inconclusive.append("apply_arg_matches slice path %d: the argument's discriminant was not read" % i)
            continue
        av = av if av is not None else z3.BitVec("unread_arg_value", 64)
        want_d = z3.If(ad == 0, cd, z3.If(av == 0, z3.IntVal(0), z3.IntVal(1)))
        want_v = z3.If(ad == 0, cv, av)
        ok = z3.And(d1 == want_d, z3.Implies(want_d == 1, v1 == want_v)) if v1 is not None else (d1 == want_d)
        m = E.model(p.cond, z3.Not(ok))
        if m is not None:
            what = ("--max-object-size %s with a configured limit of %s leaves the limit at %s" % (
                "absent" if m.eval(ad, True).as_long() == 0 else m.eval(av, True),
                "none" if m.eval(cd, True).as_long() == 0 else m.eval(cv, True),
                "none" if m.eval(d1, True).as_long() == 0 else (m.eval(v1, True) if v1 is not None else "?")))
            fn = mprop.write_cex(res, "cli_limit_%d" % i, p, E, what, m)
            res.violation("mir:cli-limit-mapping", "the command line's --max-object-size is not applied as documented (0 disables, n sets n): " + what, fn)
            break
    res.distinct += n
    if n < 1:
        res.inconclusive.append("vacuity: apply_arg_matches slice has %d returning paths" % n)


def run(res, tier):
    E = mprop.engine(res)
    res.extra.setdefault("source_files_sha256", {}).update(
        mprop.source_hashes(["src/collector/rrdp/base.rs", "src/collector/rrdp/http.rs", "src/collector/rrdp/update.rs"]))
    check_reader(res, E)
    check_load_ta(res, E)
    check_cli_limit(res, E)
    res.bounds += [
        "LimitedDataRead::read: ONE step from an arbitrary reader state (remaining budget None/Some(any u64)) with an "
        "arbitrary inner read result (Err, or Ok(any 64-bit count)); by induction on the step (budget = limit - "
        "delivered so far) this covers chunk sequences of any length",
        "Run::load_ta: limit None/Some(any u64) x Content-Length None/Some(any u64), all paths",
    ]
    res.assumptions += [
        "the inner reader returns counts <= buffer length (io::Read contract); usize is 64 bit",
        "reqwest's content_length() reports the header value; the HTTP client itself is opaque",
        "Option<u64> comparison has derive semantics (None < Some(_)), as in core",
    ]
    res.outside.append("that every RRDP publish/update element is read through LimitedDataRead with "
                       "config().max_object_size (read off update.rs; not asserted here)")
    res.rule = ("one case = one feasible returning MIR path; z3 queries compare the step result / budget update / "
                "refusal decision with the reference on 64-bit bit-vectors; evaluations = z3 queries")
    mprop.finish_engine(res, E)


_NATIVE = {}


def native_reader(res):
    if "r" not in _NATIVE:
        import nativetest
        failed, passed, out = nativetest.run_native_test("native_c38", "c38_native_reader_limit")
        obs = re.findall(r"C38-NATIVE (.*)", out)
        res.extra.setdefault("native_replays", []).append({"test": "c38_native_reader_limit", "failed": failed, "observed": obs[:2] or [out[-300:]]})
        _NATIVE["r"] = True if failed else (False if passed else None)
    return _NATIVE["r"]
