"""C29 RRDP-to-rsync fallback follows the documented policy table (M engine)."""
import re

import z3

import mir
import mprop

def _bb_timestamp(p, leaf):
    """is `leaf` the result of DateTime::timestamp applied to a FallbackTime::best_before result on this path?"""
    bb = {e.dest.get(()).id for e in p.events if e.kind == "call" and re.search(r"FallbackTime::best_before$", e.name)
          and isinstance(e.dest.get(()), mir.Opq)}
    for e in p.events:
        if e.kind == "call" and re.search(r"DateTime.*::timestamp$", e.name) and e.args:
            d = e.dest.get(())
            if d is not None and mir.is_z(d) and mir.is_z(leaf) and d.eq(leaf):
                a = e.args[0].get(())
                src = p.mem.get(a.loc) if isinstance(a, mir.Ref) else a
                return isinstance(src, mir.Opq) and src.id in bb
    return False


def check_refresh(res, E):
    """'current copy' means: the last successful update is younger than the fallback time. It is stored as
    best_before_ts, so every successful update must store a best-before freshly derived from the fallback time."""
    import nativetest
    sf = mir.struct_fields("RepositoryState", "src/collector/rrdp/archive.rs")
    ibb = sf.index("best_before_ts")
    n = 0
    bad = []
    # (1) not_modified: with a local copy, touch + update_state of the touched state, whatever the state holds
    body = E.prog.find("src/collector/rrdp/base.rs", "RepositoryUpdate", "not_modified")
    cur = z3.Int("in_current_disc")
    E.solver.add(z3.And(cur >= 0, cur <= 1))
    for i, p in enumerate(E.explore(body, max_visits=2, nomut=[r"."], arg_values={"_2": {("disc",): cur}})):
        if p.kind != "return":
            continue
        n += 1
        if not E.feasible(p.cond, cur == 1):
            continue
        touch = [x for x, e in enumerate(p.events) if e.kind == "call" and re.search(r"RepositoryState::touch$", e.name)]
        upd = [x for x, e in enumerate(p.events) if e.kind == "call" and re.search(r"RrdpArchive::update_state$", e.name)]
        ok = bool(touch) and any(u > touch[0] and isinstance(p.events[u].args[1].get(()), mir.Ref)
                                 and isinstance(p.events[touch[0]].args[0].get(()), mir.Ref)
                                 and p.events[u].args[1].get(()).loc == p.events[touch[0]].args[0].get(()).loc for u in upd)
        if not ok:
            bad.append(("not-modified-without-refresh", "RepositoryUpdate::not_modified returns with a local copy whose best-before was not refreshed "
                        "and written back (touch events %d, update_state events %d)" % (len(touch), len(upd)), p, "not_modified_%d" % i))
    # (2) touch and to_repository_state derive best_before_ts from FallbackTime::best_before
    body = E.prog.find("src/collector/rrdp/archive.rs", "RepositoryState", "touch")
    selfp = mir.Opq("&mut RepositoryState", "self")
    for i, p in enumerate(E.explore(body, max_visits=2, nomut=[r"."], arg_values={"_1": {(): selfp}})):
        if p.kind != "return":
            continue
        n += 1
        v = p.mem.get((("o", selfp.id), "deref", ("f", ibb)))
        if v is None or not _bb_timestamp(p, v):
            bad.append(("touch-not-from-fallback", "RepositoryState::touch leaves best_before_ts = %r, not FallbackTime::best_before().timestamp()" % (v,), p, "touch_%d" % i))
    body = E.prog.find("src/collector/rrdp/update.rs", "Notification", "to_repository_state")
    for i, p in enumerate(E.explore(body, max_visits=2, nomut=[r"."])):
        if p.kind != "return":
            continue
        n += 1
        v = p.ret.get((("f", ibb),))
        if v is None or not _bb_timestamp(p, v):
            bad.append(("new-state-not-from-fallback", "Notification::to_repository_state sets best_before_ts = %r, not FallbackTime::best_before().timestamp()" % (v,), p, "to_state_%d" % i))
    # (3) a completed delta update stores a state made by to_repository_state
    body = E.prog.find("src/collector/rrdp/base.rs", "RepositoryUpdate", "delta_update")
    for i, p in enumerate(E.explore(body, max_visits=2, nomut=[r"."], max_paths=4000)):
        if p.kind != "return":
            continue
        d, od = p.ret.get(("disc",)), p.ret.get((("v", "Ok"), ("f", 0), "disc"))
        if d is None or od is None or not E.feasible(p.cond, z3.And(d == 0, od == 0)):
            continue
        n += 1
        made = {e.dest.get(()).id for e in p.events if e.kind == "call" and re.search(r"to_repository_state$", e.name) and isinstance(e.dest.get(()), mir.Opq)}
        stored = False
        for e in p.events:
            if e.kind == "call" and re.search(r"RrdpArchive::update_state$", e.name) and len(e.args) > 1:
                a = e.args[1].get(())
                src = p.mem.get(a.loc) if isinstance(a, mir.Ref) else a
                stored = stored or (isinstance(src, mir.Opq) and src.id in made) or bool(made and isinstance(a, mir.Ref))
        if not stored:
            bad.append(("delta-update-without-new-state", "delta_update reports success without storing the state of the new notification", p, "delta_%d" % i))
    res.functions.append("routinator::collector::rrdp::{RepositoryUpdate::not_modified, RepositoryUpdate::delta_update, RepositoryState::touch, Notification::to_repository_state} (MIR)")
    res.distinct += n
    res.samples.append({"refresh_obligations_checked": n, "failed": [b[0] for b in bad]})
    if bad:
        failed, passed, out = nativetest.run_native_test("native_c29", "c29_native_not_modified_refreshes_best_before")
        res.evaluations += 1
        for key, what, p, tag in bad:
            fn = mprop.write_cex(res, tag, p, E, what + "\n\nnative replay (not_modified on expired / about-to-expire / fresh copies):\n" + out[-2500:])
            if failed or not key.startswith("not-modified"):
                res.violation("mir:refresh:" + key, what + "; a later failed update then sees an expired copy (Stale, falls back to rsync) although the copy is current", fn)
            else:
                res.inconclusive.append("refresh obligation %s failed symbolically but the native replay passed" % key)


def run(res, tier):
    E = mprop.engine(res)
    res.extra.setdefault("source_files_sha256", {}).update(
        mprop.source_hashes(["src/collector/base.rs", "src/collector/rrdp/base.rs", "src/config.rs"]))
    enums = E.prog.enums
    LR = enums["LoadResult"]
    FP = enums["FallbackPolicy"]
    run_fields = mir.struct_fields("Run", "src/collector/base.rs")
    coll_fields = mir.struct_fields("Collector", "src/collector/base.rs")
    body = E.prog.find("src/collector/base.rs", "Run", "repository")
    res.functions.append("routinator::collector::base::Run::repository (MIR, %d blocks)" % len(body.blocks))

    has_notify = z3.Int("in_has_notify")      # Option disc of ca.rpki_notify()
    rrdp_on = z3.Int("in_rrdp_enabled")       # Option disc of self.rrdp
    rsync_on = z3.Int("in_rsync_enabled")     # Option disc of self.rsync
    policy = z3.Int("in_policy")              # FallbackPolicy discriminant
    load_err = z3.Int("in_load_is_err")       # Result disc of load_repository
    load_res = z3.Int("in_load_result")       # LoadResult discriminant
    dom = z3.And(has_notify >= 0, has_notify <= 1, rrdp_on >= 0, rrdp_on <= 1, rsync_on >= 0, rsync_on <= 1,
                 policy >= 0, policy < len(FP), load_err >= 0, load_err <= 1, load_res >= 0, load_res < len(LR))
    E.solver.add(dom)

    self_ptr = mir.Opq("&collector::base::Run", "self")
    coll_ptr = mir.Opq("&Collector", "collector")

    def pre(E_, st, frame):
        base = (("o", self_ptr.id), "deref")
        st.mem[base + (("f", run_fields.index("collector")),)] = coll_ptr
        st.mem[base + (("f", run_fields.index("rsync")), "disc")] = rsync_on
        st.mem[base + (("f", run_fields.index("rrdp")), "disc")] = rrdp_on
        st.mem[(("o", coll_ptr.id), "deref", ("f", coll_fields.index("rrdp_fallback")), "disc")] = policy

    def m_notify(E_, st, frame, callee, argvals, dest_ty):
        return {("disc",): has_notify, (("v", "Some"), ("f", 0)): mir.Opq("&uri::Https", "notify")}

    def m_load(E_, st, frame, callee, argvals, dest_ty):
        st.events.append(mir.Event("rrdp::load_repository", argvals, None, ("", ""), "call", callee))
        return {("disc",): load_err, (("v", "Ok"), ("f", 0), "disc"): load_res,
                (("v", "Ok"), ("f", 0), ("v", "Updated"), ("f", 0)): mir.Opq("Arc<ReadRepository>", "repo")}

    paths = E.explore(body, max_visits=2, arg_values={"_1": {(): self_ptr}}, pre=pre,
                      models={r"CaCert::rpki_notify$": m_notify, r"rrdp::base::Run::load_repository$|rrdp::Run::load_repository$|Run::<'_>::load_repository$": m_load})
    iU, iS, iC, iUp = LR.index("Unavailable"), LR.index("Stale"), LR.index("Current"), LR.index("Updated")
    pN, pS, pNew = FP.index("Never"), FP.index("Stale"), FP.index("New")

    use_rrdp_path = z3.And(has_notify == 1, rrdp_on == 1)
    fallback = z3.Or(z3.And(load_res == iU, z3.Or(policy == pNew, policy == pS)),
                     z3.And(load_res == iS, policy == pS))
    exp_err = z3.And(use_rrdp_path, load_err == 1)
    exp_rrdp = z3.And(use_rrdp_path, load_err == 0, load_res == iUp)
    exp_rsync = z3.And(rsync_on == 1, z3.Or(z3.Not(use_rrdp_path),
                                           z3.And(use_rrdp_path, load_err == 0, fallback)))
    exp_none = z3.Not(z3.Or(exp_err, exp_rrdp, exp_rsync))
    # RRDP must not even be contacted when the CA has no rpkiNotify or RRDP is disabled
    n = 0
    seen = {}
    for i, p in enumerate(paths):
        if p.kind != "return":
            continue
        n += 1
        d = p.ret.get(("disc",))
        od = p.ret.get((("v", "Ok"), ("f", 0), "disc"))
        rsync_used = p.has(r"rsync::Run::load_module$")
        rrdp_ctor = p.has(r"Repository::rrdp$")
        rsync_ctor = p.has(r"Repository::rsync$")
        contacted = p.has(r"^rrdp::load_repository$")
        if d is None:
            res.inconclusive.append("path %d: no discriminant on the return value" % i)
            continue
        if not E.feasible(p.cond, d == 0):
            outcome, exp = "err", exp_err
        elif od is not None and not E.feasible(p.cond, z3.And(d == 0, od == 1)):
            outcome, exp = "none", exp_none
        elif rrdp_ctor and not rsync_used:
            outcome, exp = "rrdp", exp_rrdp
        elif rsync_ctor and rsync_used:
            outcome, exp = "rsync", exp_rsync
        else:
            outcome, exp = "other", z3.BoolVal(False)
        seen[outcome] = seen.get(outcome, 0) + 1
        m = E.model(p.cond, z3.Not(exp))
        if m is not None:
            vals = {str(v): m.eval(v, model_completion=True).as_long() for v in
                    (has_notify, rrdp_on, rsync_on, policy, load_err, load_res)}
            desc = ("outcome '%s' for has_notify=%d rrdp_enabled=%d rsync_enabled=%d policy=%s load=%s%s"
                    % (outcome, vals["in_has_notify"], vals["in_rrdp_enabled"], vals["in_rsync_enabled"],
                       FP[vals["in_policy"]], "Err" if vals["in_load_is_err"] else LR[vals["in_load_result"]],
                       "" if contacted else " (RRDP not contacted)"))
            fn = mprop.write_cex(res, "table_%d" % i, p, E, desc, m)
            res.violation("mir:fallback-table:%s:%s" % (outcome, FP[vals["in_policy"]]),
                          "Run::repository deviates from the fallback table: " + desc, fn)
        m = E.model(p.cond, z3.And(z3.Not(use_rrdp_path), z3.BoolVal(contacted)))
        if m is not None:
            fn = mprop.write_cex(res, "rrdp_contacted_%d" % i, p, E, "RRDP contacted without rpkiNotify / with RRDP disabled", m)
            res.violation("mir:rrdp-contacted-unnecessarily", "RRDP repository loaded for a CA without rpkiNotify or with RRDP disabled", fn)
        res.samples.append({"outcome": outcome, "rrdp_contacted": contacted,
                            "events": [e.name.split("::")[-1] for e in p.events if e.kind == "call"][:8]})
    # completeness: every input combination is covered by some path (no silent gap in the exploration)
    union = z3.Or([z3.And(p.cond) for p in paths if p.kind == "return"]) if n else z3.BoolVal(False)
    if E.feasible([dom], z3.Not(union)):
        res.inconclusive.append("exploration does not cover every input combination")
    for o in ("err", "none", "rrdp", "rsync"):
        if not seen.get(o):
            res.inconclusive.append("vacuity: no path with outcome %s" % o)
    res.distinct += n
    res.extra["paths"] = len(paths)
    res.extra["outcomes"] = seen

    # ---- try_update: classification of a failed / successful update ---------------------
    body2 = E.prog.find("src/collector/rrdp/base.rs", "RepositoryUpdate", "try_update")
    res.functions.append("routinator::collector::rrdp::base::RepositoryUpdate::try_update (MIR, %d blocks)" % len(body2.blocks))
    paths2 = E.explore(body2, max_visits=2)
    n2 = 0
    cls = {}
    for i, p in enumerate(paths2):
        if p.kind != "return":
            continue
        d = p.ret.get(("disc",))
        if d is None or not E.feasible(p.cond, d == 0):
            continue
        lr = p.ret.get((("v", "Ok"), ("f", 0), ("f", 0), "disc"))
        if lr is None:
            res.inconclusive.append("try_update path %d: result variant unknown" % i)
            continue
        upd = [e for e in p.events if e.kind == "call" and re.search(r"RepositoryUpdate::update$", e.name)]
        exp_ev = [e for e in p.events if e.kind == "call" and re.search(r"RepositoryState::is_expired$", e.name)]
        bb = [e for e in p.events if e.kind == "call" and re.search(r"Option::and_then$", e.name)]
        if not upd:
            fn = mprop.write_cex(res, "try_update_no_update_%d" % i, p, E, "try_update returns Ok without calling update()")
            res.violation("mir:try-update-without-update", "try_update reports a result without attempting the update", fn)
            continue
        uleaf = upd[0].dest.get(())
        is_upd = mir.peek(E, p.mem, (("o", uleaf.id), ("v", "Ok"), ("f", 0))) if isinstance(uleaf, mir.Opq) else None
        if is_upd is None or not mir.is_z(is_upd):
            res.inconclusive.append("try_update path %d: update() result not symbolic" % i)
            continue
        n2 += 1
        expired = exp_ev[0].dest.get(()) if exp_ev else None
        have_copy = bool(exp_ev)
        is_current = z3.And(z3.BoolVal(have_copy), z3.Not(expired)) if expired is not None and mir.is_z(expired) else z3.BoolVal(False)
        bbd = None
        if bb:
            bl = bb[0].dest.get(())
            bbd = mir.peek(E, p.mem, (("o", bl.id), "disc")) if isinstance(bl, mir.Opq) else bb[0].dest.get(("disc",))
        has_bb = (bbd == 1) if bbd is not None else z3.BoolVal(False)
        expect = z3.If(is_upd, z3.IntVal(iUp),
                       z3.If(is_current, z3.IntVal(iC), z3.If(has_bb, z3.IntVal(iS), z3.IntVal(iU))))
        m = E.model(p.cond, lr != expect)
        if m is not None:
            fn = mprop.write_cex(res, "try_update_class_%d" % i, p, E,
                                 "try_update classifies the outcome differently from: Updated iff update() true; "
                                 "else Current iff a copy exists and is not expired; else Stale iff best_before; else Unavailable", m)
            res.violation("mir:try-update-classification", "try_update maps the update outcome to the wrong LoadResult", fn)
        for k, nm in enumerate(LR):
            if E.feasible(p.cond, lr == k):
                cls[nm] = cls.get(nm, 0) + 1
    res.distinct += n2
    res.extra["try_update_paths"] = len(paths2)
    res.extra["try_update_classes"] = cls
    for nm in LR:
        if not cls.get(nm):
            res.inconclusive.append("vacuity: try_update never yields %s" % nm)
    check_refresh(res, E)
    import c06
    c06.check_cli_policy(res, E, name="rrdp_fallback", flag="--rrdp-fallback",
                         consequence="the fallback table is then evaluated with another policy than the one the operator gave")
    res.bounds.append("all paths of Run::repository and RepositoryUpdate::try_update (loop-free); the six inputs "
                      "(rpkiNotify present, RRDP enabled, rsync enabled, policy, load Ok/Err, load result) are "
                      "symbolic integers: the full product is decided by z3 per path, not enumerated")
    res.assumptions += [
        "rrdp::Run::load_repository, rsync::Run::load_module, RepositoryUpdate::update, RepositoryState::is_expired "
        "and best_before are opaque (any outcome)",
        "enum discriminant order is read from the current source (LoadResult, FallbackPolicy)",
    ]
    res.rule = ("one case = one feasible returning MIR path; for each, z3 searches for an input assignment on that "
                "path whose documented outcome differs from the path's outcome; evaluations = z3 queries")
    import argslice
    for nm, fl in (("disable_rsync", "--disable-rsync"), ("disable_rrdp", "--disable-rrdp")):
        argslice.check_cli_flag(res, E, mprop, nm, fl, "a transport the operator disabled is then used (or an enabled one is not)")
    mprop.finish_engine(res, E)
