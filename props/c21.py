"""C21 Output formats list exactly the selected payload, well-formed (M engine: selection predicate + JSON escaping routing)."""
import re

import z3

import mir
import mprop
from gating import must, disc_of

F = "src/output.rs"
JSON_FORMATTERS = ["Json", "ExtendedJson", "Slurm", "Slurm2"]


def check_selection(res, E):
    covers = z3.Function("covers", z3.IntSort(), z3.IntSort(), z3.BoolSort())

    def m_covers(E_, st, frame, callee, argvals, dest_ty):
        a = argvals[0].get(())
        b = argvals[1].get(())
        if a is None or b is None:
            return NotImplemented
        st.events.append(mir.Event("Prefix::covers", argvals, None, ("", ""), "pure", callee))
        return {(): covers(E_.ord_var(a), E_.ord_var(b))}

    body = E.prog.find(F, "SelectResource", "include_origin")
    res.functions.append("output::SelectResource::{include_origin, include_router_key, include_aspa}, Selection::include_*, Output::include_* (MIR)")
    SR = E.prog.enums["SelectResource"]
    disc = z3.Int("rule_kind")
    E.solver.add(z3.And(disc >= 0, disc < len(SR)))
    rule_asn = z3.BitVec("rule_asn", 32)
    rule_prefix = mir.Opq("Prefix", "rule_prefix")
    o_asn = z3.BitVec("origin_asn", 32)
    o_prefix = mir.Opq("Prefix", "origin_prefix")
    ms = z3.Bool("more_specifics")

    def m_prefix(E_, st, frame, callee, argvals, dest_ty):
        return {(): o_prefix}
    rule = {("disc",): disc, (("v", "Asn"), ("f", 0)): rule_asn, (("v", "Asn"), ("f", 0), ("f", 0)): rule_asn,
            (("v", "Prefix"), ("f", 0)): rule_prefix}
    origin = {(("f", 1),): o_asn, (("f", 1), ("f", 0)): o_asn}
    paths = E.explore(body, max_visits=2, nomut=[r"."], arg_values={"_1": rule, "_2": origin, "_3": {(): ms}},
                      models={r"Prefix::covers$": m_covers, r"MaxLenPrefix::prefix$": m_prefix})
    n = 0
    pv, ov = E.ord_var(rule_prefix), E.ord_var(o_prefix)
    expect = z3.If(disc == SR.index("Asn"), o_asn == rule_asn,
                   z3.Or(covers(ov, pv), z3.And(ms, covers(pv, ov))))
    for i, p in enumerate(paths):
        if p.kind != "return":
            continue
        r = p.ret.get(())
        if not mir.is_z(r):
            res.inconclusive.append("include_origin path %d: result not symbolic (%r)" % (i, r))
            continue
        n += 1
        m = E.model(p.cond, r != expect)
        if m is not None:
            fn = mprop.write_cex(res, "include_origin_%d" % i, p, E,
                                 "SelectResource::include_origin differs from: ASN rule selects equal ASN; prefix rule selects "
                                 "origins whose prefix covers the rule's prefix, plus more specifics of it when requested", m)
            res.violation("mir:selection:include-origin", "the origin selection predicate deviates from the documented one "
                          "(rule kind %s, more-specifics %s)" % (SR[m.eval(disc, True).as_long()], m.eval(ms, True)), fn)
    if n < 2:
        res.inconclusive.append("vacuity: include_origin paths=%d" % n)
    # router keys / ASPAs: only ASN rules select
    for meth, getter in (("include_router_key", "asn"), ("include_aspa", "customer")):
        b = E.prog.find(F, "SelectResource", meth)
        k_asn = z3.BitVec(meth + "_asn", 32)
        item = mir.Opq("&item", "item")
        ps = E.explore(b, max_visits=2, nomut=[r"."], arg_values={"_1": rule, "_2": {(): item}})
        for i, p in enumerate(ps):
            if p.kind != "return":
                continue
            r = p.ret.get(())
            n += 1
            if not mir.is_z(r):
                res.inconclusive.append("%s path %d: result not symbolic" % (meth, i))
                continue
            # a prefix rule never selects a router key / ASPA
            if E.feasible(p.cond, z3.And(disc == SR.index("Prefix"), r)):
                fn = mprop.write_cex(res, "%s_prefix_%d" % (meth, i), p, E, "a prefix rule selects a router key / ASPA")
                res.violation("mir:selection:%s-prefix-rule" % meth, "%s: a select-prefix rule selects items that have no prefix" % meth, fn)
    # Selection::include_*: true iff some rule includes (loop to exhaustion)
    for meth, inner in (("include_origin", r"SelectResource::include_origin$"), ("include_router_key", r"SelectResource::include_router_key$"),
                        ("include_aspa", r"SelectResource::include_aspa$")):
        b = E.prog.find(F, "Selection", meth)
        ps = E.explore(b, max_visits=3, nomut=[r"."])
        for i, p in enumerate(ps):
            if p.kind != "return":
                continue
            n += 1
            r = p.ret.get(())
            calls = [e for e in p.events if e.kind == "call" and re.search(inner, e.name)]
            nx = [e for e in p.events if e.kind == "call" and re.search(r"Iterator::next$", e.name)]
            if not mir.is_z(r):
                continue
            any_true = z3.Or([c.dest.get(()) for c in calls if mir.is_z(c.dest.get(()))] or [z3.BoolVal(False)])
            m = E.model(p.cond, r != any_true)
            if m is not None:
                fn = mprop.write_cex(res, "selection_%s_%d" % (meth, i), p, E, "Selection::%s is not 'some rule includes the item'" % meth, m)
                res.violation("mir:selection:any-" + meth, "Selection::%s does not return whether some rule selects the item" % meth, fn)
            if must(E, p, z3.Not(r)) and nx:
                d = disc_of(E, p, nx[-1])
                if d is None or not must(E, p, d == 0):
                    fn = mprop.write_cex(res, "selection_early_%s_%d" % (meth, i), p, E, "Selection::%s returns false before all rules were tried" % meth)
                    res.violation("mir:selection:early-false-" + meth, "Selection::%s gives up before trying every rule" % meth, fn)
        ob = E.prog.find(F, "Output", meth)
        for i, p in enumerate(E.explore(ob, max_visits=2, nomut=[r"."])):
            if p.kind != "return":
                continue
            n += 1
            r = p.ret.get(())
            sel = [e for e in p.events if e.kind == "call" and re.search(r"Selection::" + meth + "$", e.name)]
            if not sel and mir.is_z(r) and E.feasible(p.cond, z3.Not(r)):
                fn = mprop.write_cex(res, "output_%s_%d" % (meth, i), p, E, "without a selection an item is excluded")
                res.violation("mir:selection:none-excludes-" + meth, "Output::%s excludes items although no selection is configured" % meth, fn)
    res.distinct += n
    return n


def check_json_escaping(res, E):
    """In the JSON-family formatters every string that comes from data (trust-anchor name, path, comment) is
    passed through json_str before it is formatted."""
    n = 0
    raw_sites = []
    for name, bodies in E.prog.bodies.items():
        m = re.search(r"<impl at src/output\.rs:(\d+):", name)
        if not m:
            continue
        st = E.prog.self_type(name)
        if not st or st[0] not in JSON_FORMATTERS:
            continue
        meth = name.split("::")[-1]
        for b in bodies:
            b.parse()
            try:
                paths = E.explore(b, max_visits=3, nomut=[r"."], max_paths=3000)
            except mir.Inconclusive:
                continue
            for p in paths:
                tn = [e for e in p.events if e.kind == "call" and re.search(r"(tal_name|TalInfo::name)$", e.name)]
                if not tn:
                    continue
                js_args = set()
                for e in p.events:
                    if e.kind == "call" and re.search(r"json_str$", e.name) and e.args:
                        l = e.args[0].get(())
                        if l is not None:
                            js_args.add(id(l))
                unwraps = [e for e in p.events if e.kind == "call" and re.search(r"Option::unwrap_or$", e.name)]
                for t in tn:
                    n += 1
                    tl = t.dest.get(())
                    derived = [u.dest.get(()) for u in unwraps if u.args and u.args[0].get(()) is tl] + [tl]
                    if not any(id(d) in js_args for d in derived if d is not None):
                        raw_sites.append("%s::%s" % (st[0], meth))
    raw_sites = sorted(set(raw_sites))
    res.extra["json_formatters_raw_name_sites"] = raw_sites
    if raw_sites:
        ok, note = native_replay(res)
        fn = mprop.write_cex(res, "raw_tal_name", mir.Path(mir.State(), {}, "static"), E,
                             "trust-anchor name formatted into JSON without json_str in: %s. %s" % (", ".join(raw_sites), note))
        if ok is False:
            res.inconclusive.append("unescaped trust-anchor name did not reproduce natively")
        else:
            res.violation("mir:json-output:raw-tal-name",
                          "JSON / SLURM output writes the trust-anchor name unescaped (%s)%s" % (", ".join(raw_sites), "; reproduced natively" if ok else ""), fn)
    if n == 0:
        res.inconclusive.append("vacuity: no trust-anchor name use found in the JSON formatters")
    res.distinct += max(n, 0)
    return n


def native_replay(res):
    import nativetest
    failed, passed, out = nativetest.run_native_test("native_c21", "c21_native")
    obs = re.findall(r"C21-NATIVE (.*)", out)
    res.extra.setdefault("native_replays", []).append({"test": "c21_native_tal_name_with_quote", "failed": failed, "observed": obs[:6]})
    if failed:
        return True, "native: " + "; ".join(obs[:4])
    if passed:
        return False, "native test passed"
    return None, "native replay could not be built/run: " + out[-300:]


def run(res, tier):
    E = mprop.engine(res)
    res.extra.setdefault("source_files_sha256", {}).update(mprop.source_hashes([F, "src/utils/json.rs"]))
    check_selection(res, E)
    check_json_escaping(res, E)
    res.bounds.append("selection: one rule vs one item with symbolic ASNs, opaque prefixes and an uninterpreted `covers` relation; "
                      "rule lists of up to 2 rules; JSON formatters: every path of every item writer of Json, ExtendedJson, Slurm, Slurm2")
    res.assumptions += ["Prefix::covers is rpki-rs's containment test (checked against integers under C20)",
                        "json_str produces valid JSON string content (C22)"]
    res.outside += ["whole-document layout of the 13 formats (dyn Formatter state machine through core::fmt); 'once each' relies on the "
                    "snapshot's de-duplication (C09); parsing SLURM output back"]
    res.rule = ("one case = one path of a selection function (z3: result equals the documented predicate) or one trust-anchor-name "
                "use in a JSON-family formatter (routed through json_str); evaluations = z3 queries")
    mprop.finish_engine(res, E)
