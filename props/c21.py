"""C21 Output formats list exactly the selected payload, well-formed (M engine: selection predicate + JSON escaping routing)."""
import re

import z3

import mir
import mprop
from gating import must, disc_of

F = "src/output.rs"
JSON_FORMATTERS = ["Json", "ExtendedJson", "Slurm", "Slurm2"]


def check_selection(res, E):
    covers = z3.Function("covers", z3.IntSort(), z3.IntSort(), z3.BoolSort())

    def m_covers(E_, st, frame, callee, argvals, dest_ty):
        a = argvals[0].get(())
        b = argvals[1].get(())
        if a is None or b is None:
            return NotImplemented
        st.events.append(mir.Event("Prefix::covers", argvals, None, ("", ""), "pure", callee))
        return {(): covers(E_.ord_var(a), E_.ord_var(b))}

    body = E.prog.find(F, "SelectResource", "include_origin")
    res.functions.append("output::SelectResource::{include_origin, include_router_key, include_aspa}, Selection::include_*, Output::include_* (MIR)")
    SR = E.prog.enums["SelectResource"]
    disc = z3.Int("rule_kind")
    E.solver.add(z3.And(disc >= 0, disc < len(SR)))
    rule_asn = z3.BitVec("rule_asn", 32)
    rule_prefix = mir.Opq("Prefix", "rule_prefix")
    o_asn = z3.BitVec("origin_asn", 32)
    o_prefix = mir.Opq("Prefix", "origin_prefix")
    ms = z3.Bool("more_specifics")

    def m_prefix(E_, st, frame, callee, argvals, dest_ty):
        return {(): o_prefix}
    rule = {("disc",): disc, (("v", "Asn"), ("f", 0)): rule_asn, (("v", "Asn"), ("f", 0), ("f", 0)): rule_asn,
            (("v", "Prefix"), ("f", 0)): rule_prefix}
    origin = {(("f", 1),): o_asn, (("f", 1), ("f", 0)): o_asn}
    paths = E.explore(body, max_visits=2, nomut=[r"."], arg_values={"_1": rule, "_2": origin, "_3": {(): ms}},
                      models={r"Prefix::covers$": m_covers, r"MaxLenPrefix::prefix$": m_prefix})
    n = 0
    pv, ov = E.ord_var(rule_prefix), E.ord_var(o_prefix)
    expect = z3.If(disc == SR.index("Asn"), o_asn == rule_asn,
                   z3.Or(covers(ov, pv), z3.And(ms, covers(pv, ov))))
    for i, p in enumerate(paths):
        if p.kind != "return":
            continue
        r = p.ret.get(())
        if not mir.is_z(r):
            res.inconclusive.append("include_origin path %d: result not symbolic (%r)" % (i, r))
            continue
        n += 1
        if len(res.samples) < 6:
            res.samples.append({"function": "SelectResource::include_origin", "path_condition": [str(z3.simplify(c))[:120] for c in p.cond][:4],
                                "result": str(z3.simplify(r))[:160]})
        m = E.model(p.cond, r != expect)
        if m is not None:
            fn = mprop.write_cex(res, "include_origin_%d" % i, p, E,
                                 "SelectResource::include_origin differs from: ASN rule selects equal ASN; prefix rule selects "
                                 "origins whose prefix covers the rule's prefix, plus more specifics of it when requested", m)
            res.violation("mir:selection:include-origin", "the origin selection predicate deviates from the documented one "
                          "(rule kind %s, more-specifics %s)" % (SR[m.eval(disc, True).as_long()], m.eval(ms, True)), fn)
    if n < 2:
        res.inconclusive.append("vacuity: include_origin paths=%d" % n)
    # router keys / ASPAs: only ASN rules select
    for meth, getter in (("include_router_key", "asn"), ("include_aspa", "customer")):
        b = E.prog.find(F, "SelectResource", meth)
        k_asn = z3.BitVec(meth + "_asn", 32)
        item = mir.Opq("&item", "item")
        ps = E.explore(b, max_visits=2, nomut=[r"."], arg_values={"_1": rule, "_2": {(): item}})
        for i, p in enumerate(ps):
            if p.kind != "return":
                continue
            r = p.ret.get(())
            n += 1
            if not mir.is_z(r):
                res.inconclusive.append("%s path %d: result not symbolic" % (meth, i))
                continue
            # a prefix rule never selects a router key / ASPA
            if E.feasible(p.cond, z3.And(disc == SR.index("Prefix"), r)):
                fn = mprop.write_cex(res, "%s_prefix_%d" % (meth, i), p, E, "a prefix rule selects a router key / ASPA")
                res.violation("mir:selection:%s-prefix-rule" % meth, "%s: a select-prefix rule selects items that have no prefix" % meth, fn)
    # Selection::include_*: true iff some rule includes (loop to exhaustion)
    for meth, inner in (("include_origin", r"SelectResource::include_origin$"), ("include_router_key", r"SelectResource::include_router_key$"),
                        ("include_aspa", r"SelectResource::include_aspa$")):
        b = E.prog.find(F, "Selection", meth)
        ps = E.explore(b, max_visits=3, nomut=[r"."])
        for i, p in enumerate(ps):
            if p.kind != "return":
                continue
            n += 1
            r = p.ret.get(())
            calls = [e for e in p.events if e.kind == "call" and re.search(inner, e.name)]
            nx = [e for e in p.events if e.kind == "call" and re.search(r"Iterator::next$", e.name)]
            if not mir.is_z(r):
                continue
            any_true = z3.Or([c.dest.get(()) for c in calls if mir.is_z(c.dest.get(()))] or [z3.BoolVal(False)])
            m = E.model(p.cond, r != any_true)
            if m is not None:
                fn = mprop.write_cex(res, "selection_%s_%d" % (meth, i), p, E, "Selection::%s is not 'some rule includes the item'" % meth, m)
                res.violation("mir:selection:any-" + meth, "Selection::%s does not return whether some rule selects the item" % meth, fn)
            if must(E, p, z3.Not(r)) and nx:
                d = disc_of(E, p, nx[-1])
                if d is None or not must(E, p, d == 0):
                    fn = mprop.write_cex(res, "selection_early_%s_%d" % (meth, i), p, E, "Selection::%s returns false before all rules were tried" % meth)
                    res.violation("mir:selection:early-false-" + meth, "Selection::%s gives up before trying every rule" % meth, fn)
        ob = E.prog.find(F, "Output", meth)
        for i, p in enumerate(E.explore(ob, max_visits=2, nomut=[r"."])):
            if p.kind != "return":
                continue
            n += 1
            r = p.ret.get(())
            sel = [e for e in p.events if e.kind == "call" and re.search(r"Selection::" + meth + "$", e.name)]
            if not sel and mir.is_z(r) and E.feasible(p.cond, z3.Not(r)):
                fn = mprop.write_cex(res, "output_%s_%d" % (meth, i), p, E, "without a selection an item is excluded")
                res.violation("mir:selection:none-excludes-" + meth, "Output::%s excludes items although no selection is configured" % meth, fn)
    n += check_selection_building(res, E, SR)
    res.distinct += n
    return n


_SEL_NATIVE = {}


def native_selection(res):
    if "r" not in _SEL_NATIVE:
        import nativetest
        failed, passed, out = nativetest.run_native_test("native_c21", "c21_native_selection_rules")
        obs = re.findall(r"C21-NATIVE-SEL (.*)", out)
        res.extra.setdefault("native_replays", []).append({"test": "c21_native_selection_rules", "failed": failed, "observed": obs[:8]})
        _SEL_NATIVE["r"] = True if failed else (False if passed else None)
    return _SEL_NATIVE["r"]


def check_selection_building(res, E, SR):
    """Every select-prefix / select-asn value the user gives becomes one rule: push_prefix / push_asn append
    unconditionally, and update_from_query appends a rule for every parsed value."""
    n = 0
    PUSH = r"^Vec::<.*SelectResource.*>::push$|^Vec::<SelectResource>::push$"
    for meth, variant in (("push_prefix", "Prefix"), ("push_asn", "Asn")):
        b = E.prog.find(F, "Selection", meth)
        arg = mir.Opq(variant, "selected_value")
        ps = E.explore(b, max_visits=3, arg_values={"_2": {(): arg}})
        for i, p in enumerate(ps):
            if p.kind != "return":
                continue
            n += 1
            pushes = [e for e in p.events if e.kind == "call" and re.search(PUSH, e.callee or e.name)]
            good = len(pushes) == 1
            if good:
                v = pushes[0].args[1]
                d = v.get(("disc",))
                payload = v.get((("v", variant), ("f", 0)))
                good = d is not None and must(E, p, d == SR.index(variant)) and payload is arg
            if not good:
                fn = mprop.write_cex(res, "selection_%s_%d" % (meth, i), p, E,
                                     "Selection::%s does not append exactly the given value as a %s rule on this path "
                                     "(%d pushes)" % (meth, variant, len(pushes)))
                ok = native_selection(res)
                if ok is False:
                    res.inconclusive.append("Selection::%s: path without the push did not reproduce natively" % meth)
                else:
                    res.violation("mir:selection:%s-drops-value" % meth,
                                  "Selection::%s can return without appending the rule for the value it was given: the "
                                  "output then omits payload the user selected%s" % (meth, "; reproduced natively" if ok else ""), fn)
                break
    ob = E.prog.find(F, "Output", "update_from_query")
    ps = E.explore(ob, max_visits=2, nomut=[r"Iterator::next$|::from_str$|::eq$|PartialEq"], inline=[r"Selection::push_(prefix|asn)$"], max_paths=50000)
    seen_parse = 0
    bad = False
    for i, p in enumerate(ps):
        if p.kind not in ("return", "bound") or bad:
            continue
        seg = []
        segs = [seg]
        for e in p.events:
            if e.kind != "call":
                continue
            if re.search(r"Iterator::next$", e.name) and "Parse" in (e.callee or ""):
                seg = []
                segs.append(seg)
                continue
            seg.append(e)
        for sg in segs[1:]:
            parsed = [e for e in sg if re.search(r"(Prefix|Asn) as FromStr>::from_str$|(Prefix|Asn)::from_str$", e.callee or e.name)]
            if not parsed:
                continue
            d = disc_of(E, p, parsed[-1])
            if d is None or not must(E, p, d == 0):
                continue
            # the segment is complete if the loop went on (another next follows) or the function returned Ok
            complete = sg is not segs[-1] or (p.kind == "return" and p.ret.get(("disc",)) is not None and must(E, p, p.ret[("disc",)] == 0))
            if not complete:
                continue
            seen_parse += 1
            n += 1
            if not any(re.search(PUSH, e.callee or e.name) for e in sg):
                fn = mprop.write_cex(res, "query_value_dropped_%d" % i, p, E,
                                     "a select-prefix / select-asn value was parsed successfully but no rule was appended for it")
                ok = native_selection(res)
                if ok is False:
                    res.inconclusive.append("update_from_query: dropped value did not reproduce natively")
                else:
                    res.violation("mir:selection:query-value-dropped",
                                  "Output::update_from_query can drop a successfully parsed select-prefix / select-asn value "
                                  "(no rule appended): the output omits payload the user selected%s" % ("; reproduced natively" if ok else ""), fn)
                bad = True
                break
    res.samples.append({"function": "Output::update_from_query", "paths": len(ps), "parsed_value_segments_checked": seen_parse})
    if seen_parse < 2:
        res.inconclusive.append("vacuity: update_from_query: only %d parsed-value segments seen" % seen_parse)
    return n


def check_source_array(res, E, chain_len):
    """ExtendedJson::payload_info writes the per-item "source" array: for every chain of 0..chain_len sources (each a
    published object or a local exception, every optional field present or absent) the written text - placeholders
    replaced by a digit - must be the comma-separated content of a JSON array with one element per source."""
    import json as _json
    from c18 import _rust_bytes, _decode_template
    body = E.prog.find(F, "ExtendedJson", "payload_info")
    res.functions.append("output::ExtendedJson::payload_info (MIR): text of the per-item source array, chains of up to %d sources" % chain_len)
    kinds = [z3.Int("source_%d_is_exception" % i) for i in range(chain_len)]
    n_src = z3.Int("n_sources")
    E.solver.add(n_src >= 0, n_src <= chain_len)
    for k in kinds:
        E.solver.add(z3.Or(k == 0, k == 1))

    def tok(st, frame, text):
        st.events.append(mir.Event("TXT", [text], None, (frame["body"].name, ""), "tok"))

    def m_into_iter(E_, st, frame, callee, argvals, dest_ty):
        return {("pos",): z3.IntVal(0)}

    def m_next(E_, st, frame, callee, argvals, dest_ty):
        r = argvals[0].get(())
        if not isinstance(r, mir.Ref):
            return NotImplemented
        cur = E_.load(st, r.loc)
        if ("pos",) not in cur:
            return NotImplemented
        pos = cur[("pos",)].as_long()
        if pos >= chain_len:
            return {("disc",): z3.IntVal(0)}
        E_.store(st, r.loc, {("pos",): z3.IntVal(pos + 1)})
        st.events.append(mir.Event("SRC", [pos], None, (frame["body"].name, ""), "tok"))
        return {("disc",): z3.If(pos < n_src, z3.IntVal(1), z3.IntVal(0)),
                (("v", "Some"), ("f", 0), "srcno"): z3.IntVal(pos)}

    def which(v):
        x = v.get(("srcno",))
        return x.as_long() if x is not None else None

    def m_publish(E_, st, frame, callee, argvals, dest_ty):
        i = which(argvals[0])
        if i is None:
            return NotImplemented
        return {("disc",): z3.If(kinds[i] == 0, z3.IntVal(1), z3.IntVal(0)), (("v", "Some"), ("f", 0)): mir.Opq("&PublishInfo", "pub%d" % i)}

    def m_exception(E_, st, frame, callee, argvals, dest_ty):
        i = which(argvals[0])
        if i is None:
            return NotImplemented
        return {("disc",): z3.If(kinds[i] == 1, z3.IntVal(1), z3.IntVal(0)), (("v", "Some"), ("f", 0)): mir.Opq("&ExceptionInfo", "exc%d" % i)}

    def m_argument(E_, st, frame, callee, argvals, dest_ty):
        return {("akind",): mir.Str("arg")}

    def m_arguments(E_, st, frame, callee, argvals, dest_ty):
        return {("tmpl",): argvals[0].get(())}

    def m_arguments_str(E_, st, frame, callee, argvals, dest_ty):
        return {("fromstr",): argvals[0].get(())}

    def m_write_fmt(E_, st, frame, callee, argvals, dest_ty):
        a = argvals[1]
        try:
            if isinstance(a.get(("fromstr",)), mir.Str):
                text = _rust_bytes(a[("fromstr",)].s)
            elif isinstance(a.get(("tmpl",)), mir.Str):
                text = b"".join(p_[1] if p_[0] == "lit" else b"0" for p_ in _decode_template(_rust_bytes(a[("tmpl",)].s)))
            else:
                return NotImplemented
        except Exception:
            return NotImplemented
        tok(st, frame, text.decode("utf-8", "replace"))
        return {("disc",): z3.IntVal(0), (("v", "Ok"), ("f", 0)): mir.Str("()")}

    paths = E.explore(body, max_visits=chain_len + 2, nomut=[r"."], max_paths=100000, models={
        r"^<&PayloadInfo as IntoIterator>::into_iter$": m_into_iter,
        r"^<PayloadInfoIter<'_> as Iterator>::next$": m_next,
        r"PayloadInfo::publish_info$": m_publish, r"PayloadInfo::exception_info$": m_exception,
        r"^core::fmt::rt::Argument::<'_>::new_": m_argument, r"^Arguments::<'_>::new::<": m_arguments,
        r"^Arguments::<'_>::from_str$": m_arguments_str,
        r"^<impl (std::)?io::Write as (std::)?io::Write>::write_fmt$": m_write_fmt,
    })
    n = 0
    shapes = set()
    for i, p in enumerate(paths):
        if p.kind == "bound":
            if E.feasible(p.cond):
                res.inconclusive.append("payload_info: a path exceeds the chain bound")
            continue
        if p.kind != "return":
            continue
        d = p.ret.get(("disc",))
        if d is None or not E.feasible(p.cond, d == 0):
            continue
        mdl = E.model(p.cond)
        nn = mdl.eval(n_src, True).as_long()
        text = "".join(e.args[0] for e in p.events if e.kind == "tok" and e.name == "TXT")
        n += 1
        shapes.add(text)
        try:
            arr = _json.loads("[" + text + "]")
            good = isinstance(arr, list) and len(arr) == nn and all(isinstance(x, dict) and "type" in x for x in arr)
            why = "" if good else "it has %d elements for %d sources" % (len(arr), nn)
        except ValueError as ex:
            good, why = False, str(ex)
        if not good and not any(v["key"] == "mir:jsonext-source-array" for v in res.violations):
            ks = ["exception" if mdl.eval(kinds[k], True).as_long() else "published object" for k in range(nn)]
            fn = mprop.write_cex(res, "source_array_%d" % i, p, E,
                                 "sources %s: payload_info writes `%s`, which is not the content of a JSON array with one object per source (%s)"
                                 % (ks, text[:400], why), mdl)
            res.violation("mir:jsonext-source-array",
                          "the jsonext \"source\" array is malformed for an item with the sources %s: `[%s]` (%s)" % (ks, text[:200], why), fn)
    res.samples.append({"function": "ExtendedJson::payload_info", "paths_checked": n, "distinct_texts": len(shapes)})
    res.distinct += len(shapes)
    if n < 4:
        res.inconclusive.append("vacuity: payload_info paths=%d" % n)


def check_json_escaping(res, E):
    """In the JSON-family formatters every string that comes from data (trust-anchor name, path, comment) is
    passed through json_str before it is formatted."""
    n = 0
    raw_sites = []
    for name, bodies in E.prog.bodies.items():
        m = re.search(r"<impl at src/output\.rs:(\d+):", name)
        if not m:
            continue
        st = E.prog.self_type(name)
        if not st or st[0] not in JSON_FORMATTERS:
            continue
        meth = name.split("::")[-1]
        for b in bodies:
            b.parse()
            try:
                paths = E.explore(b, max_visits=3, nomut=[r"."], max_paths=3000)
            except mir.Inconclusive:
                continue
            for p in paths:
                tn = [e for e in p.events if e.kind == "call" and re.search(r"(tal_name|TalInfo::name)$", e.name)]
                if not tn:
                    continue
                js_args = set()
                for e in p.events:
                    if e.kind == "call" and re.search(r"json_str$", e.name) and e.args:
                        l = e.args[0].get(())
                        if l is not None:
                            js_args.add(id(l))
                unwraps = [e for e in p.events if e.kind == "call" and re.search(r"Option::unwrap_or$", e.name)]
                for t in tn:
                    n += 1
                    tl = t.dest.get(())
                    derived = [u.dest.get(()) for u in unwraps if u.args and u.args[0].get(()) is tl] + [tl]
                    if not any(id(d) in js_args for d in derived if d is not None):
                        raw_sites.append("%s::%s" % (st[0], meth))
    raw_sites = sorted(set(raw_sites))
    res.extra["json_formatters_raw_name_sites"] = raw_sites
    if raw_sites:
        ok, note = native_replay(res)
        fn = mprop.write_cex(res, "raw_tal_name", mir.Path(mir.State(), {}, "static"), E,
                             "trust-anchor name formatted into JSON without json_str in: %s. %s" % (", ".join(raw_sites), note))
        if ok is False:
            res.inconclusive.append("unescaped trust-anchor name did not reproduce natively")
        else:
            res.violation("mir:json-output:raw-tal-name",
                          "JSON / SLURM output writes the trust-anchor name unescaped (%s)%s" % (", ".join(raw_sites), "; reproduced natively" if ok else ""), fn)
    if n == 0:
        res.inconclusive.append("vacuity: no trust-anchor name use found in the JSON formatters")
    res.distinct += max(n, 0)
    return n


def native_replay(res):
    import nativetest
    failed, passed, out = nativetest.run_native_test("native_c21", "c21_native")
    obs = re.findall(r"C21-NATIVE (.*)", out)
    res.extra.setdefault("native_replays", []).append({"test": "c21_native_tal_name_with_quote", "failed": failed, "observed": obs[:6]})
    if failed:
        return True, "native: " + "; ".join(obs[:4])
    if passed:
        return False, "native test passed"
    return None, "native replay could not be built/run: " + out[-300:]


def run(res, tier):
    E = mprop.engine(res)
    res.extra.setdefault("source_files_sha256", {}).update(mprop.source_hashes([F, "src/utils/json.rs"]))
    check_selection(res, E)
    check_json_escaping(res, E)
    check_source_array(res, E, 2 if tier == "quick" else 3)
    res.bounds.append("selection: one rule vs one item with symbolic ASNs, opaque prefixes and an uninterpreted `covers` relation; "
                      "rule lists of up to 2 rules; JSON formatters: every path of every item writer of Json, ExtendedJson, Slurm, Slurm2")
    res.assumptions += ["Prefix::covers is rpki-rs's containment test (checked against integers under C20)",
                        "json_str produces valid JSON string content (C22)"]
    res.outside += ["whole-document layout of the 13 formats (dyn Formatter state machine through core::fmt); 'once each' relies on the "
                    "snapshot's de-duplication (C09); parsing SLURM output back"]
    res.rule = ("one case = one path of a selection function (z3: result equals the documented predicate) or one trust-anchor-name "
                "use in a JSON-family formatter (routed through json_str); evaluations = z3 queries")
    mprop.finish_engine(res, E)
