"""C10 Trust anchors are bound to their TAL key (M engine)."""
import re

import z3

import mir
import mprop


def disc_of(E, p, ev):
    leaf = ev.dest.get(()) if ev.dest else None
    if isinstance(leaf, mir.Opq):
        return mir.peek(E, p.mem, (("o", leaf.id), "disc"))
    return ev.dest.get(("disc",)) if ev.dest else None


def must(E, p, c):
    return not E.feasible(p.cond, z3.Not(c))


def check_tal_task(res, E, visits, only_gating=False):
    """obligations on Run::process_tal_task with load_ta inlined; only_gating: report just the process_ta gating (used by C01)."""
    body = E.prog.find("src/engine.rs", "Run", "process_tal_task")
    res.functions += ["routinator::engine::Run::process_tal_task (MIR, %d blocks)" % len(body.blocks),
                      "routinator::engine::Run::load_ta (MIR, inlined)"]
    run_fields = mir.struct_fields("Run", "src/engine.rs")
    selfp = mir.Opq("&engine::Run", "self")
    initial = z3.Bool("initial")

    def pre(E_, st, frame):
        st.mem[(("o", selfp.id), "deref", ("f", run_fields.index("initial")))] = initial

    paths = E.explore(body, max_visits=visits, max_paths=400000, inline=[r"engine::Run::load_ta$"],
                      pure=[r"subject_public_key_info$", r"Tal::key_info$"],
                      arg_values={"_1": {(): selfp}}, pre=pre, nomut=[r"."])
    n_ta = n_none = 0
    for i, p in enumerate(paths):
        if p.kind != "return":
            continue
        evs = p.events
        # ---- per load_ta frame obligations -------------------------------------------
        k = 0
        while k < len(evs):
            if evs[k].kind == "enter" and evs[k].name.endswith("engine::Run::load_ta"):
                j = k + 1
                while j < len(evs) and not (evs[j].kind == "ret" and evs[j].name.endswith("engine::Run::load_ta")):
                    j += 1
                frame_evs = evs[k + 1:j]
                names = [e.name for e in frame_evs]
                upd = [x for x, e in enumerate(frame_evs) if e.kind == "call" and re.search(r"store::Run::update_ta$", e.name)]
                dec = [x for x, e in enumerate(frame_evs) if e.kind == "call" and re.search(r"Cert::decode$", e.name)]
                stored = [x for x, e in enumerate(frame_evs) if e.kind == "call" and re.search(r"store::Run::load_ta$", e.name)]
                coll = [x for x, e in enumerate(frame_evs) if e.kind == "call" and re.search(r"collector::base::Run::load_ta$", e.name)]
                if upd and not only_gating:
                    ok = False
                    if dec and dec[0] < upd[0]:
                        d = disc_of(E, p, frame_evs[dec[0]])
                        ok = d is not None and must(E, p, d == 0)
                    if not ok:
                        fn = mprop.write_cex(res, "update_ta_without_decode_%d" % i, p, E,
                                             "store.update_ta reached although the downloaded certificate did not decode")
                        res.violation("mir:update-ta-without-decode",
                                      "a downloaded TA certificate that does not decode replaces the stored copy", fn)
                    if coll and not (coll[0] < upd[0]):
                        res.inconclusive.append("path %d: update_ta before download" % i)
                # when the download path did not return the certificate, the stored copy is consulted
                if j < len(evs) and not only_gating:
                    returned_download = bool(upd) and not stored
                    if not returned_download and not stored:
                        # maybe update_ta failed (Err propagates) - then ret is Err
                        retv = evs[j].dest or {}
                        d = retv.get(("disc",))
                        if d is None or E.feasible(p.cond, d == 0):
                            fn = mprop.write_cex(res, "stored_ta_not_consulted_%d" % i, p, E,
                                                 "load_ta returns Ok without the downloaded certificate and without consulting the store")
                            res.violation("mir:stored-ta-not-consulted",
                                          "download failed or did not decode, but the stored TA certificate is not consulted", fn)
                k = j
            k += 1
        # ---- process_ta gating -------------------------------------------------------------
        pt = [x for x, e in enumerate(evs) if e.kind == "call" and re.search(r"ProcessRun::process_ta$", e.name)]
        for x in pt:
            n_ta += 1
            # events of this loop iteration: since the last Iterator::next
            start = max([y for y, e in enumerate(evs[:x]) if e.kind == "call" and e.name.endswith("Iterator::next")] or [0])
            it = evs[start:x]
            spki = [e for e in it if re.search(r"subject_public_key_info$", e.name)]
            kinfo = [e for e in it if re.search(r"Tal::key_info$", e.name)]
            vta = [e for e in it if e.kind == "call" and re.search(r"Cert::validate_ta$", e.name)]
            problems = []
            if not spki or not kinfo:
                problems.append("key of the certificate is not compared with the TAL key")
            else:
                a, b = spki[-1].dest.get(()), kinfo[-1].dest.get(())
                # the getters return references; the comparison is on the keys behind them
                pa = mir.peek(E, p.mem, (("o", a.id), "deref")) if isinstance(a, mir.Opq) else None
                pb = mir.peek(E, p.mem, (("o", b.id), "deref")) if isinstance(b, mir.Opq) else None
                if pa is None or pb is None:
                    problems.append("key of the certificate is not compared with the TAL key")
                elif not must(E, p, E.ord_var(pa) == E.ord_var(pb)):
                    problems.append("process_ta reachable with certificate key != TAL key")
            if not vta:
                problems.append("validate_ta not called")
            else:
                d = disc_of(E, p, vta[-1])
                if d is None or not must(E, p, d == 0):
                    problems.append("process_ta reachable although validate_ta failed")
            if problems:
                fn = mprop.write_cex(res, "process_ta_ungated_%d" % i, p, E, "; ".join(problems))
                res.violation("mir:process-ta-ungated:" + ("key" if "key" in problems[0] else "validate"),
                              "trust anchor used without the required check: " + "; ".join(problems), fn)
            if len(res.samples) < 6:
                res.samples.append({"ta_used_after": [e.name.split("::")[-1] for e in it if e.kind in ("call", "pure")][-8:]})
        # ---- no URI worked ------------------------------------------------------------------
        if not pt and not p.has(r"process_ca_task$"):
            d = p.ret.get(("disc",))
            exhausted = p.has(r"Iterator::next$")
            if exhausted and d is not None:
                n_none += 1
                if only_gating:
                    continue
                early_err = any(e.kind == "call" and re.search(r"store::Run::(update_ta|load_ta)$|ProcessRun::process_ta$", e.name)
                                for e in evs) and E.feasible(p.cond, d == 1) and not p.has(r"Run::run_failed$")
                if not early_err:
                    # loop ran out of URIs: Ok(()) when not initial, Err + run_failed(retry) when initial
                    if E.feasible(p.cond, z3.And(z3.Not(initial), d == 1)) and not p.has(r"Run::run_failed$"):
                        pass
                    if p.has(r"Run::run_failed$"):
                        if not must(E, p, initial) or not must(E, p, d == 1):
                            fn = mprop.write_cex(res, "no_ta_retry_wrong_%d" % i, p, E, "run_failed without initial / without Err")
                            res.violation("mir:no-ta-retry-wrong", "TAL without usable trust anchor: retry signalled outside the initial run", fn)
    return n_ta, n_none, len(paths)


def run(res, tier):
    E = mprop.engine(res)
    res.extra.setdefault("source_files_sha256", {}).update(mprop.source_hashes(["src/engine.rs", "src/store.rs"]))
    # 3 URIs (visits 4) ran 21 min before the repair of process_tal_task (3b0276e) added error paths; afterwards it
    # exceeded 20000 paths and, with the cap raised, 38 min without finishing: the thorough tier keeps 2 URIs
    visits = 3
    n_ta, n_none, n_paths = check_tal_task(res, E, visits)
    res.distinct += n_ta + n_none
    res.extra["paths"] = n_paths
    res.extra["paths_truncated_at_bound"] = E.bound_hits
    res.extra["process_ta_sites_checked"] = n_ta
    res.extra["paths_without_any_ta"] = n_none
    if n_ta == 0 or n_none == 0:
        res.inconclusive.append("vacuity: process_ta paths=%d, no-TA paths=%d" % (n_ta, n_none))
    res.bounds.append("loop over the TAL's URIs unrolled to %d URIs; every outcome of download, decode, store read, key "
                      "comparison, validate_ta and CaCert::root is symbolic" % (visits - 1))
    res.assumptions += [
        "public keys compare by an equality over opaque values; validate_ta (rpki-rs) is an opaque Result",
        "fatal::write_file atomicity inside store.update_ta is not part of the claim",
    ]
    res.rule = ("one case = one process_ta call site occurrence on a feasible path (gating obligations) or one "
                "feasible path on which every URI failed; evaluations = z3 queries")
    mprop.finish_engine(res, E)
