"""C08 Unsafe-VRP policy filters exactly overlapping VRPs (Kani for the overlap test, M for the policy switch)."""
import re

import mprop
from kprop import run_kani_part

SPEC = {
    "groups": ["validation"],
    "files": ["src/payload/validation.rs"],
    "harnesses": {
        "quick": ["c08_keep_prefix_v4_one_block", "c08_keep_prefix_nothing_rejected", "c08_keep_prefix_other_family"],
        # c08_keep_prefix_v4_two_blocks (two symbolic rejected blocks) did not finish within 7200 s / 14 GB: not in a tier
        "thorough": ["c08_keep_prefix_v4_one_block", "c08_keep_prefix_nothing_rejected", "c08_keep_prefix_other_family"],
    },
    "harness_file": {"*": ("validation.rs", "src/payload/validation.rs")},
    "timeout": {"quick": 900, "thorough": 7200},
}


def run(res, tier):
    res.functions += [
        "routinator::payload::validation::RejectedResources::keep_prefix",
        "rpki::repository::resources::{IpBlocksBuilder::{push,finalize}, IpBlocks::intersects_block, Prefix, Addr::{to_min,to_max}} (dependency code, real)",
    ]
    res.bounds += [
        "rejected set built from exactly 1 symbolic IPv4 prefix (any bits, any length 0..32; a harness with 2 symbolic "
        "rejected prefixes exists but exceeds 7200 s and is in no tier); "
        "tested prefix: any IPv4 prefix; plus: empty rejected set with any IPv4/IPv6 prefix; rejected IPv4 block "
        "against any IPv6 prefix",
        "reference: integer interval overlap lo1 <= hi2 and lo2 <= hi1",
    ]
    res.outside += ["IPv6 rejected blocks and address ranges that are not prefixes (same code path in rpki-rs, u128 arithmetic)",
                    "the /0 exclusion in extend_from_cert needs a CaCert (signed object) and is only read off"]
    res.assumptions += ["the policy switch (reject drops, warn/accept keep) is decided on the MIR of "
                        "SnapshotBuilder::process_origin under C09 and repeated here"]
    res.rule = ("one case = one Kani harness; non-trivial = SUCCESSFUL with cover witnesses (overlapping and disjoint "
                "instances reachable); evaluations = CBMC checks")
    run_kani_part(res, SPEC, tier)
    # policy switch on the MIR (shared with C09)
    c09_run_origin_only(res)


def c09_run_origin_only(res):
    import z3
    import mir
    E = mprop.engine(res)
    F = "src/payload/validation.rs"
    FP = E.prog.enums["FilterPolicy"]
    REJ = FP.index("Reject")
    sb = mir.struct_fields("SnapshotBuilder", F)
    selfp = mir.Opq("&mut SnapshotBuilder", "self")
    policy = z3.Int("unsafe_vrps_policy")
    E.fact("unsafe_policy_dom2", z3.And(policy >= 0, policy < len(FP)))

    def pre(E_, st, frame):
        st.mem[(("o", selfp.id), "deref", ("f", sb.index("unsafe_vrps")), "disc")] = policy
    body = E.prog.find(F, "SnapshotBuilder", "process_origin")
    res.functions.append("SnapshotBuilder::process_origin (MIR): policy switch")
    paths = E.explore(body, max_visits=2, arg_values={"_1": {(): selfp}}, pre=pre, nomut=[r"."], noop=[r"AllVrpMetrics::update"])
    n = 0
    for i, p in enumerate(paths):
        if p.kind != "return":
            continue
        keep = [e for e in p.events if e.kind == "call" and re.search(r"RejectedResources::keep_prefix$", e.name)]
        drop = [e for e in p.events if e.kind == "call" and re.search(r"LocalExceptions::drop_origin$", e.name)]
        ins = p.has(r"HashMap::<.*>::entry$|HashMap::entry$")
        if not keep:
            fn = mprop.write_cex(res, "no_keep_prefix_%d" % i, p, E, "process_origin never tests the rejected resources")
            res.violation("mir:unsafe:filter-missing", "origins are not tested against rejected CAs' resources", fn)
            continue
        n += 1
        k = keep[-1].dest.get(())
        if ins:
            m = E.model(p.cond, z3.And(z3.Not(k), policy == REJ))
            if m is not None:
                fn = mprop.write_cex(res, "unsafe_served_%d" % i, p, E, "overlapping VRP inserted under reject", m)
                res.violation("mir:unsafe:served-under-reject", "a VRP overlapping rejected resources is served under unsafe-vrps=reject", fn)
        else:
            # dropped without SLURM: only under reject and only when overlapping
            slurm = drop and mir.is_z(drop[-1].dest.get(())) and E.feasible(p.cond, drop[-1].dest.get(()))
            if not slurm:
                m = E.model(p.cond, z3.Not(z3.And(z3.Not(k), policy == REJ)))
                if m is not None:
                    pol = FP[m.eval(policy, True).as_long()]
                    fn = mprop.write_cex(res, "filter_removes_%d" % i, p, E, "VRP removed by the unsafe filter under policy %s / although not overlapping" % pol, m)
                    res.violation("mir:unsafe:removed-without-reject:" + pol, "the unsafe-VRP filter removes a VRP under policy %s or without overlap" % pol, fn)
    if n < 3:
        res.inconclusive.append("vacuity: process_origin paths with keep_prefix=%d" % n)
    res.distinct += n
    mprop.finish_engine(res, E)
