"""C08 Unsafe-VRP policy filters exactly overlapping VRPs (Kani for the overlap test, M for the policy switch)."""
import re

import mprop
from kprop import run_kani_part

SPEC = {
    "groups": ["validation"],
    "files": ["src/payload/validation.rs"],
    "harnesses": {
        "quick": ["c08_keep_prefix_v4_one_block", "c08_keep_prefix_nothing_rejected", "c08_keep_prefix_other_family"],
        # c08_keep_prefix_v4_two_blocks (two symbolic rejected blocks) did not finish within 7200 s / 14 GB: not in a tier
        "thorough": ["c08_keep_prefix_v4_one_block", "c08_keep_prefix_nothing_rejected", "c08_keep_prefix_other_family"],
    },
    "harness_file": {"*": ("validation.rs", "src/payload/validation.rs")},
    "timeout": {"quick": 900, "thorough": 7200},
}


def run(res, tier):
    res.functions += [
        "routinator::payload::validation::RejectedResources::keep_prefix",
        "rpki::repository::resources::{IpBlocksBuilder::{push,finalize}, IpBlocks::intersects_block, Prefix, Addr::{to_min,to_max}} (dependency code, real)",
    ]
    res.bounds += [
        "rejected set built from exactly 1 symbolic IPv4 prefix (any bits, any length 0..32; a harness with 2 symbolic "
        "rejected prefixes exists but exceeds 7200 s and is in no tier); "
        "tested prefix: any IPv4 prefix; plus: empty rejected set with any IPv4/IPv6 prefix; rejected IPv4 block "
        "against any IPv6 prefix",
        "reference: integer interval overlap lo1 <= hi2 and lo2 <= hi1",
    ]
    res.outside += ["IPv6 rejected blocks and address ranges that are not prefixes (same code path in rpki-rs, u128 arithmetic)",
                    "the /0 exclusion in extend_from_cert needs a CaCert (signed object) and is only read off"]
    res.assumptions += ["the policy switch (reject drops, warn/accept keep) is decided on the MIR of "
                        "SnapshotBuilder::process_origin under C09 and repeated here"]
    res.rule = ("one case = one Kani harness; non-trivial = SUCCESSFUL with cover witnesses (overlapping and disjoint "
                "instances reachable); evaluations = CBMC checks")
    run_kani_part(res, SPEC, tier)
    # policy switch on the MIR (shared with C09)
    c09_run_origin_only(res)


def c09_run_origin_only(res):
    import z3
    import mir
    E = mprop.engine(res)
    F = "src/payload/validation.rs"
    FP = E.prog.enums["FilterPolicy"]
    REJ = FP.index("Reject")
    sb = mir.struct_fields("SnapshotBuilder", F)
    selfp = mir.Opq("&mut SnapshotBuilder", "self")
    policy = z3.Int("unsafe_vrps_policy")
    E.fact("unsafe_policy_dom2", z3.And(policy >= 0, policy < len(FP)))

    def pre(E_, st, frame):
        st.mem[(("o", selfp.id), "deref", ("f", sb.index("unsafe_vrps")), "disc")] = policy
    body = E.prog.find(F, "SnapshotBuilder", "process_origin")
    res.functions.append("SnapshotBuilder::process_origin (MIR): policy switch")
    paths = E.explore(body, max_visits=2, arg_values={"_1": {(): selfp}}, pre=pre, nomut=[r"."], noop=[r"AllVrpMetrics::update"])
    n = 0
    for i, p in enumerate(paths):
        if p.kind != "return":
            continue
        keep = [e for e in p.events if e.kind == "call" and re.search(r"RejectedResources::keep_prefix$", e.name)]
        drop = [e for e in p.events if e.kind == "call" and re.search(r"LocalExceptions::drop_origin$", e.name)]
        ins = p.has(r"HashMap::<.*>::entry$|HashMap::entry$")
        if not keep:
            fn = mprop.write_cex(res, "no_keep_prefix_%d" % i, p, E, "process_origin never tests the rejected resources")
            res.violation("mir:unsafe:filter-missing", "origins are not tested against rejected CAs' resources", fn)
            continue
        n += 1
        k = keep[-1].dest.get(())
        if ins:
            m = E.model(p.cond, z3.And(z3.Not(k), policy == REJ))
            if m is not None:
                fn = mprop.write_cex(res, "unsafe_served_%d" % i, p, E, "overlapping VRP inserted under reject", m)
                res.violation("mir:unsafe:served-under-reject", "a VRP overlapping rejected resources is served under unsafe-vrps=reject", fn)
        else:
            # dropped without SLURM: only under reject and only when overlapping
            slurm = drop and mir.is_z(drop[-1].dest.get(())) and E.feasible(p.cond, drop[-1].dest.get(()))
            if not slurm:
                m = E.model(p.cond, z3.Not(z3.And(z3.Not(k), policy == REJ)))
                if m is not None:
                    pol = FP[m.eval(policy, True).as_long()]
                    fn = mprop.write_cex(res, "filter_removes_%d" % i, p, E, "VRP removed by the unsafe filter under policy %s / although not overlapping" % pol, m)
                    res.violation("mir:unsafe:removed-without-reject:" + pol, "the unsafe-VRP filter removes a VRP under policy %s or without overlap" % pol, fn)
    if n < 3:
        res.inconclusive.append("vacuity: process_origin paths with keep_prefix=%d" % n)
    res.distinct += n
    mprop.finish_engine(res, E)
    check_rejected_builder(res)
    check_cli(res)


def check_rejected_builder(res):
    """RejectedResourcesBuilder::finalize: every block a rejected CA queued ends up in the set of its address family
    (nothing dropped or re-routed) - on every path each SegQueue::pop that yields an item is followed by exactly one
    IpBlocksBuilder::push of that item's block into the builder selected by its flag, and the result's v4 / v6 fields
    are those builders' finalize().  A different shape is decided by the native replay."""
    import z3
    import mir
    from gating import must
    E = mprop.engine(res)
    body = E.prog.find("src/payload/validation.rs", "RejectedResourcesBuilder", "finalize")
    res.functions.append("routinator::payload::validation::RejectedResourcesBuilder::finalize (MIR, queue loop unrolled to 2 items)")
    rf = mir.struct_fields("RejectedResources", "src/payload/validation.rs")
    problems = []
    n = 0
    for i, p in enumerate(E.explore(body, max_visits=3, nomut=[r"."])):
        if p.kind != "return":
            continue
        n += 1
        evs = [e for e in p.events if e.kind == "call"]
        news = [e.dest.get(()) for e in evs if re.search(r"IpBlocksBuilder::new$", e.name)]
        fins = {e.dest.get(()).id: e.args[0].get(()) for e in evs if re.search(r"IpBlocksBuilder::finalize$", e.name) and isinstance(e.dest.get(()), mir.Opq)}
        pops = [x for x, e in enumerate(evs) if re.search(r"SegQueue(::<.*>)?::pop$", e.name)]
        for j, x in enumerate(pops):
            nxt = pops[j + 1] if j + 1 < len(pops) else len(evs)
            popped = evs[x].dest.get(())
            pushes = [e for e in evs[x + 1:nxt] if re.search(r"IpBlocksBuilder::push$", e.name)]
            last = j + 1 == len(pops)
            if last:
                continue            # the pop that ends the loop yields None
            ok = len(pushes) == 1 and isinstance(popped, mir.Opq) and isinstance(pushes[0].args[1].get(()), mir.Opq) \
                and re.match(r"o%d(asSome)?\.0\.1$" % popped.id, pushes[0].args[1].get(()).origin or "") is not None
            if not ok:
                problems.append((p, "an item taken from the queue of rejected blocks is not pushed (exactly once, unchanged) into a block set"))
        if not pops:
            problems.append((p, "finalize does not drain the queue of rejected blocks"))
        for fld in ("v4", "v6"):
            leaf = p.ret.get((("f", rf.index(fld)),))
            if not (isinstance(leaf, mir.Opq) and leaf.id in fins):
                problems.append((p, "field %s of the result is not the finalize() of a block-set builder" % fld))
    res.distinct += n
    res.samples.append({"rejected_builder_paths": n})
    if not n:
        res.inconclusive.append("vacuity: RejectedResourcesBuilder::finalize has no returning path")
    if problems:
        import nativetest
        failed, passed, out = nativetest.run_native_test("native_c08", "c08_native_builder_keeps_every_block")
        m = re.search(r"C08-NATIVE-BUILDER (.*)", out)
        res.evaluations += 1
        p, what = problems[0]
        fn = mprop.write_cex(res, "rejected_builder", p, E, what + "\n\nnative replay: " + (m.group(1) if m else out[-1500:]))
        if failed:
            res.violation("mir:rejected-builder-drops-blocks", "the set of rejected resources is not the union of the queued blocks (%s); reproduced natively: %s"
                          % (what, m.group(1)[:400] if m else "test failed"), fn)
        elif passed:
            res.notes.append("RejectedResourcesBuilder::finalize has another shape than pop/push (%s); the native replay over all queue rotations passed" % what)
        else:
            res.inconclusive.append("RejectedResourcesBuilder::finalize: %s - native replay could not be built" % what)
    mprop.finish_engine(res, E)


def check_cli(res):
    """--unsafe-vrps on the command line is the policy in force whenever given (slice of apply_arg_matches)."""
    import c06
    E = mprop.engine(res)
    c06.check_cli_policy(res, E, name="unsafe_vrps", flag="--unsafe-vrps",
                         consequence="an explicit --unsafe-vrps reject does not replace the configured accept/warn, so overlapping VRPs stay")
    mprop.finish_engine(res, E)
