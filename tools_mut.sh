#!/bin/bash
# usage: tools_mut.sh <prop> <file> <python-regex-from> <to>   -- apply a one-off textual mutation to /repo, run the check, undo
prop=$1; file=$2; from=$3; to=$4
cd /repo || exit 9
python3 - "$file" "$from" "$to" <<'PY'
import sys,re
f,a,b=sys.argv[1:4]
s=open(f).read()
n=len(re.findall(a,s,re.S))
if n!=1: print("pattern matches",n,"times"); sys.exit(3)
open(f,"w").write(re.sub(a,lambda m:m.expand(b) if "\\1" in b else b,s,count=1,flags=re.S))
PY
rc=$?
if [ $rc -ne 0 ]; then git checkout -- .; exit $rc; fi
git diff | grep '^[-+]' | grep -v '^+++\|^---'
cd /verif && VERIF_EVIDENCE_DIR=/tmp/seed-evidence ./check $prop ${TIER:+--tier $TIER}; echo "exit=$?"
cd /repo && git checkout -- .
